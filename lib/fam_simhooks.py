"""C36 / C37 / C38 -- the Hydro deterministic simulator's decision hooks
(hydro_lang/src/sim/runtime.rs hook structs, compiled.rs run_hooks / exhaustive / fuzz_repro).

Jobs of one shared run:
 (1) TLC exhaustive on SimHooksImpl (every hook kind's decision procedure and run_hooks transcribed
     with an explicit choice script, composed with the SimHooks monitor): C36 rules + ImplComplete
     (runs reach exactly Allowed) for single hooks (2 rounds) and pairs of hooks per tick.
 (2) spec -> code: every behaviour TLC printed (hooks, arrivals, choice scripts, predicted
     requests and batches) is replayed into the REAL hooks / the real run_hooks with a scripted
     bolero driver; the recorded trace is validated by TLC (SimHooksTrace) -> C36.
 (3) code -> spec: for every distinct situation reached in (2) the harness enumerates the real
     decision tree of the next round (a) depth-first over the ranges its recording driver saw,
     (b) with the real bolero exhaustive engine as CompiledSim::exhaustive sets it up; every run is
     trace-validated (C36) and the set of outcomes reached must EQUAL Allowed(..) evaluated by TLC
     in the monitor state (extra -> C36, missing -> C37).
 (4) end to end: small Hydro programs under flow.sim().exhaustive; the set of tick-output sequences
     must equal the set of trails TLC computes for the same program (SimHooksMC) -> C37 (/C36).
 (5) C38: seeded random decision inputs, each run twice in one process and again in a second
     process -- real hooks with the bolero bytes driver, real programs through
     CompiledSim::fuzz_repro with the decision logger, and whole exhaustive explorations --
     SimReplayTrace memoises input |-> (decisions, outputs, verdict) and accepts only equal runs.
 (6) canaries: corrupted copies of good traces must be rejected by the trace specs."""
import concurrent.futures
import json
import os
import random

import vlib

PROPS = ["C36", "C37", "C38"]
ENGINE = "spec/SimHooks: monitor + implementation-shaped model of all hook kinds and run_hooks (TLC exhaustive), TLC behaviours replayed into the real hooks, real decision trees (scripted driver and real bolero exhaustive engine) trace-validated and compared with the TLC-computed outcome sets, sim programs end to end, replay determinism as a memo trace property"
MANIFEST = {
    "C36": {
        "text": "TLC model-checks an implementation-shaped model of every SimHook kind (StreamHook ordered/unordered, KeyedStreamHook ordered/unordered, SingletonHook, KeyedSingletonHook, PassthroughSingletonHook, the top-level order/merge/fold hooks) and of run_hooks against the C36 monitor (prefix / sub-bag per key, snapshots never go back, conservation, non-trivial scheduled tick) for all arrivals <=3 items, <=2 keys, <=3 versions, 1-2 hooks per tick, 2 rounds; every TLC behaviour is replayed into the real hooks through hook H3 and every decision tree of the real hooks is enumerated (scripted recording driver, and the real bolero exhaustive engine); TLC validates all recorded traces against the monitor.",
        "note": "Hooks are driven directly (the generated DFIR around them is not part of this check, except in the end-to-end programs of C37). Keys are u32; FxHashMap iteration order is probed, not assumed. Known finding: a tick containing a PassthroughSingletonHook without new input panics.",
        "technique": "TLA+ spec model-checked with TLC + conformance (TLC behaviours replayed into the code; code traces validated by TLC)",
        "design_ref": "DESIGN.md §6.15",
    },
    "C37": {
        "text": "Completeness of the decision space: the monitor defines Allowed(hooks, must) = every outcome the C36 rules permit in a state; TLC checks that the implementation-shaped model reaches exactly this set (ImplComplete) and, on traces of the real hooks, that the outcomes reached by a depth-first enumeration of the recorded request ranges AND by the real bolero exhaustive engine equal Allowed for every situation (queues <=3, 2 keys, 1-2 hooks). End to end, small Hydro programs (ordered batch, unordered batch, snapshot, two batches in one tick, batch + snapshot) run under flow.sim().exhaustive must produce exactly the set of tick-output sequences TLC enumerates from the specification (SimHooksMC).",
        "note": "Scheduler choice among several ready ticks/observations is covered only through the end-to-end programs (single tick each); inline (in-tick) order hooks are not bound.",
        "technique": "TLA+ spec model-checked with TLC + conformance (outcome sets of the real code compared with TLC-computed sets)",
        "design_ref": "DESIGN.md §6.15",
    },
    "C38": {
        "text": "Determinism as a trace property: SimReplayTrace keeps memo[input] = (decision log, outputs, verdict) and accepts a run only if it equals the memoised one. Runs: seeded random byte strings driving the real hooks through the bolero bytes driver (as fuzz_repro installs it), CompiledSim::fuzz_repro of end-to-end programs with run_with_scheduler_and_logger, and complete exhaustive explorations; every input is run twice in one process and twice in a second process. Two further programs bind the INLINE in-tick order hooks (p8: keyed batch + keyed assume_ordering = KeyedStreamOrderHook with 6 keys x 2-5 values in one tick; p9: assume_ordering = StreamOrderHook): 6 fixed decision-byte strings each, replayed 4 times per process in 2 processes.",
        "note": "The spec is deliberately the trivial 'function of its input'; the value is in the inputs (keyed hooks iterate FxHashMaps; two processes have different std RandomState).",
        "technique": "TLA+ trace specification evaluated by TLC on recorded runs of the real simulator",
        "design_ref": "DESIGN.md §6.15",
    },
}

SD = os.path.join(vlib.SPEC, "SimHooks")
WS = "harness_hydro"
KNOWN_CLASS = "passthrough-hook-without-input"
KNOWN_FP = "simhooks/run_hooks/passthrough-hook-without-input"

# end-to-end programs: name -> how a TLC trail entry (one round: per hook [key1 items, key2 items])
# maps to what the tick reports
VERSIONS = {"p3": {1: 0, 2: 1, 3: 2, 4: 3}, "p7": {11: 0, 12: 1}}
E2E = {
    "p1": lambda rnd: rnd[0][0],
    "p2": lambda rnd: rnd[0][0],
    "p3": lambda rnd: VERSIONS["p3"][rnd[0][0][0]],
    "p4": lambda rnd: [rnd[0][0], rnd[1][0]],
    "p7": lambda rnd: [rnd[0][0], VERSIONS["p7"][rnd[1][0][0]]],
}


# situations always enumerated in addition to those derived from the TLC behaviours:
# a passthrough snapshot hook that was released once and has no new version, next to a batch hook
EXTRA_SITUATIONS = [
    {"hooks": ["pass", "ord"], "steps": [["enq", 1, 1, 1001], ["enq", 2, 1, 2001], ["tick", []], ["enq", 2, 1, 2002], ["tick*"]]},
    {"hooks": ["unord", "pass"], "steps": [["enq", 2, 1, 2001], ["enq", 1, 1, 1001], ["tick", []], ["enq", 1, 1, 1002], ["tick*"]]},
]
# development knob (sandbox mutation runs of the hook-level parts only): skip the trybuild-based
# end-to-end programs.  Never set by ./check users; the evidence records it.
NO_E2E = bool(os.environ.get("VERIF_SIMHOOKS_NO_E2E"))


def _impl_cfg(name, maxhooks, maxq, maxkq, maxq2, rounds, top):
    p = os.path.join(vlib.rundir("cfg"), name)
    with open(p, "w") as f:
        f.write("SPECIFICATION Spec\nCONSTANTS\n  MaxHooks = %d\n  MaxQ = %d\n  MaxKQ = %d\n  MaxQ2 = %d\n"
                "  Rounds = %d\n  TopLevel = %s\n  EMIT = TRUE\n"
                "INVARIANTS ImplC36 ImplInv ImplComplete Emit\nCHECK_DEADLOCK FALSE\n"
                % (maxhooks, maxq, maxkq, maxq2, rounds, "TRUE" if top else "FALSE"))
    return p


def _impl_job(name, *consts):
    cfg = _impl_cfg(name + ".cfg", *consts)
    r = vlib.tlc(SD, "SimHooksImpl", cfg=cfg, workers=3, timeout=2400, tag=name)
    if not r.ok:
        raise vlib.ToolError("SimHooksImpl (%s) model check failed (spec/design error):\n%s" % (name, r.error_trace[-3000:]))
    vlib.require_coverage(r, ["Fill", "Round", "Rel", "EndRound"])
    return r


def _case_events(trace, cases):
    """events of the given case numbers (between their reset and the next reset)"""
    want, out, cur = set(cases), {}, None
    for e in vlib.read_ndjson(trace):
        if e.get("e") == "reset":
            cur = e.get("case")
        if cur in want and e.get("e") != "eof":
            out.setdefault(cur, []).append(e)
    return out


def _validate(trace, what, results):
    ok, r = vlib.validate_trace(SD, "SimHooksTrace", trace, tag="sh_" + what, timeout=2400)
    if not ok:
        raise vlib.ToolError("trace not consumed by SimHooksTrace (%s):\n%s" % (what, r.error_trace[-2000:]))
    for res in results:
        res.add_tlc(r, "trace-validation:" + what)
    viol = vlib.printed_json(r, "VIOL")
    cov = vlib.printed_json(r, "COV")
    covered = vlib.printed_json(r, "COVERED")
    detail = vlib.printed_json(r, "COVER")
    return (viol[0] if viol else []), (cov[0] if cov else []), covered, detail, r


def _rule_fp(rule, hooks):
    if rule.endswith(KNOWN_CLASS):
        return KNOWN_FP
    return "simhooks/%s/%s" % (rule, "+".join(hooks))


def _report_viol(res, trace, viol, where):
    evs = _case_events(trace, [c for c, _ in viol])
    for case, rule in viol:
        e = evs.get(case, [])
        hooks = e[0].get("hooks", []) if e else []
        res.violation(_rule_fp(rule, hooks), "rule %s broken by the real hooks %s (%s, case %s)" % (rule, hooks, where, case),
                      {"kind": "trace", "events": e})


def _enum_configs(cases, limit, rnd):
    """distinct situations = a case with its last round left open"""
    seen, out = set(), []
    for c in cases:
        steps = c["steps"]
        last = steps[-1]
        fin = ["tick*"] if last[0] == "tick" else ["dec*", last[1], last[2]]
        key = json.dumps([c["hooks"], steps[:-1], fin])
        if key in seen:
            continue
        seen.add(key)
        out.append({"hooks": c["hooks"], "steps": steps[:-1] + [fin]})
    total = len(out)
    if len(out) > limit:
        # keep every (hook kinds, kind of round) combination represented, then fill up at random
        rnd.shuffle(out)
        by, rest = {}, []
        for c in out:
            k = (tuple(c["hooks"]), c["steps"][-1][0], c["steps"][-1][-1] if c["steps"][-1][0] == "dec*" else 1)
            if len(by.setdefault(k, [])) < 4:
                by[k].append(c)
            else:
                rest.append(c)
        out = [c for v in by.values() for c in v]
        out += rest[:max(0, limit - len(out))]
    out += [dict(c) for c in EXTRA_SITUATIONS]
    for i, c in enumerate(out):
        c["id"] = i + 1
    return out, total


def _run_e2e(exe, d, progs, count, tag, modes="exhaustive,repro", name="e2e"):
    out = os.path.join(d, "%s_%s.ndjson" % (name, tag))
    p = vlib.run_bin(exe, [modes, ",".join(progs), count, tag, out], timeout=3000)
    if p.returncode != 0:
        raise vlib.ToolError("simprog (%s) failed rc=%s: %s" % (tag, p.returncode, p.stderr[-1500:]))
    return out


def _run_p5(exe, d):
    """witness that the known finding is reachable from a real program (the process aborts)"""
    out = os.path.join(d, "e2e_p5.ndjson")
    p = vlib.run_bin(exe, ["exhaustive", "p5", 0, "A", out], timeout=1500)
    if p.returncode == 0:
        return {"aborted": False}
    return {"aborted": True, "rc": p.returncode,
            "panic": [l for l in p.stderr.splitlines() if "panicked at" in l or "No decision" in l][:3]}


def _replay_validate(trace, what, res):
    ok, r = vlib.validate_trace(SD, "SimReplayTrace", trace, tag="sr_" + what, timeout=1200)
    if not ok:
        raise vlib.ToolError("trace not consumed by SimReplayTrace (%s):\n%s" % (what, r.error_trace[-2000:]))
    if res is not None:
        res.add_tlc(r, "replay-validation:" + what)
    viol = vlib.printed_json(r, "VIOL")
    stats = vlib.printed_json(r, "STATS")
    return (viol[0] if viol else []), (stats[0] if stats else {}), r


def run(tier):
    thorough = tier == "thorough"
    R = {p: vlib.PropResult(p) for p in PROPS}
    c36, c37, c38 = R["C36"], R["C37"], R["C38"]
    bindir = vlib.cargo_build("hv_sim", bins=["hooks", "simprog"], workspace=WS, timeout=7200)
    hooks_exe = os.path.join(bindir, "hooks")
    sim_exe = os.path.join(bindir, "simprog")
    d = vlib.rundir("simhooks")
    rnd = random.Random(vlib.seed())
    progs = ["p1", "p2", "p3", "p4", "p7"] if thorough else ["p1", "p4", "p7"]
    nrepro = 40 if thorough else 6

    # ---- jobs that do not depend on each other run side by side -------------------------------
    with concurrent.futures.ThreadPoolExecutor(max_workers=4) as ex:
        f_single = ex.submit(_impl_job, "sh_single", 1, 3, 2, 1, 3 if thorough else 2, True)
        f_pairs = ex.submit(_impl_job, "sh_pairs", 2, 2, 1, 1 if thorough else 0, 2 if thorough else 1, False)
        f_mc = ex.submit(vlib.tlc, SD, "SimHooksMC", workers=1, timeout=900, tag="sh_mc")

        INLINE = []

        def e2e():
            if NO_E2E:
                return None, None, {"skipped": True}
            a = _run_e2e(sim_exe, d, progs, nrepro, "A")
            b = _run_e2e(sim_exe, d, progs, nrepro, "B")
            # programs with the INLINE order hooks (KeyedStreamOrderHook / StreamOrderHook): 6 fixed
            # decision-byte strings, each replayed 4 times per process through fuzz_repro (C38 only)
            INLINE.extend(_run_e2e(sim_exe, d, ["p8", "p9"], 6, t, modes="repro4", name="e2e_inline") for t in ("A", "B"))
            return a, b, _run_p5(sim_exe, d)
        f_e2e = ex.submit(e2e)
        ndet = 3000 if thorough else 400

        def det():
            parts, dsumm = [], None
            for tag in ("A", "B"):
                o = os.path.join(d, "det_%s.ndjson" % tag)
                p = vlib.run_bin(hooks_exe, ["det", ndet, tag, o], timeout=1200)
                if p.returncode != 0:
                    raise vlib.ToolError("hooks det failed: " + p.stderr[-2000:])
                parts.append(o)
                dsumm = json.loads(p.stdout.strip().splitlines()[-1])
            return parts, dsumm
        f_det = ex.submit(det)
        r_single, r_pairs, r_mc = f_single.result(), f_pairs.result(), f_mc.result()
        e2e_a, e2e_b, p5 = f_e2e.result()
        parts, dsumm = f_det.result()

    # ---- (1) design level ---------------------------------------------------------------------
    for res in (c36, c37):
        res.add_tlc(r_single, "SimHooksImpl exhaustive: single hooks, all kinds")
        res.add_tlc(r_pairs, "SimHooksImpl exhaustive: pairs of hooks per tick (run_hooks)")
    if not r_mc.ok:
        raise vlib.ToolError("SimHooksMC failed:\n" + r_mc.error_trace[-2000:])
    vlib.require_coverage(r_mc, ["Round"])
    c37.add_tlc(r_mc, "SimHooksMC: outcome sets of the end-to-end programs")

    # ---- (2) spec -> code: replay every TLC behaviour -----------------------------------------
    cases = vlib.printed_json(r_single, "CASE") + vlib.printed_json(r_pairs, "CASE")
    if len(cases) < 500:
        raise vlib.ToolError("SimHooksImpl printed only %d behaviours" % len(cases))
    # pairs config also contains single-hook behaviours: drop exact duplicates
    uniq, seen = [], set()
    for c in cases:
        k = json.dumps([c["hooks"], c["steps"]])
        if k not in seen:
            seen.add(k)
            uniq.append(c)
    cases = uniq
    c36.extra["tlc_behaviours"] = len(cases)
    cap = 60000
    if len(cases) > cap:     # thorough tier: replay a seeded sample (all behaviours were model-checked)
        rnd.shuffle(cases)
        cases = cases[:cap]
    c36.extra["tlc_behaviours_replayed"] = len(cases)
    for i, c in enumerate(cases):
        c["id"] = i + 1
    casefile = os.path.join(d, "cases.ndjson")
    vlib.write_ndjson(casefile, cases)
    rtrace = os.path.join(d, "replay_trace.ndjson")
    p = vlib.run_bin(hooks_exe, ["replay", casefile, rtrace], timeout=1800)
    if p.returncode != 0:
        raise vlib.ToolError("hooks replay failed: " + p.stderr[-2000:])
    summ = json.loads(p.stdout.strip().splitlines()[-1])
    pool = concurrent.futures.ThreadPoolExecutor(max_workers=4)
    f_rv = pool.submit(_validate, rtrace, "replay", [])

    def enum_job():
        configs, total_cfg = _enum_configs(cases, 6000 if thorough else 700, rnd)
        cfgfile = os.path.join(d, "configs.ndjson")
        vlib.write_ndjson(cfgfile, configs)
        etrace = os.path.join(d, "enum_trace.ndjson")
        p = vlib.run_bin(hooks_exe, ["enum", cfgfile, etrace], timeout=2400)
        if p.returncode != 0:
            raise vlib.ToolError("hooks enum failed: " + p.stderr[-2000:])
        esumm = json.loads(p.stdout.strip().splitlines()[-1])
        return configs, total_cfg, etrace, esumm, _validate(etrace, "enum", [])
    f_en = pool.submit(enum_job)

    def det_job():
        runs = []
        for f in parts + ([] if NO_E2E else [e2e_a, e2e_b] + INLINE):
            runs += [e for e in vlib.read_ndjson(f) if e.get("e") == "run"]
        dtrace = os.path.join(d, "replay_det_trace.ndjson")
        vlib.write_ndjson(dtrace, runs + [{"e": "eof"}])
        return runs, dtrace, _replay_validate(dtrace, "runs", None)
    f_dv = pool.submit(det_job)

    viol, _cov, _c, _dt, r_rv = f_rv.result()
    c36.add_tlc(r_rv, "trace-validation:replay")
    c36.traces += summ["cases"]
    c36.evaluations += summ["cases"]
    nontrivial = [c for c in cases if any(len(pr["reqs"]) >= 1 for pr in c["pred"])]
    c36.distinct_nontrivial += len(nontrivial)
    for dr in summ["drift"][:10]:
        c36.drift.append({"kind": "real hooks disagree with SimHooksImpl (requests / batches)", **dr})
    if summ["drift_count"]:
        c36.extra["impl_model_drift_cases"] = summ["drift_count"]
    _report_viol(c36, rtrace, viol, "replay of TLC behaviour")
    mid = nontrivial[len(nontrivial) // 2]
    c36.samples.append({"kind": "TLC behaviour replayed into the real hooks (steps; answers of the choice script)",
                        "hooks": mid["hooks"], "steps": mid["steps"], "predicted": mid["pred"]})

    # ---- (3) code -> spec: enumerate the real decision trees ----------------------------------
    configs, total_cfg, etrace, esumm, (viol, cov, covered, detail, r_ev) = f_en.result()
    for res in (c36, c37):
        res.add_tlc(r_ev, "trace-validation:enum")
    runs = esumm["dfs_runs"] + esumm["exhaustive_runs"]
    c36.traces += runs
    c36.evaluations += runs
    c37.traces += runs
    c37.evaluations += len(covered)
    unstable = [c for c in cov if c[2] == "unstable-prefix"]
    cov = [c for c in cov if c[2] != "unstable-prefix"]
    if len(covered) + len(unstable) != 2 * len(configs):
        raise vlib.ToolError("cover events evaluated %d + %d unstable != 2 x %d configs" % (len(covered), len(unstable), len(configs)))
    if unstable:       # nondeterministic implementation: C38 reports it; outcome sets are not comparable
        for res in (c36, c37):
            res.drift.append({"kind": "scripted prefix left different states in different runs (nondeterminism, see C38); "
                                      "cover comparison skipped", "cover_events": len(unstable), "first_case": unstable[0][0]})
    multi = [x for x in esumm["per_config"] if x["dfs_outcomes"] >= 2]
    c37.distinct_nontrivial += len(multi)
    c36.distinct_nontrivial += len(multi)
    c37.extra["situations_total"] = total_cfg
    c37.extra["situations_enumerated"] = len(configs)
    c37.extra["allowed_outcomes_checked"] = sum(x["n"] for x in covered)
    c37.extra["exhaustive"] = total_cfg == len(configs)
    _report_viol(c36, etrace, viol, "enumerated decision tree")
    det = {(x["case"], x["how"]): x for x in detail}
    cover_cases = _case_events(etrace, [c for c, *_ in cov])
    for case, how, what, cls in cov:
        evs = cover_cases.get(case, [])
        hooks = evs[0].get("hooks", []) if evs else []
        fp = KNOWN_FP if cls == KNOWN_CLASS else "simhooks/cover/%s/%s/%s" % (what, how, "+".join(hooks))
        dd = det.get((case, how), {})
        rep = {"kind": "cover", "events": evs, "missing": dd.get("missing"), "extra": dd.get("extra")}
        if what == "outcome-not-reached":
            c37.violation(fp, "%s driver does not reach %s of the %s outcomes the spec allows for hooks %s (cover case %s)"
                          % (how, len(dd.get("missing") or []), dd.get("nallowed"), hooks, case), rep)
        else:
            c36.violation(fp, "%s driver reaches an outcome the spec does not allow for hooks %s (cover case %s)"
                          % (how, hooks, case), rep)
    big = max(esumm["per_config"], key=lambda x: x["dfs_outcomes"])
    c37.samples.append({"kind": "situation whose decision tree was enumerated (dfs scripts / exhaustive-engine runs / distinct outcomes)",
                        "config": next(c for c in configs if c["id"] == big["cfg"]), **big})

    # ---- (4) end to end -----------------------------------------------------------------------
    trails = {}
    for t in vlib.printed_json(r_mc, "TRAIL"):
        if t["prog"] in E2E:
            trails.setdefault(t["prog"], set()).add(json.dumps([E2E[t["prog"]](rd) for rd in t["trail"]]))
    observed, instances = {}, {}
    for e in (vlib.read_ndjson(e2e_a) if e2e_a else []):
        if e.get("e") == "instance":
            observed.setdefault(e["prog"], set()).add(json.dumps(e["out"]))
            instances[e["prog"]] = instances.get(e["prog"], 0) + 1
    e2e_info = {}
    for prog in ([] if NO_E2E else progs):
        spec, obs = trails.get(prog, set()), observed.get(prog, set())
        if not spec or not obs:
            raise vlib.ToolError("end-to-end program %s: no trails (%d) or no instances (%d)" % (prog, len(spec), len(obs)))
        e2e_info[prog] = {"instances": instances[prog], "distinct_outcomes": len(obs), "tlc_outcomes": len(spec)}
        c37.traces += instances[prog]
        c37.evaluations += instances[prog]
        c37.distinct_nontrivial += len(obs)
        for o in sorted(spec - obs):
            c37.violation("simhooks/e2e/%s/outcome-not-reached" % prog,
                          "flow.sim().exhaustive on %s never produced the tick outputs %s (allowed by the spec)" % (prog, o),
                          {"kind": "e2e", "prog": prog, "missing": json.loads(o), "observed": sorted(obs)})
        for o in sorted(obs - spec):
            c36.violation("simhooks/e2e/%s/outcome-not-allowed" % prog,
                          "flow.sim().exhaustive on %s produced tick outputs %s that no sequence of sound decisions yields" % (prog, o),
                          {"kind": "e2e", "prog": prog, "extra": json.loads(o), "allowed": sorted(spec)})
    c37.extra["end_to_end"] = e2e_info
    c36.extra["known_finding_witness_p5"] = p5
    if not NO_E2E:
        c37.samples.append({"kind": "end-to-end program p4 (two batches in one tick): one tick-output sequence",
                            "out": json.loads(sorted(observed["p4"])[len(observed["p4"]) // 2])})
    else:
        for res in R.values():
            res.extra["end_to_end_skipped_by_env"] = True

    # ---- (5) C38 ------------------------------------------------------------------------------
    runs, dtrace, (viol, stats, r_dv) = f_dv.result()
    c38.add_tlc(r_dv, "replay-validation:runs")
    pool.shutdown()
    per_input = {}
    for e in runs:
        per_input.setdefault(e["input"], set()).add((e["proc"], e["rep"]))
    short = [k for k, v in per_input.items() if len(v) < 4 or {p for p, _ in v} != {"A", "B"}]
    if stats.get("runs") != len(runs) or stats.get("inputs") != len(per_input) or short:
        raise vlib.ToolError("replay trace: %s for %d runs; inputs not run >= 4 times in 2 processes: %s" % (stats, len(runs), short[:3]))
    if not NO_E2E:
        inl = [k for k in per_input if k.startswith(("repro/p8/", "repro/p9/"))]
        if len(inl) != 12 or any(len(per_input[k]) != 8 for k in inl):
            raise vlib.ToolError("inline-order-hook programs p8/p9: expected 12 inputs x 8 runs, got %s" % {k: len(per_input[k]) for k in inl})
        big = [e for e in runs if e["input"].startswith("repro/p8/") and e["proc"] == "A" and e["rep"] == 1
               and any(l.count(", ") >= 8 and l.count("[") >= 4 for l in e["decisions"].splitlines() if "observed non-deterministic order" in l)]
        if len(big) < 3:
            raise vlib.ToolError("p8: fewer than 3 decision inputs give the inline keyed order hook a batch with several multi-value keys")
        c38.extra["inline_order_hook_inputs"] = {"p8_keyed(KeyedStreamOrderHook)": 6, "p9(StreamOrderHook)": 6, "runs_each": 8,
                                                 "p8_inputs_with_multi_key_multi_value_batch": len(big)}
    c38.traces += len(runs)
    c38.evaluations += len(runs)
    dec_of = {}
    for e in runs:
        dec_of.setdefault(e["input"], e["decisions"])
    c38.distinct_nontrivial += len({v for k, v in dec_of.items()
                                    if (k.startswith("hooks/") and v.count("[") >= 3) or
                                    (k.startswith("repro/") and v.count("Running Tick") >= 2) or k.startswith("exhaustive/")})
    c38.extra["inputs"] = stats.get("inputs")
    c38.extra["hook_level_inputs"] = ndet
    c38.extra["hook_level_inputs_with_2+_decisions"] = dsumm["nontrivial"]
    for inp, proc, rep, what in viol:
        kind = inp.split("/")[0]
        sub = inp.split("/")[1] if kind != "hooks" else "-"
        fp = "simhooks/replay/%s/%s" % (sub, what) if kind == "repro" else "simreplay/%s/%s/%s" % (kind, sub, what)
        c38.violation(fp,
                      "run %s/%s of decision input %s: %s from the first run" % (proc, rep, inp, what),
                      {"kind": "replay", "events": [e for e in runs if e["input"] == inp]})
    s = next((e for e in runs if e["input"].startswith("repro/p4") and e["decisions"].count("Running Tick") >= 2), None)
    if s:
        c38.samples.append({"kind": "fuzz_repro run of p4 (decision log of the simulator, outputs, verdict)", **s})
    s = next((e for e in runs if e["input"].startswith("hooks/") and e["decisions"].count("[") >= 4), runs[0])
    c38.samples.append({"kind": "hook-level run under the bolero bytes driver", **s})

    # ---- (6) canaries -------------------------------------------------------------------------
    _canaries(rtrace, etrace, dtrace, d, R)

    c36.rule = ("cases = behaviours of SimHooksImpl (hook kinds x arrivals x choice scripts) replayed into the real hooks, plus "
                "every run of the enumerated real decision trees; non-trivial = the behaviour makes at least one driver "
                "request with more than one possible answer (replay), or the situation has >= 2 distinct outcomes (enumeration); "
                "distinct by hooks+steps")
    c37.rule = ("evaluations = cover checks (situation x driver) evaluated by TLC + explored instances of the end-to-end programs; "
                "non-trivial/distinct = situations with >= 2 distinct outcomes, plus distinct tick-output sequences of the programs")
    c38.rule = ("cases = runs; every decision input is run >= 4 times (>= 2 per process, 2 processes; 4 + 4 for the inline-order-hook programs p8/p9); non-trivial = distinct decision "
                "logs with >= 2 decisions (hook level: >= 2 non-degenerate driver requests; programs: >= 2 ticks), "
                "plus whole exhaustive explorations")
    c36.assumptions = ["hook H3 (verif_run_hooks) forwards to the private run_hooks unchanged",
                       "ticks are only run when SimTick::can_run holds, direct decisions only on ready hooks (scheduler contract)",
                       "item values are opaque to the hooks: items are unique u32 ids",
                       "positional keys: the real key order of the hooks' FxHashMap is probed at start"]
    c37.assumptions = c36.assumptions + [
        "the order inside a released unordered batch carries no meaning (compared as sets); for the fold hook it does",
        "end-to-end: all inputs are sent before the first scheduler step, so all arrivals precede the first round"]
    c38.assumptions = ["the decision input is the byte string given to the bolero bytes driver (as fuzz_repro does) resp. the "
                       "exhaustive driver's own enumeration; wall-clock, env and thread timing are not inputs",
                       "panics inside the simulation dylib abort the process (foreign exception) and are not replayed"]
    return R


def _canaries(rtrace, etrace, dtrace, d, R):
    # C36: (a) swap two items inside a multi-item batch of an ordered hook, (b) drop a pending item from q
    evs, cur, kinds, done = vlib.read_ndjson(rtrace)[:1500], None, [], {}
    a = [dict(e) for e in evs]
    for e in a:
        if e.get("e") == "reset":
            kinds = e["hooks"]
        if e.get("e") == "rel" and kinds[e["h"] - 1] in ("ord", "kord") and "swap" not in done:
            b = e["b"]
            idx = [i for i in range(len(b) - 1) if b[i][0] == b[i + 1][0]]
            if idx:
                i = idx[0]
                b[i], b[i + 1] = b[i + 1], b[i]
                done["swap"] = True
        elif e.get("e") == "rel" and "lost" not in done and any(len(q[1]) >= 1 for q in e["q"]):
            for q in e["q"]:
                if q[1]:
                    q[1].pop()
                    break
            done["lost"] = True
    if len(done) < 2:
        raise vlib.ToolError("canary: no suitable events found in the replay trace")
    ct = os.path.join(d, "canary_c36.ndjson")
    vlib.write_ndjson(ct, a + ([{"e": "eof"}] if a[-1].get("e") != "eof" else []))
    viol, _, _, _, _ = _validate(ct, "canary36", [])
    rules = {r for _, r in viol}
    if not ({"ordered-batch-not-a-prefix", "pending-item-lost-or-duplicated"} <= rules):
        raise vlib.ToolError("canary (swapped ordered batch / lost pending item) NOT rejected: %s" % sorted(rules))
    R["C36"].extra["canary"] = "swapped ordered batch and dropped pending item rejected: %s" % sorted(rules)

    # C37: remove one reached outcome from a cover event with >= 2 outcomes
    evs = vlib.read_ndjson(etrace)
    start = None
    for i, e in enumerate(evs):
        if e.get("e") == "reset":
            start = i
        if e.get("e") == "cover" and e["how"] == "exhaustive" and len(e["reached"]) >= 3:
            seg = [dict(x) for x in evs[start:i + 1]]
            seg[-1] = dict(seg[-1])
            seg[-1]["reached"] = seg[-1]["reached"][1:]
            ct = os.path.join(d, "canary_c37.ndjson")
            vlib.write_ndjson(ct, seg + [{"e": "eof"}])
            _, cov, _, _, _ = _validate(ct, "canary37", [])
            if not any(c[2] == "outcome-not-reached" for c in cov):
                raise vlib.ToolError("canary (one outcome removed from a cover event) NOT rejected")
            R["C37"].extra["canary"] = "cover event with one outcome removed rejected: %s" % cov[:1]
            break
    else:
        raise vlib.ToolError("canary: no cover event with >= 3 outcomes")

    # C38: change the outputs of one replayed run
    evs = vlib.read_ndjson(dtrace)
    for i, e in enumerate(evs):
        if e.get("e") == "run" and e["rep"] == 2 and len(e["outputs"]) > 6:
            evs[i] = dict(e, outputs=e["outputs"][:-2] + "9]")
            break
    ct = os.path.join(d, "canary_c38.ndjson")
    vlib.write_ndjson(ct, evs[:400] + [{"e": "eof"}] if i < 400 else evs)
    viol, _, _ = _replay_validate(ct, "canary38", None)
    if not any(v[3] == "outputs-differ" for v in viol):
        raise vlib.ToolError("canary (altered outputs of a replayed run) NOT rejected")
    R["C38"].extra["canary"] = "altered outputs of a replay rejected: %s" % viol[:1]
    # C38, inline order hooks: the 8 runs of one p8 input, one of them with two values of a key swapped
    p8 = [dict(e) for e in vlib.read_ndjson(dtrace) if e.get("e") == "run" and e["input"].startswith("repro/p8/")]
    if p8:
        one = [e for e in p8 if e["input"] == p8[-1]["input"]]
        out = json.loads(one[-1]["outputs"])
        k = next(i for i, kv in enumerate(out) if len(kv[1]) >= 2)
        out[k][1][0], out[k][1][1] = out[k][1][1], out[k][1][0]
        one[-1]["outputs"] = json.dumps(out, separators=(",", ":"))
        ct = os.path.join(d, "canary_c38_inline.ndjson")
        vlib.write_ndjson(ct, one + [{"e": "eof"}])
        viol, _, _ = _replay_validate(ct, "canary38i", None)
        if not any(v[0] == one[-1]["input"] and v[3] == "outputs-differ" for v in viol):
            raise vlib.ToolError("canary (p8 replay with two values of one key swapped) NOT rejected")
        R["C38"].extra["canary_inline"] = "p8 replay with a different per-key order rejected: %s" % viol[:1]


def replay(pid, path):
    with open(path) as f:
        rep = json.load(f)
    case = rep["case"]
    d = vlib.rundir("simhooks")
    t = os.path.join(d, "replay_one.ndjson")
    if case.get("kind") == "replay":
        vlib.write_ndjson(t, case["events"] + [{"e": "eof"}])
        viol, _, _ = _replay_validate(t, "replay_one", None)
        print("recorded runs re-validated; differences:", viol)
        return 1 if viol else 0
    if case.get("kind") == "e2e":
        print("end-to-end outcome set mismatch recorded for program %s: %s" % (case["prog"], {k: case[k] for k in case if k in ("missing", "extra")}))
        print("re-run: harness_hydro/target/release/simprog exhaustive %s 0 A <out>" % case["prog"])
        return 1
    vlib.write_ndjson(t, case["events"] + [{"e": "eof"}])
    viol, cov, _, detail, _ = _validate(t, "replay_one", [])
    print("recorded events re-validated; rules broken:", viol, "cover mismatches:", cov)
    for dd in detail:
        print("  ", json.dumps(dd)[:1000])
    return 1 if (viol or cov) else 0
