"""C11 -- pull combinators of dfir_pipes match iterator semantics under any Pending schedule.
Jobs per group of trees (unary / binary / consuming futures / leaf flavours / non-fused upstreams /
2-level compositions): (1) TLC model-checks the implementation-shaped model PullPipeImpl (every
combinator's pull and size_hint transcribed) composed with the PullPipe monitor, for every tree
x script configuration of the group, and prints every behaviour as a CASE line; (2) the harness
replays every case into the REAL combinators and records one event per root call; (3) TLC validates
the recorded trace against the monitor (PullPipeTrace); (4) seeded random deeper trees with longer
scripts are recorded and validated the same way; (5) canary: a corrupted trace must be flagged."""
import concurrent.futures
import json
import os

import vlib

PROPS = ["C11"]
ENGINE = "spec/PullPipe: monitor (iterator reference semantics, end rule, fusedness, size-hint bracket, bounded progress) + implementation-shaped model of every pull combinator (TLC exhaustive over trees x scripts x Pending placements), all TLC behaviours replayed into the real combinators, TLC trace validation of replayed and seeded random runs"
MANIFEST = {
    "C11": {
        "text": "TLC exhaustively checks the transcribed state machines of map, filter, filter_map, filter_map_async, inspect, enumerate, skip, skip_while, take, take_while, fuse, flat_map, flatten, flat_map_stream, flatten_stream, chain, zip, zip_longest, cross_singleton, stream/stream_compat/poll_fn/from_fn/iter/once/empty sources and adapters and the consuming futures collect, for_each, next, send_push, send_sink, accumulate_all with Fold/FoldFrom/Reduce (plus 2-level compositions) against the reference iterator semantics for all item sequences over {0,1,2} per upstream x every placement of Pendings (quick: <=3 items with <=1 Pending and <=2 items with <=2 Pendings; thorough: <=4 items with <=2 Pendings; binary/compositions: smaller bounds, see evidence coverage.bounds); every TLC behaviour is replayed into the real combinators and TLC validates the recorded traces (items = reference prefix, end only when complete, fused pulls stay ended, size hints bracket the remaining items, no stall, no poll of a non-fused upstream after its end); seeded random deeper trees with longer scripts are validated the same way.",
        "note": "Upstreams are scripted doubles with truthful size hints (exact / loose / unknown); closures come from a fixed vocabulary defined identically in TLA+ and Rust; each level of a tree is boxed behind a forwarding adapter.",
        "technique": "TLA+ spec model-checked with TLC + conformance (TLC behaviours replayed into the code; code traces validated by TLC)",
        "design_ref": "DESIGN.md §6.6",
    },
}

SD = os.path.join(vlib.SPEC, "PullPipe")
KNOWN_RULES = []        # rules the transcribed code is known to break (none since fix e45f3244bc3)
FMA_RULE = "size-hint-upper-below-remaining-while-future-in-flight"
FMA_FP = "pull/filter_map_async/size-hint-upper-ignores-in-flight-future"

# (job name, GROUP, L, P, VALS, HMS) per tier
QUICK = [
    ("unary", "unary", 3, 1, "{0, 1, 2}", "{0}"),
    ("unary-2pend-hints", "unary", 2, 2, "{0, 1, 2}", "{0, 1}"),
    ("binary", "binary", 2, 1, "{0, 1, 2}", "{0}"),
    ("future", "future", 2, 1, "{0, 1, 2}", "{0}"),
    ("flavour", "flavour", 2, 1, "{0, 1, 2}", "{0}"),
    ("nonfused", "nonfused", 2, 1, "{1, 2}", "{0}"),
    ("comp_uu", "comp_uu", 1, 1, "{1, 2}", "{0}"),
    ("comp_ub", "comp_ub", 1, 1, "{1, 2}", "{0}"),
    ("comp_bu", "comp_bu", 1, 1, "{2}", "{0}"),
]
THOROUGH = [
    ("unary", "unary", 4, 2, "{0, 1, 2}", "{0}"),
    ("unary-hints", "unary", 3, 2, "{0, 1, 2}", "{1, 2}"),
    ("unary-unknown-hints", "unary", 2, 1, "{0, 1, 2}", "{2}"),
    ("binary", "binary", 2, 2, "{0, 1, 2}", "{0}"),
    ("binary-hints", "binary", 2, 1, "{0, 1}", "{1, 2}"),
    ("future", "future", 3, 2, "{0, 1, 2}", "{0}"),
    ("flavour", "flavour", 2, 2, "{0, 1, 2}", "{0, 1}"),
    ("nonfused", "nonfused", 2, 1, "{0, 1, 2}", "{0}"),
    ("comp_uu", "comp_uu", 3, 1, "{0, 1, 2}", "{0}"),
    ("comp_ub", "comp_ub", 2, 1, "{1, 2}", "{0}"),
    ("comp_bu", "comp_bu", 1, 1, "{0, 1, 2}", "{0}"),
]
ALL_KINDS = ["map", "filter", "filter_map", "filter_map_async", "inspect", "enumerate", "skip", "skip_while",
             "take", "take_while", "fuse", "flat_map", "flatten", "flat_map_stream", "flatten_stream", "compat",
             "chain", "zip", "zip_longest", "cross_singleton", "collect", "for_each", "send_push", "send_sink",
             "next", "fold", "fold_from", "reduce"]


def _write_cfg(name, group, L, P, vals, hms):
    p = os.path.join(vlib.rundir("cfg"), "pp_%s.cfg" % name)
    with open(p, "w") as f:
        f.write('SPECIFICATION Spec\nCONSTANTS\n  GROUP = "%s"\n  L = %d\n  P = %d\n  VALS = %s\n  HMS = %s\n'
                '  KNOWN = {%s}\n  EMIT = TRUE\nINVARIANTS C11Model ImplInv Emit\nCHECK_DEADLOCK TRUE\n'
                % (group, L, P, vals, hms, ", ".join('"%s"' % k for k in KNOWN_RULES)))
    return p


def _kinds(t, acc=None):
    acc = set() if acc is None else acc
    acc.add(t["k"])
    for c in t["c"]:
        _kinds(c, acc)
    return acc


def _is_flat(tree):
    return all(c["k"] == "src" for c in tree["c"])


def _fingerprint(tree, rule, flat_bad):
    """pull/<combinator>/<rule>.  A violation seen on a composed tree is attributed to a combinator of
    the tree that already breaks a rule on its own (over plain scripted upstreams) in this run, so one
    defect gives one fingerprint per rule instead of one per composition."""
    if rule == FMA_RULE:
        return FMA_FP
    if not _is_flat(tree):
        ks = _kinds(tree)
        same = sorted(k for (k, r) in flat_bad if k in ks and r == rule)
        anyr = sorted(k for (k, r) in flat_bad if k in ks)
        if same or anyr:
            return "pull/%s/%s" % ((same or anyr)[0], rule)
    kids = "+".join(sorted(c["k"] for c in tree["c"] if c["k"] != "src"))
    return "pull/%s%s/%s" % (tree["k"], ("(" + kids + ")") if kids else "", rule)


def _validate(trace, name):
    ok, r = vlib.validate_trace(SD, "PullPipeTrace", trace, tag="pp_" + name, timeout=2400)
    if not ok:
        raise vlib.ToolError("trace not consumed by PullPipeTrace (%s):\n%s" % (name, r.error_trace[-2000:]))
    viol = vlib.printed_json(r, "VIOL")
    drift = vlib.printed_json(r, "DRIFT")
    if not viol or not drift:
        raise vlib.ToolError("PullPipeTrace printed no verdict (%s)" % name)
    return r, viol[0], drift[0]


def _case_events(trace, wanted):
    out, cur = {c: [] for c in wanted}, None
    for e in vlib.read_ndjson(trace):
        if e.get("e") == "reset":
            cur = e.get("case")
        if cur in out:
            out[cur].append(e)
    return out


def _nontrivial(scripts, ref_nonempty):
    return ref_nonempty and any([-1] in s for s in scripts)


def _group_job(exe, d, job):
    """model check + generate, replay, validate one group; returns a dict of measurements"""
    name, group, L, P, vals, hms = job
    cfg = _write_cfg(name, group, L, P, vals, hms)
    r = vlib.tlc(SD, "PullPipeImpl", cfg=cfg, workers=3, timeout=3000, coverage=False, tag="pp_mc_" + name)
    if not r.ok:
        raise vlib.ToolError("PullPipeImpl (%s) model check failed (spec/design error):\n%s" % (name, r.error_trace[-3000:]))
    cases = vlib.printed_json(r, "CASE")
    if len(cases) < 50:
        raise vlib.ToolError("PullPipeImpl (%s) produced only %d cases" % (name, len(cases)))
    # -coverage is unusable on this module (TLC's cost-model construction for the mutually
    # recursive operators exhausts memory), so action coverage is measured from TLC's own output:
    # every CASE line is a behaviour that took Hint0 once and Call len(calls) times.
    r.coverage = {"Hint0": (len(cases), len(cases)),
                  "Call": (sum(len(c["calls"]) for c in cases),) * 2}
    vlib.require_coverage(r, ["Hint0", "Call"])
    casefile = os.path.join(d, "%s_cases.ndjson" % name)
    vlib.write_ndjson(casefile, cases)
    trace = os.path.join(d, "%s_trace.ndjson" % name)
    p = vlib.run_bin(exe, ["replay", casefile, trace])
    if p.returncode != 0:
        raise vlib.ToolError("pull_pipe replay (%s) failed: %s" % (name, p.stderr[-2000:]))
    summ = json.loads(p.stdout.strip().splitlines()[-1])
    if summ["cases"] != len(cases):
        raise vlib.ToolError("pull_pipe replay (%s): %d of %d cases run" % (name, summ["cases"], len(cases)))
    tv, viol, drift = _validate(trace, "replay_" + name)
    return {"name": name, "mc": r, "tv": tv, "cases": cases, "viol": viol, "drift": drift, "summ": summ, "trace": trace}


def run(tier):
    res = vlib.PropResult("C11")
    thorough = tier == "thorough"
    bindir = vlib.cargo_build("hv_pull", bins=["pull_pipe"])
    exe = os.path.join(bindir, "pull_pipe")
    d = vlib.rundir("pullpipe")
    jobs = THOROUGH if thorough else QUICK

    # (1)-(3) per group, a few groups at a time (3 TLC workers each)
    with concurrent.futures.ThreadPoolExecutor(max_workers=3) as ex:
        outs = list(ex.map(lambda j: _group_job(exe, d, j), jobs))

    seen_kinds, keys = set(), set()
    found = []      # (tree, rule, what, replay object), reported once all groups are known
    for o in outs:
        name, cases = o["name"], o["cases"]
        res.add_tlc(o["mc"], "PullPipeImpl exhaustive+generate:%s" % name)
        res.add_tlc(o["tv"], "trace-validation:replay_%s" % name)
        res.traces += len(cases)
        res.evaluations += len(cases)
        for c in cases:
            if any(cl["s"] == "R" or cl["i"] for cl in c["calls"]):
                seen_kinds |= _kinds(c["tree"])
            if _nontrivial(c["scripts"], bool(c["ref"])):
                keys.add(json.dumps([c["tree"], c["scripts"], c["hm"]], sort_keys=True))
        if o["summ"]["ndrift"]:
            for dr in o["summ"]["drift"][:3]:
                res.drift.append({"kind": "call-by-call answer/polls/hint differ from PullPipeImpl", "group": name, **dr})
            res.extra["drift_cases_" + name] = o["summ"]["ndrift"]
        by_case = {}
        for case, rule in o["viol"]:
            by_case.setdefault(case, set()).add(rule)
        evs = _case_events(o["trace"], sorted(by_case)[:3000])
        for case, rules in sorted(by_case.items()):
            c = cases[case - 1]
            for rule in sorted(rules):
                found.append((c["tree"], rule,
                              "rule %s broken by the real combinators: tree %s scripts %s (group %s)"
                              % (rule, json.dumps(c["tree"]), json.dumps(c["scripts"]), name),
                              {"tree": c["tree"], "scripts": c["scripts"], "hm": c["hm"], "rule": rule,
                               "events": evs.get(case, [])}))
        # the model predicts the same rule breaks as the code shows (else the model is stale)
        for i, c in enumerate(cases):
            if set(c["bad"]) != by_case.get(i + 1, set()) and len(res.drift) < 20:
                res.drift.append({"kind": "rules broken differ: model %s vs code %s" % (sorted(c["bad"]), sorted(by_case.get(i + 1, set()))),
                                  "group": name, "tree": c["tree"], "scripts": c["scripts"]})
        for case, what in o["drift"][:5]:
            res.drift.append({"kind": "implementation fact: " + what, "group": name, "case": case})
    missing = [k for k in ALL_KINDS if k not in seen_kinds]
    if missing:
        raise vlib.ToolError("vacuous: combinators never seen yielding an item: %s" % missing)
    res.samples.append({"kind": "replayed TLC behaviour (tree, scripts: [-1] = Pending, model-predicted calls)",
                        **{k: outs[0]["cases"][len(outs[0]["cases"]) // 2][k] for k in ("tree", "scripts", "calls")}})
    c2 = outs[-1]["cases"][len(outs[-1]["cases"]) // 3]
    res.samples.append({"kind": "replayed TLC behaviour (composition)", "tree": c2["tree"], "scripts": c2["scripts"], "ref": c2["ref"]})

    # (4) code -> spec: seeded random deeper trees, longer scripts
    count = 40000 if thorough else 2500
    rtrace = os.path.join(d, "random_trace.ndjson")
    p = vlib.run_bin(exe, ["random", count, 20 if thorough else 8, 10 if thorough else 4, rtrace])
    if p.returncode != 0:
        raise vlib.ToolError("pull_pipe random failed: " + p.stderr[-2000:])
    summ = json.loads(p.stdout.strip().splitlines()[-1])
    tv, viol, drift = _validate(rtrace, "random")
    res.add_tlc(tv, "trace-validation:random")
    res.traces += summ["cases"]
    res.evaluations += summ["cases"]
    resets = {}
    for e in vlib.read_ndjson(rtrace):
        if e.get("e") == "reset":
            resets[e["case"]] = e
            if any([-1] in s for s in e["scripts"]) and any(any(x[0] >= 0 for x in s) for s in e["scripts"]):
                keys.add(json.dumps([e["tree"], e["scripts"], e["hm"]], sort_keys=True))
            if len(res.samples) < 4 and len(e["scripts"]) >= 2 and e["tree"]["c"] and e["tree"]["c"][0]["c"]:
                res.samples.append({"kind": "random case", "tree": e["tree"], "scripts": e["scripts"], "hm": e["hm"]})
    by_case = {}
    for case, rule in viol:
        by_case.setdefault(case, set()).add(rule)
    evs = _case_events(rtrace, sorted(by_case)[:3000])
    for case, rules in sorted(by_case.items()):
        e = resets[case]
        for rule in sorted(rules):
            found.append((e["tree"], rule,
                          "rule %s broken by the real combinators: tree %s scripts %s (random case %s)"
                          % (rule, json.dumps(e["tree"]), json.dumps(e["scripts"]), case),
                          {"tree": e["tree"], "scripts": e["scripts"], "hm": e["hm"], "rule": rule,
                           "events": evs.get(case, [])}))
    for case, what in drift[:5]:
        res.drift.append({"kind": "implementation fact: " + what, "group": "random", "case": case})
    res.distinct_nontrivial = len(keys)
    flat_bad = {(t["k"], rule) for (t, rule, _, _) in found if _is_flat(t) and rule != FMA_RULE}
    found.sort(key=lambda x: (not _is_flat(x[0]), len(json.dumps(x[3]["scripts"]))))   # smallest flat witnesses first
    for t, rule, what, rep in found:
        res.violation(_fingerprint(t, rule, flat_bad), what, rep)

    # (5) canary: corrupt one yielded item and one size hint of a good trace -> both must be flagged
    evs, cur, done = vlib.read_ndjson(outs[0]["trace"])[:4000], None, {}
    bad_cases = {c for c, _ in outs[0]["viol"]}
    for e in evs:
        if e.get("e") == "reset":
            cur = e["case"]
        elif e.get("e") == "call" and cur not in bad_cases and cur not in done.values():
            if "item" not in done and e["s"] == "R":
                e["i"][0][0] += 1
                done["item"] = cur
            elif "hint" not in done and e["s"] == "R" and e["h"][0] == e["h"][1] and cur != done.get("item"):
                e["h"] = [e["h"][0] + 1, e["h"][1] + 1]
                done["hint"] = cur
    if len(done) < 2:
        raise vlib.ToolError("canary: no suitable events found to corrupt")
    while evs and evs[-1].get("e") != "call":
        evs.pop()
    ctrace = os.path.join(d, "canary_trace.ndjson")
    vlib.write_ndjson(ctrace, evs + [{"e": "eof"}])
    _, cviol, _ = _validate(ctrace, "canary")
    hit = {c for c, _ in cviol}
    if done["item"] not in hit or done["hint"] not in hit:
        raise vlib.ToolError("canary (corrupted item / size hint) was NOT rejected by the trace spec: %s %s" % (done, cviol[:4]))
    res.extra["canary"] = "corrupted item and corrupted size hint flagged: %s" % [v for v in cviol if v[0] in done.values()][:4]
    res.extra["exhaustive"] = True
    res.extra["bounds"] = [{"job": j[0], "group": j[1], "max_items": j[2], "max_pendings": j[3], "values": j[4], "hint_modes": j[5]}
                           for j in jobs]

    res.rule = ("cases = (combinator tree, one script of items/Pending per upstream, hint mode); exhaustive per group within the "
                "bounds listed under coverage.bounds, plus seeded random trees of depth <=3; non-trivial = at least one Pending "
                "in a script and a non-empty reference output; distinct by (tree, scripts, hint mode)")
    res.assumptions = ["scripted upstream doubles answer exactly their script and report truthful size hints",
                       "closures are the fixed vocabulary inc/even/lt2/nz/fm/dup/rep/sdup/afm/afn, identical in PullPipe.tla and hv_pull",
                       "levels of a tree are separated by a forwarding Box adapter (BoxPull); Meta = () throughout",
                       "a pull that is not a FusedPull is not polled after its first Ended",
                       "TLC -coverage is unusable on PullPipeImpl (cost-model blow-up); action coverage is counted from the CASE lines"]
    return {"C11": res}


def replay(pid, path):
    with open(path) as f:
        rep = json.load(f)
    c = rep["case"]
    d = vlib.rundir("pullpipe")
    bindir = vlib.cargo_build("hv_pull", bins=["pull_pipe"])
    casefile = os.path.join(d, "replay_one_case.ndjson")
    vlib.write_ndjson(casefile, [{"tree": c["tree"], "scripts": c["scripts"], "hm": c["hm"], "h0": None, "calls": []}])
    t = os.path.join(d, "replay_one.ndjson")
    p = vlib.run_bin(os.path.join(bindir, "pull_pipe"), ["replay", casefile, t])
    if p.returncode != 0:
        raise vlib.ToolError("pull_pipe replay failed: " + p.stderr[-2000:])
    _, viol, _ = _validate(t, "replay_one")
    print("case re-run against the real combinators; rules broken:", sorted({r for _, r in viol}))
    return 1 if viol else 0
