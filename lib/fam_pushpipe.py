"""C12 -- dfir_pipes push combinators deliver the right items and honour the push protocol.
Jobs: (1) TLC model checks the implementation-shaped model PushPipeImpl (combinator fields and
method bodies transcribed from dfir_pipes/src/push/*.rs, pull/send_push.rs) composed with the
PushPipe monitor, exhaustively for every catalogue shape x small inputs x every placement of
Pending answers in the downstream scripts, and prints every behaviour; (2) every behaviour is
replayed into the REAL combinators over scripted checking doubles; (3) seeded random longer runs
of the real code; (4) a canary case (one delivered item altered); TLC validates all recorded call
sequences of (2)-(4) against the monitor (protocol + delivery against the reference semantics).

The engine (`engine(...)`) is shared with C14 (lib/fam_sinkpipe.py)."""
import json
import os

import vlib

PROPS = ["C12"]
ENGINE = "spec/PushPipe: monitor with denotational reference semantics + implementation-shaped interpreter of the push combinators (TLC exhaustive), replay of all TLC behaviours into the real dfir_pipes code, TLC trace validation of replayed and seeded random runs"
MANIFEST = {
    "C12": {
        "text": "TLC exhaustively checks the implementation-shaped model of 39 pipeline shapes (map, filter, filter_map, inspect, flat_map, flatten, fanout, unzip, demux_var, fold/reduce/sort accumulators, Sort, fold_keyed, reduce_keyed, persist (replay after a first pass), state_push, for_each, vec_push, Sink, SinkCompat, SendPush, filter_map_async, flat_map_stream, flatten_stream, resolve_futures ordered/unordered with and without subgraph waker, eight 2-level compositions) against the C12 monitor for inputs <=2 (3 thorough) x every placement of <=2 Pending answers per downstream poll_ready/poll_finalize script; every behaviour is replayed into the real combinators over scripted checking Push/Sink doubles, plus seeded random longer runs; TLC validates every recorded call sequence: start_send only with an unconsumed Done, nothing after finalize, root Done only after every downstream was finalized after its last item, received sequence = reference output (bag for keyed / unordered), Pending only when a downstream pended.",
        "note": "Closures come from a fixed vocabulary mirrored in TLA+ and Rust; items are small integers; downstream doubles are fused (Done after their script). Inner futures resolve after k driver calls (time-based), futures queues are trusted. Known defects of the unchanged tree are listed in known_findings.d/push.json.",
        "technique": "TLA+ spec model-checked with TLC + conformance (TLC behaviours replayed into the code; code traces validated by TLC)",
        "design_ref": "DESIGN.md §6.7",
    },
}

SD = os.path.join(vlib.SPEC, "PushPipe")

SHAPES = ["map", "filter", "filter_map", "inspect", "flat_map", "flatten", "fold", "reduce", "sort", "sort_state",
          "fold_keyed", "reduce_keyed", "persist_replay", "persist_norep", "persist_empty", "for_each", "vec_push",
          "sink", "sink_compat", "send_push", "map_filter_flat_map", "sort_flat_map", "fold_keyed_map",
          "flat_map_fold", "filter_map_async", "flat_map_stream", "flatten_stream", "rf_ordered", "rf_unordered",
          "rf_ordered_w", "rf_unordered_w", "fanout", "unzip", "state_push", "flat_map_fanout", "fanout_flat_map",
          "unzip_persist", "demux_mixed", "demux_var"]
# shapes whose implementation-shaped model reproduces a documented defect of the code (the model
# check prints the broken rules for them instead of asserting the property)
BADSHAPES = []
# fingerprints name the combinator type, not the catalogue variant
KIND_OF = {"rf_ordered": "resolve_futures", "rf_unordered": "resolve_futures", "rf_ordered_w": "resolve_futures",
           "rf_unordered_w": "resolve_futures", "persist_replay": "persist", "persist_norep": "persist",
           "persist_empty": "persist"}
HARNESS_RULES = ("driver-", "harness-")
RANDOM_BASE = 1000000
CANARY_CASE = 9000001


def _set(xs):
    return "{" + ", ".join('"%s"' % x for x in xs) + "}"


def _cfg(thorough):
    if thorough:
        b = dict(MaxIn1=3, MaxIn2=2, MaxIn3=2, MaxPend1=2, MaxPend2=2, MaxPend3=1,
                 RLen1=3, RLen2=3, RLen3=2, FLen1=2, FLen2=1, FLen3=1, EXTRA="FALSE")
    else:
        b = dict(MaxIn1=2, MaxIn2=2, MaxIn3=1, MaxPend1=2, MaxPend2=1, MaxPend3=1,
                 RLen1=2, RLen2=2, RLen3=2, FLen1=2, FLen2=1, FLen3=1, EXTRA="FALSE")
    return ("SPECIFICATION Spec\nCONSTANTS\n  SHAPES = %s\n  BADSHAPES = %s\n  EMIT = TRUE\n" % (_set(SHAPES), _set(BADSHAPES))
            + "".join("  %s = %s\n" % kv for kv in b.items())
            + "INVARIANTS InvClean InvDriver Progress Emit\nCHECK_DEADLOCK FALSE\n")


def _cfg_extra():
    # spurious extra poll_ready cycles of the driver, small scripts (thorough tier only)
    b = dict(MaxIn1=2, MaxIn2=1, MaxIn3=1, MaxPend1=1, MaxPend2=1, MaxPend3=1,
             RLen1=2, RLen2=2, RLen3=1, FLen1=1, FLen2=1, FLen3=1, EXTRA="TRUE")
    return ("SPECIFICATION Spec\nCONSTANTS\n  SHAPES = %s\n  BADSHAPES = %s\n  EMIT = TRUE\n" % (_set(SHAPES), _set(BADSHAPES))
            + "".join("  %s = %s\n" % kv for kv in b.items())
            + "INVARIANTS InvClean InvDriver Progress Emit\nCHECK_DEADLOCK FALSE\n")


def _write(name, text):
    p = os.path.join(vlib.rundir("cfg"), name)
    with open(p, "w") as f:
        f.write(text)
    return p


def _nontrivial(reset):
    scripts = reset["rs"] + reset.get("fs", []) + reset.get("xs", []) + reset.get("cs", [])
    return len(reset["inputs"]) >= 1 and any(0 in s for s in scripts)


def _key(reset):
    return json.dumps([reset["shape"], reset["raw"], reset["rs"], reset.get("fs"), reset.get("xs"), reset.get("cs"),
                       reset.get("extra"), reset.get("plan")])


def _describe(reset):
    keys = [k for k in ("raw", "rs", "fs", "xs", "cs", "extra", "plan") if k in reset]
    return "shape %s " % reset["shape"] + " ".join("%s %s" % (k, json.dumps(reset[k])) for k in keys)


def engine(pid, spec_dir, impl, tracemod, exe_name, area, shapes, badshapes, cfgs, random_args, tag,
           alter_canary, has_drift=False, kind_of=None):
    """The shared C12 / C14 pipeline.  Returns the PropResult."""
    res = vlib.PropResult(pid)
    bindir = vlib.cargo_build("hv_push", bins=[exe_name])
    exe = os.path.join(bindir, exe_name)
    d = vlib.rundir(tag)

    # (1) exhaustive model check of the implementation-shaped model x monitor; prints every behaviour
    cases = []
    for name, text in cfgs:
        cfg = _write("%s_%s.cfg" % (tag, name), text)
        r = vlib.tlc(spec_dir, impl, cfg=cfg, workers=8, timeout=3300, tag="%s_%s" % (tag, name))
        if not r.ok:
            raise vlib.ToolError("%s model check failed (%s): spec/design error or an undocumented defect "
                                 "reproduced by the model:\n%s" % (impl, name, r.error_trace[-3000:]))
        vlib.require_coverage(r, ["Setup", "DriverCall" if pid == "C12" else "ClientCall"])
        res.add_tlc(r, "%s exhaustive:%s" % (impl, name))
        got = vlib.printed_json(r, "CASE")
        if len(got) < 100:
            raise vlib.ToolError("%s produced only %d behaviours" % (name, len(got)))
        cases += got
    seen_shapes = {c["shape"] for c in cases}
    missing = [s for s in shapes if s not in seen_shapes]
    if missing:
        raise vlib.ToolError("shapes never explored: %s" % missing)
    for s in badshapes:
        if not any(c["broken"] for c in cases if c["shape"] == s):
            raise vlib.ToolError("shape %s is listed as a documented model defect but its model breaks no rule "
                                 "(stale BADSHAPES entry)" % s)

    # (2) spec -> code: every behaviour replayed into the real code
    casefile = os.path.join(d, "cases.ndjson")
    vlib.write_ndjson(casefile, cases)
    trace = os.path.join(d, "replay_trace.ndjson")
    p = vlib.run_bin(exe, ["replay", casefile, trace])
    if p.returncode != 0:
        raise vlib.ToolError("%s replay failed (rc %s): %s" % (exe_name, p.returncode, p.stderr[-2000:]))
    summ = json.loads(p.stdout.strip().splitlines()[-1])
    if summ["cases"] != len(cases):
        raise vlib.ToolError("replay ran %d cases, expected %d" % (summ["cases"], len(cases)))
    for dr in summ["drift"][:10]:
        res.drift.append({"kind": "call-by-call sequence differs from " + impl, **dr})
    res.extra["replay_call_sequence_mismatches"] = summ["ndrift"]

    # (3) code -> spec: seeded random longer runs of the real code
    rtrace = os.path.join(d, "random_trace.ndjson")
    p = vlib.run_bin(exe, ["random"] + list(random_args) + [rtrace])
    if p.returncode != 0:
        raise vlib.ToolError("%s random failed: %s" % (exe_name, p.stderr[-2000:]))
    rsumm = json.loads(p.stdout.strip().splitlines()[-1])

    # one trace: replayed cases (ids 1..), random cases (RANDOM_BASE + i), canary case
    evs = [e for e in vlib.read_ndjson(trace) if e.get("e") != "eof"]
    for e in vlib.read_ndjson(rtrace):
        if e.get("e") == "eof":
            continue
        if e.get("e") == "reset":
            e["case"] += RANDOM_BASE
        evs.append(e)
    # (4) canary: a copy of a good replayed case with one delivered item altered
    groups, cur = {}, None
    for e in evs:
        if e.get("e") == "reset":
            cur = e["case"]
            groups[cur] = [e]
        elif cur is not None:
            groups[cur].append(e)
    canary = None
    for cid in sorted(groups):
        if cid < RANDOM_BASE and not cases[cid - 1]["broken"]:
            cand = json.loads(json.dumps(groups[cid]))
            if alter_canary(cand):
                canary = cand
                break
    if not canary:
        raise vlib.ToolError("no delivered item found for the canary")
    canary[0]["case"] = CANARY_CASE
    all_trace = os.path.join(d, "all_trace.ndjson")
    vlib.write_ndjson(all_trace, evs + canary + [{"e": "eof"}])

    ok, r = vlib.validate_trace(spec_dir, tracemod, all_trace, tag=tag + "_tv", timeout=3300)
    if not ok:
        raise vlib.ToolError("trace not consumed by %s:\n%s" % (tracemod, r.error_trace[-2000:]))
    res.add_tlc(r, "trace-validation: replayed + random + canary")
    viol = vlib.printed_json(r, "VIOL")
    by_case = {}
    for case, rule in (viol[0] if viol else []):
        by_case.setdefault(case, set()).add(rule)
    drift_by_case = {}
    if has_drift:
        dr = vlib.printed_json(r, "DRIFT")
        for case, rule in (dr[0] if dr else []):
            drift_by_case.setdefault(case, set()).add(rule)
    for case, rules in by_case.items():
        hr = [x for x in rules if x.startswith(HARNESS_RULES)]
        if hr:
            raise vlib.ToolError("harness inconsistency in case %s: %s" % (case, hr))
    if not by_case.get(CANARY_CASE):
        raise vlib.ToolError("canary (one delivered item altered) was NOT flagged by the trace spec")
    res.extra["canary"] = "altered delivered item flagged: %s" % sorted(by_case.pop(CANARY_CASE))

    tcases = {cid: (g[0], g[1:]) for cid, g in groups.items()}
    nrep = sum(1 for c in tcases if c < RANDOM_BASE)
    if nrep != len(cases):
        raise vlib.ToolError("replay trace has %d cases, expected %d" % (nrep, len(cases)))
    res.traces += nrep + rsumm["cases"]
    res.evaluations += nrep + rsumm["cases"]

    # property-level rule breaks of the real code -> violations
    for case in sorted(by_case):
        reset, calls = tcases[case]
        what = "replayed TLC behaviour" if case < RANDOM_BASE else "random run"
        for rule in sorted(by_case[case]):
            res.violation("%s/%s/%s" % (area, (kind_of or {}).get(reset["shape"], reset["shape"]), rule),
                          "%s: rule %s broken by the real code, %s" % (what, rule, _describe(reset)),
                          {"reset": reset, "calls": calls})
    # model / code disagreement about which rules break -> drift
    for i, c in enumerate(cases):
        want, got = set(c["broken"]), by_case.get(i + 1, set())
        if want != got and len(res.drift) < 20:
            res.drift.append({"kind": "rules broken: model %s vs real code %s" % (sorted(want), sorted(got)),
                              "case": _describe(tcases[i + 1][0])})
    for case, facts in sorted(drift_by_case.items())[:10]:
        res.drift.append({"kind": "implementation fact not upheld: %s" % sorted(facts), "case": _describe(tcases[case][0])})

    keys = {_key(rs) for rs, _ in tcases.values() if _nontrivial(rs)}
    res.distinct_nontrivial = len(keys)
    mid = cases[len(cases) // 2]
    res.samples.append({"kind": "replayed TLC behaviour", "shape": mid["shape"], "raw": mid["raw"], "rs": mid["rs"],
                        "calls": mid["evs"][:12]})
    for case, (rs, calls) in tcases.items():
        if case > RANDOM_BASE and _nontrivial(rs) and len(rs["rs"]) >= 2:
            res.samples.append({"kind": "random run", "case": _describe(rs), "calls": [c.get("evs") for c in calls[:4]]})
            break
    return res


def _alter(canary):
    for e in canary:
        if e.get("e") == "call":
            for x in e["evs"]:
                if x[0] > 0 and x[1] == "s":
                    x[2] += 1
                    return True
    return False


def run(tier):
    thorough = tier == "thorough"
    cfgs = [("mc", _cfg(thorough))] + ([("mc_extra", _cfg_extra())] if thorough else [])
    rnd = [12000, 8, 8] if thorough else [1200, 6, 6]
    res = engine("C12", SD, "PushPipeImpl", "PushPipeTrace", "push_pipe", "push", SHAPES, BADSHAPES, cfgs, rnd,
                 "pushpipe", _alter, kind_of=KIND_OF)
    res.rule = ("cases = (shape, inputs, poll_ready scripts, poll_finalize scripts, spurious driver polls); "
                "non-trivial = at least one input and at least one Pending in some script; distinct by that tuple")
    res.assumptions = ["downstream doubles are fused: Done after their script, Done forever once finalized",
                       "the driver is a legal client (poll_ready until Done before every start_send, poll_finalize until Done, all inputs sent before finalize)",
                       "closures from the fixed vocabulary of spec/PushPipe/PushPipe.tla (mirrored in harness/hv_push/src/lib.rs)",
                       "inner futures resolve after k driver calls; FuturesOrdered/FuturesUnordered are trusted",
                       "key order of fold_keyed/reduce_keyed and completion order of unordered resolve_futures are compared as bags"]
    return {"C12": res}


def replay_one(pid, path, spec_dir, tracemod, exe_name, tag):
    with open(path) as f:
        rep = json.load(f)
    d = vlib.rundir(tag)
    reset = rep["case"]["reset"]
    bindir = vlib.cargo_build("hv_push", bins=[exe_name])
    exe = os.path.join(bindir, exe_name)
    casefile = os.path.join(d, "replay_one_case.ndjson")
    case = {k: v for k, v in reset.items() if k not in ("e", "case", "inputs")}
    case["evs"] = []
    if "src" in case and case["shape"].startswith("lss"):
        case["src"] = [71, -1, 72]
    vlib.write_ndjson(casefile, [case])
    t = os.path.join(d, "replay_one.ndjson")
    p = vlib.run_bin(exe, ["replay", casefile, t])
    if p.returncode != 0:
        print("harness failed:", p.stderr[-1000:])
        return 2
    ok, r = vlib.validate_trace(spec_dir, tracemod, t, tag=tag + "_one")
    for e in vlib.read_ndjson(t):
        print(json.dumps(e))
    viol = vlib.printed_json(r, "VIOL")
    rules = sorted({rule for _c, rule in (viol[0] if viol else [])})
    print("case re-run against the real code; rules broken:", rules)
    return 1 if rules else 0


def replay(pid, path):
    return replay_one(pid, path, SD, "PushPipeTrace", "push_pipe", "pushpipe")
