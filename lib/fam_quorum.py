"""C39 -- quorum collection (hydro_std::quorum) and the request/response joiner
(hydro_std::request_response).
Jobs: (1) TLC exhaustive on QuorumImpl: the slice state machine of collect_quorum /
collect_quorum_with_response (transcribed from the sliced! body) x the C39 monitor, for EVERY
response sequence in the bounds and EVERY batching; (2) TLC (QuorumGen) generates every small
case with the reference result; the harness runs each case on the REAL helpers in the Hydro
simulator under exhaustive schedules, one recorded trace case per explored schedule; TLC
validates all of them against the monitor and infers a batching that explains the released
responses (QuorumTrace); (3) seeded random larger cases, same validation; (4) the same three
steps for join_responses (JoinResp*); (5) canaries: corrupted recorded traces must be flagged."""
import json
import os
import re

import vlib

PROPS = ["C39"]
ENGINE = "spec/Quorum: C39 monitor + slice state machine of the quorum helpers (TLC exhaustive over all response sequences x all batchings), TLC-generated cases run on the real helpers under simulator-exhaustive schedules, trace validation with batching inference by TLC; same for join_responses"
MANIFEST = {
    "C39": {
        "text": "TLC exhaustively checks the transcribed sliced! state machine of collect_quorum / collect_quorum_with_response (not_all, min_but_not_max, per-batch ok/err counts) against the C39 monitor for every response sequence (<=3 keys, min<=max<=3, <=7 responses thorough; <=2 keys, <=5 quick) and every batching: each key reported exactly once, exactly in the slice where its min-th success arrives, errors passed through. Every TLC-generated small case and seeded random larger ones run on the real helpers in the Hydro simulator under exhaustive schedules; TLC validates each explored schedule against the monitor and infers the batching. join_responses: same scheme (each response joined with its request's metadata exactly once, metadata persists).",
        "note": "Helpers' contract assumed: at most max responses per key; join_responses: one response and one metadata per key, metadata acknowledged before the response is sent. Simulator (not production codegen) executes the helpers. For _with_response with min<max the NUMBER of released responses (>= min) depends on batching -- allowed by the property as stated, recorded in the evidence.",
        "technique": "TLA+ spec model-checked with TLC + conformance (TLC cases replayed into the code under exhaustive simulator schedules; code traces validated by TLC)",
        "design_ref": "DESIGN.md §6.16",
    },
}

SD = os.path.join(vlib.SPEC, "Quorum")
CRATE = os.path.join(vlib.ROOT, "harness_hydro", "hv_std")
ACTIONS = ["Send", "Batch", "Quiesce"]


def _cfg(name, text):
    p = os.path.join(vlib.rundir("cfg"), name)
    with open(p, "w") as f:
        f.write(text)
    return p


def _bounds_cfg(name, keys, length, mx, extra):
    return _cfg(name, "SPECIFICATION Spec\nCONSTANTS\n  MaxKeys = %d\n  MaxLen = %d\n  MaxMax = %d\n"
                      "  Helpers = {\"cq\", \"cqr\"}\n%sCHECK_DEADLOCK FALSE\n" % (keys, length, mx, extra))


def _build(binname):
    """cargo build; the workspace is shared with other families, whose half-written crates can
    break a build transiently -- retry before giving up."""
    import time
    for attempt in range(3):
        try:
            return vlib.cargo_build("hv_std", bins=[binname], features=["runner"], workspace="harness_hydro")
        except vlib.ToolError:
            if attempt == 2:
                raise
            time.sleep(20)


def _run_harness(exe, args):
    # the simulator compiles a trybuild dylib: it needs the crate's manifest dir and cwd
    p = vlib.run_bin(exe, args, cwd=CRATE, env={"CARGO_MANIFEST_DIR": CRATE}, timeout=3000)
    if p.returncode != 0:
        raise vlib.ToolError("%s %s failed: %s" % (os.path.basename(exe), args[0], p.stderr[-3000:]))
    return json.loads(p.stdout.strip().splitlines()[-1])


def _validate(module, trace, res, what):
    ok, r = vlib.validate_trace(SD, module, trace, tag="%s_%s" % (module, what), timeout=1500)
    if not ok:
        raise vlib.ToolError("trace not consumed by %s (%s):\n%s" % (module, what, r.error_trace[-2000:]))
    viol = vlib.printed_json(r, "VIOL")
    expl = set()
    for line in r.printed:
        mm = re.match(r'^<<"EXPL", (\d+)>>$', line)
        if mm:
            expl.add(int(mm.group(1)))
    if res is not None:
        res.add_tlc(r, "trace-validation:" + what)
    return (viol[0] if viol else []), expl


def _cases_of(trace):
    """case id -> list of events"""
    out, cur = {}, None
    for e in vlib.read_ndjson(trace):
        if e.get("e") == "reset":
            cur = e["case"]
            out[cur] = []
        if cur is not None and e.get("e") != "eof":
            out[cur].append(e)
    return out


def _report(res, area, trace, viol, expl, what):
    cases = _cases_of(trace)
    pre = [v for v in viol if str(v[1]).startswith("PRE-")]
    if pre:
        raise vlib.ToolError("harness broke a precondition of the helpers (%s): %s" % (what, pre[:3]))
    for case, rule in viol:
        evs = cases.get(case, [])
        h = evs[0].get("h", area) if evs else area
        res.violation("%s/%s/%s" % (area, h, rule),
                      "rule %s broken in %s case %s (schedule %s of input %s)"
                      % (rule, what, case, evs[0].get("sched") if evs else "?",
                         json.dumps(evs[0].get("inp")) if evs else "?"),
                      {"module": "QuorumTrace" if area == "quorum" else "JoinRespTrace", "events": evs})
    want = [c for c, evs in cases.items() if evs and evs[0].get("x") == 1
            and all(e.get("e") != "panic" for e in evs)]
    unexpl = [c for c in want if c not in expl]
    for c in unexpl[:10]:
        res.drift.append({"kind": "released outputs not reproduced by the slice model under any batching",
                          "what": what, "events": cases[c]})
    return cases, len(want), len(unexpl)


def _head(evs, ncases):
    """the first ncases whole cases of a trace, plus eof"""
    out, n = [], 0
    for e in evs:
        if e.get("e") == "reset":
            n += 1
            if n > ncases:
                break
        if e.get("e") != "eof":
            out.append(json.loads(json.dumps(e)))       # deep copy
    return out + [{"e": "eof"}]


def _canaries(res, area, module, trace, muts):
    """Each (mutate, label) corrupts its own copy of a short prefix of a good recorded trace;
    the copies are concatenated (case ids offset by 100000 * i) and validated in ONE TLC run;
    every copy must be flagged, else the binding is vacuous (ToolError)."""
    full = vlib.read_ndjson(trace)
    allevs = []
    for i, (mutate, label) in enumerate(muts):
        for n in (80, 600, 4000, 10 ** 9):          # shortest prefix of whole cases that can be corrupted
            evs = _head(full, n)
            if mutate(evs):
                break
        else:
            raise vlib.ToolError("canary %s: no place to corrupt in %s" % (label, trace))
        for e in evs:
            if e.get("e") == "reset":
                e["case"] += 100000 * (i + 1)
        allevs += [e for e in evs if e.get("e") != "eof"]
    ctrace = trace.replace(".ndjson", "_canaries.ndjson")
    vlib.write_ndjson(ctrace, allevs + [{"e": "eof"}])
    cviol, _ = _validate(module, ctrace, None, "canary")
    for i, (_, label) in enumerate(muts):
        hit = sorted({v[1] for v in cviol if v[0] // 100000 == i + 1})
        if not hit:
            raise vlib.ToolError("canary (%s) was NOT rejected by %s" % (label, module))
        res.extra.setdefault("canaries", []).append("%s: %s -> %s" % (area, label, hit[:3]))


def _dup_out(evs):
    for i, e in enumerate(evs):
        if e.get("e") == "out":
            evs.insert(i + 1, dict(e))
            return True
    return False


def _drop_out(evs):
    for i, e in enumerate(evs):
        if e.get("e") == "out":
            del evs[i]
            return True
    return False


def _early_out(evs):
    # move the first output of a cq case in front of the last send before it
    for i, e in enumerate(evs):
        if e.get("e") == "out" and i >= 2:
            j = i
            while j > 0 and evs[j - 1].get("e") != "send":
                j -= 1
            if j > 0 and evs[j - 1].get("e") == "send" and evs[j - 1]["k"] == e["k"] and evs[j - 1]["ok"] == 1:
                evs.insert(j - 1, evs.pop(i))
                return True
    return False


def _drop_err(evs):
    for i, e in enumerate(evs):
        if e.get("e") == "err":
            del evs[i]
            return True
    return False


def _quorum(res, tier, bindir):
    thorough = tier == "thorough"
    exe = os.path.join(bindir, "hv_quorum")
    d = vlib.rundir("quorum")

    # (1) design: the slice state machine against the monitor, all sequences x all batchings
    keys, length = (3, 7) if thorough else (2, 5)
    cfg = _bounds_cfg("quorum_mc.cfg", keys, length, 3, "INVARIANTS Inv ExactlyWhen ErrorsAtOnce ImplInv\n")
    r = vlib.tlc(SD, "QuorumImpl", cfg=cfg, workers=8, timeout=3000, xmx="8g")
    if not r.ok:
        raise vlib.ToolError("QuorumImpl model check failed (spec/design error):\n" + r.error_trace[-3000:])
    vlib.require_coverage(r, ACTIONS)
    res.add_tlc(r, "QuorumImpl exhaustive (<=%d keys, <=%d responses, min<=max<=3, all batchings)" % (keys, length))

    # (2) spec -> code: every small case, every schedule of the simulator
    gk, gl = (3, 4) if thorough else (2, 3)
    cfg = _bounds_cfg("quorum_gen.cfg", gk, gl, 3, "")
    r = vlib.tlc(SD, "QuorumGen", cfg=cfg, workers=1, timeout=1200, coverage=False)
    if not r.ok:
        raise vlib.ToolError("QuorumGen failed:\n" + r.error_trace[-3000:])
    cases = vlib.printed_json(r, "CASE")
    if len(cases) < 200:
        raise vlib.ToolError("QuorumGen produced only %d cases" % len(cases))
    cases.sort(key=lambda c: json.dumps(c, sort_keys=True))
    casefile = os.path.join(d, "cases.ndjson")
    vlib.write_ndjson(casefile, cases)
    trace = os.path.join(d, "replay_trace.ndjson")
    summ = _run_harness(exe, ["replay", casefile, trace])
    if summ["schedules"] < len(cases):
        raise vlib.ToolError("fewer schedules (%d) than cases (%d)" % (summ["schedules"], len(cases)))
    viol, expl = _validate("QuorumTrace", trace, res, "replay")
    _, want, unexpl = _report(res, "quorum", trace, viol, expl, "replayed")
    res.traces += summ["schedules"]
    res.evaluations += summ["schedules"]
    res.extra["quorum_replay"] = {"cases": len(cases), "schedules": summ["schedules"],
                                  "explained_by_model": want - unexpl, "unexplained": unexpl}
    nontrivial = {json.dumps([c["h"], c["min"], c["max"], c["inp"]]) for c in cases
                  if any(c["exp"][-1]) and len({x[0] for x in c["inp"]}) >= 2}
    res.distinct_nontrivial += len(nontrivial)
    res.samples.append({"kind": "TLC-generated case (inp = [key, ok]; exp = keys reported after each stage)",
                        **cases[len(cases) // 2]})

    # (3) code -> spec: seeded random larger cases
    count, maxlen, maxkeys = (400, 7, 3) if thorough else (60, 6, 3)
    rtrace = os.path.join(d, "random_trace.ndjson")
    summ = _run_harness(exe, ["random", count, maxlen, maxkeys, rtrace])
    viol, expl = _validate("QuorumTrace", rtrace, res, "random")
    rcases, want, unexpl = _report(res, "quorum", rtrace, viol, expl, "random")
    res.traces += summ["schedules"]
    res.evaluations += summ["schedules"]
    res.extra["quorum_random"] = {"cases": summ["cases"], "schedules": summ["schedules"],
                                  "explained_by_model": want - unexpl, "unexplained": unexpl}
    seen = set()
    sizes = {}
    for c, evs in rcases.items():
        h = evs[0]
        outs = [e for e in evs if e["e"] == "out"]
        if outs and len({x[0] for x in h["inp"]}) >= 2:
            seen.add(json.dumps([h["h"], h["min"], h["max"], h["inp"]]))
        if h["h"] == "cqr":
            key = json.dumps([h["min"], h["max"], h["inp"]])
            sizes.setdefault(key, set()).add(len(outs))
    res.distinct_nontrivial += len(seen)
    varying = [k for k, v in sizes.items() if len(v) > 1]
    res.extra["cqr_release_size_depends_on_batching"] = {
        "inputs_with_varying_number_of_released_responses": len(varying),
        "example": json.loads(varying[0]) if varying else None}
    for c, evs in rcases.items():
        if len(evs[0]["inp"]) >= 5 and len(res.samples) < 3:
            res.samples.append({"kind": "random case, one explored schedule", "events": evs})

    # (5) canaries
    _canaries(res, "quorum", "QuorumTrace", trace,
              [(_dup_out, "duplicated output"), (_drop_out, "dropped output"), (_drop_err, "dropped error"),
               (_early_out, "output moved before the response that completes the quorum")])


def _dup_join(evs):
    for i, e in enumerate(evs):
        if e.get("e") == "join":
            evs.insert(i + 1, dict(e))
            return True
    return False


def _drop_join(evs):
    for i, e in enumerate(evs):
        if e.get("e") == "join":
            del evs[i]
            return True
    return False


def _wrong_meta(evs):
    for e in evs:
        if e.get("e") == "join":
            e["m"] += 1
            return True
    return False


def _join(res, tier, bindir):
    """join_responses: same scheme with the JoinResp* modules."""
    thorough = tier == "thorough"
    exe = os.path.join(bindir, "hv_quorum")
    d = vlib.rundir("quorum")

    cfg = _cfg("join_mc.cfg", "SPECIFICATION Spec\nCONSTANTS\n  MaxKeys = %d\nINVARIANTS Inv Persist\n"
                              "CHECK_DEADLOCK FALSE\n" % (4 if thorough else 3))
    r = vlib.tlc(SD, "JoinRespImpl", cfg=cfg, workers=8, timeout=3000, xmx="8g")
    if not r.ok:
        raise vlib.ToolError("JoinRespImpl model check failed (spec/design error):\n" + r.error_trace[-3000:])
    vlib.require_coverage(r, ["SendMeta", "SendResp", "Slice", "Quiesce"])
    res.add_tlc(r, "JoinRespImpl exhaustive (<=%d keys, all interleavings respecting the contract, all batchings)"
                % (4 if thorough else 3))

    cfg = _cfg("join_gen.cfg", "SPECIFICATION Spec\nCONSTANTS\n  MaxKeys = %d\n  Stages = %d\nCHECK_DEADLOCK FALSE\n"
               % ((3, 3) if thorough else (3, 2)))
    r = vlib.tlc(SD, "JoinRespGen", cfg=cfg, workers=1, timeout=1200, coverage=False)
    if not r.ok:
        raise vlib.ToolError("JoinRespGen failed:\n" + r.error_trace[-3000:])
    cases = vlib.printed_json(r, "CASE")
    if len(cases) < 100:
        raise vlib.ToolError("JoinRespGen produced only %d cases" % len(cases))
    cases.sort(key=lambda c: json.dumps(c, sort_keys=True))
    casefile = os.path.join(d, "join_cases.ndjson")
    vlib.write_ndjson(casefile, cases)
    trace = os.path.join(d, "join_replay_trace.ndjson")
    summ = _run_harness(exe, ["join-replay", casefile, trace])
    if summ["schedules"] < len(cases):
        raise vlib.ToolError("fewer schedules (%d) than cases (%d)" % (summ["schedules"], len(cases)))
    viol, _ = _validate("JoinRespTrace", trace, res, "join-replay")
    _report(res, "join", trace, viol, set(), "replayed")
    res.traces += summ["schedules"]
    res.evaluations += summ["schedules"]
    res.extra["join_replay"] = {"cases": len(cases), "schedules": summ["schedules"]}
    res.distinct_nontrivial += len({json.dumps(c["stages"]) for c in cases if len(c["exp"][-1]) >= 2})
    res.samples.append({"kind": "TLC-generated join_responses case (ops [0,k] = metadata, [1,k] = response; exp = keys joined after each stage)",
                        **cases[len(cases) // 2]})

    rtrace = os.path.join(d, "join_random_trace.ndjson")
    summ = _run_harness(exe, ["join-random", 150 if thorough else 30, 4, 3, rtrace])
    viol, _ = _validate("JoinRespTrace", rtrace, res, "join-random")
    rcases, _, _ = _report(res, "join", rtrace, viol, set(), "random")
    res.traces += summ["schedules"]
    res.evaluations += summ["schedules"]
    res.extra["join_random"] = {"cases": summ["cases"], "schedules": summ["schedules"]}
    res.distinct_nontrivial += len({json.dumps(evs[0]["inp"]) for evs in rcases.values()
                                    if len([e for e in evs if e["e"] == "join"]) >= 2})

    _canaries(res, "join", "JoinRespTrace", trace,
              [(_dup_join, "duplicated join output"), (_drop_join, "dropped join output"),
               (_wrong_meta, "joined with other metadata")])


def run(tier):
    res = vlib.PropResult("C39")
    bindir = _build("hv_quorum")
    _quorum(res, tier, bindir)
    _join(res, tier, bindir)
    res.rule = ("case = (helper, min, max, response sequence, stage split) x one explored simulator schedule; "
                "non-trivial = at least 2 keys and at least one key reaches its quorum; distinct by "
                "(helper, min, max, sequence)")
    res.assumptions = [
        "helpers' contract: at most max responses per key (the generator and the random driver respect it; a PRE- rule in the monitor turns a breach into a tool error)",
        "the helpers run in the Hydro simulator (flow.sim().compiled().exhaustive), not in production codegen; simulator exhaustive = every batching of a stage's responses (TotalOrder input: every split into consecutive batches)",
        "NoOrder inputs are covered by enumerating all sequences (orders) with prefix batches",
        "quiescence of the simulator (sim::quiesce) = every sent response has been released into a slice",
        "collect_quorum_with_response, min<max: how many responses beyond min are released depends on batching; C39 as stated constrains keys and 'once', not that number",
        "join_responses contract: one metadata and one response per key; a response is sent only after the acknowledgement of its metadata was observed (or its key never gets metadata)",
    ]
    return {"C39": res}


def replay(pid, path):
    with open(path) as f:
        rep = json.load(f)
    d = vlib.rundir("quorum")
    t = os.path.join(d, "replay_one.ndjson")
    vlib.write_ndjson(t, rep["case"]["events"] + [{"e": "eof"}])
    viol, _ = _validate(rep["case"].get("module", "QuorumTrace"), t, None, "replay_one")
    print("recorded events re-validated; rules broken:", viol)
    return 1 if viol else 0
