"""C42 -- code generation is deterministic (DFIR half).
Determinism.tla is a memoised-equality monitor over pairs of runs: Compile(input, output) is accepted
only if it equals the output memoised for that input.  Jobs: (1) TLC model-checks the monitor against a
toy functional / stateful compiler (the stateful one must be flagged); (2) every DFIR input is compiled
twice inside one process and in 3 separate processes of the real compiler (std RandomState seeds differ
per process and per map, heap ballast differs); the outputs compared are the partitioned-graph JSON and
the token-stream text of as_code (content hashes over the complete strings); TLC validates the recorded
runs against the monitor; (3) canary: one altered hash must be flagged.

Structure: one function per source of inputs (`dfir_runs`); the Hydro-level half adds another
function returning rows of the same shape (lib/detc_hydro.py, called from _hydro_half)."""
import json
import os

import vlib
import fam_partition

PROPS = ["C42"]
ENGINE = "spec/Determinism: memoised-equality monitor over pairs of runs; every DFIR program compiled twice in-process and in 3 separate processes of the real dfir_lang compiler, partitioned-graph JSON and generated code text compared by TLC"
MANIFEST = {
    "C42": {
        "text": "DFIR half: every program of the Partition corpus (repo programs, all TLC-enumerated tiny programs, seeded random programs with loops/references/cycles) is compiled by the real FlatGraphBuilder -> partition_graph -> as_code twice in one process and once or twice in each of 3 further processes (different RandomState seeds, heap layout); TLC validates with Determinism.tla that stage, verdict, the serialized partitioned graph and the generated code text are a function of the input.",
        "note": "DFIR half only (Hydro-level inputs are added by extending fam_determinism.py). Outputs are compared through 128-bit content hashes of the complete strings. The generated code is rendered outside rustc (proc-macro2 fallback spans), so span-derived identifiers use line/column of the parsed source text.",
        "technique": "TLA+ monitor model-checked with TLC + trace validation of recorded runs of the real compiler",
        "design_ref": "DESIGN.md §6.18",
    },
}

SD = os.path.join(vlib.SPEC, "Determinism")
PROCS = 4          # process 1 compiles every input twice, processes 2..4 are the 3 separate processes


def dfir_runs(tier, d):
    """Source of inputs #1: DFIR programs through the real dfir_lang compiler.
    Returns (rows, src_of, counts); rows = compile events {"e":"compile","input","proc","run","stage","verdict","graph","code",..}."""
    bindir = vlib.cargo_build("hv_graph", bins=["graphc"])
    exe = os.path.join(bindir, "graphc")
    progs, counts, _tl = fam_partition.all_programs(exe, d, tier)
    pf = os.path.join(d, "progs.ndjson")
    vlib.write_ndjson(pf, [{"id": i, "src": s} for i, s in progs])
    rows = []
    for proc in range(1, PROCS + 1):
        out = os.path.join(d, "compile_p%d.ndjson" % proc)
        p = vlib.run_bin(exe, ["compile", pf, out, proc, 2 if proc <= 2 else 1], timeout=3000,
                         env={"VERIF_PROC": proc, "VERIF_BALLAST_%d" % proc: "x" * (proc * 257)})
        if p.returncode != 0:
            raise vlib.ToolError("graphc compile (process %d) failed: %s" % (proc, p.stderr[-2000:]))
        rows += vlib.read_ndjson(out)
    return rows, dict(progs), counts


def _validate(rows, d, what, res):
    t = os.path.join(d, what + ".ndjson")
    vlib.write_ndjson(t, rows + [{"e": "eof"}])
    ok, r = vlib.validate_trace(SD, "DeterminismTrace", t, tag="det_" + what, timeout=2400, xmx="6g")
    if not ok:
        raise vlib.ToolError("runs not consumed by DeterminismTrace (%s):\n%s" % (what, r.error_trace[-2000:]))
    v = vlib.printed_json(r, "VIOL")
    if not v:
        raise vlib.ToolError("DeterminismTrace printed no VIOL line (%s)" % what)
    res.add_tlc(r, "trace-validation:" + what)
    return v[0]


def run(tier):
    res = vlib.PropResult("C42")
    d = vlib.rundir("determinism")

    # (1) design: the monitor accepts a functional compiler and flags a stateful one
    r = vlib.tlc(SD, "DeterminismImpl", cfg="DeterminismImpl.cfg", workers=2, timeout=600)
    if not r.ok:
        raise vlib.ToolError("DeterminismImpl model check failed:\n" + r.error_trace[-2000:])
    vlib.require_coverage(r, ["Compile"])
    res.add_tlc(r, "DeterminismImpl (functional compiler accepted)")
    r = vlib.tlc(SD, "DeterminismImpl", cfg="DeterminismNeg.cfg", workers=1, timeout=600, coverage=False)
    if r.ok or r.invariant != "StatefulNeverFlagged":
        raise vlib.ToolError("the monitor does not flag a stateful compiler (vacuous monitor)")
    res.add_tlc(r, "DeterminismImpl (stateful compiler flagged)")

    # (2) recorded runs of the real compiler
    rows, src_of, counts = dfir_runs(tier, d)
    # inputs that did not get past the flat graph builder carry no graph; keep them out of the trace
    # except for a sample (their outcome must be deterministic too)
    keep = [x for x in rows if x["stage"] not in ("parse-error", "build-error")]
    early = [x for x in rows if x["stage"] in ("parse-error", "build-error")]
    early_ids = sorted({x["input"] for x in early})[::10]
    keep += [x for x in early if x["input"] in set(early_ids)]
    inputs = {x["input"] for x in keep}
    per_input = {}
    for x in keep:
        per_input.setdefault(x["input"], []).append(x)
    if len(inputs) < 500 or any(len(v) != 6 for v in per_input.values()):
        raise vlib.ToolError("harness inconsistency: %d inputs, runs per input %s" %
                             (len(inputs), sorted({len(v) for v in per_input.values()})))
    with_code = [i for i, v in per_input.items() if v[0]["code"]]
    viol = _validate(keep, d, "runs", res)
    if len(with_code) < 300 and not viol:
        raise vlib.ToolError("vacuous run: only %d inputs produced code" % len(with_code))
    res.traces = len(keep)
    res.evaluations = len(keep)
    res.distinct_nontrivial = len({src_of[i] for i in with_code})
    res.rule = ("inputs = distinct DFIR sources; each compiled 6 times (2 in process 1, 2 in process 2, 1 each in processes 3 and 4); "
                "non-trivial = inputs for which partitioning and code generation succeed (graph JSON and code text compared)")
    res.extra["program_sources"] = counts
    res.extra["inputs_in_trace"] = len(inputs)
    res.extra["inputs_with_code"] = len(with_code)
    big = sorted(with_code, key=lambda i: -per_input[i][0]["clen"])[:2]
    for i in big:
        res.samples.append({"kind": "input with its 6 recorded runs", "id": i, "source": src_of[i][:1500],
                            "runs": [{k: x[k] for k in ("proc", "run", "graph", "code", "glen", "clen")} for x in per_input[i]]})
    for i, kind in sorted(viol):
        res.violation("determinism/dfir/%s" % kind, "%s for input %s" % (kind, i),
                      {"id": i, "src": src_of.get(i, ""), "runs": per_input.get(i, [])})

    # (3) canary: one altered hash must be flagged
    if not with_code:
        _hydro_half(tier, res)
        return {"C42": res}
    can = [dict(x) for x in per_input[with_code[0]]]
    can[-1]["code"] = "0" * 32
    tmp = vlib.PropResult("C42")
    cviol = _validate(can, d, "canary", tmp)
    if [list(x) for x in cviol] != [[with_code[0], "generated-code-differs"]]:
        raise vlib.ToolError("canary (altered code hash) not flagged: %s" % cviol)
    res.extra["canary"] = "altered code hash of one run flagged: %s" % cviol

    res.assumptions = ["content hashes (2 x 64-bit FNV-1a lanes over the complete string) stand for the strings",
                       "code text is rendered outside rustc (proc-macro2 fallback spans: line/column of the parsed text)"]
    _hydro_half(tier, res)
    return {"C42": res}


def _hydro_half(tier, res):
    """Source of inputs #2: Hydro flows (lib/detc_hydro.py, owned by the Hydro-program family)."""
    try:
        import detc_hydro
    except ImportError:
        res.assumptions.append("DFIR half only: lib/detc_hydro.py not present, Hydro flows are not compiled here")
        return
    detc_hydro.run_hydro_determinism(tier, res)


def replay(pid, path):
    with open(path) as f:
        rep = json.load(f)
    if rep["case"].get("hydro"):
        import detc_hydro
        return detc_hydro.replay_hydro(rep["case"])
    d = vlib.rundir("determinism")
    bindir = vlib.cargo_build("hv_graph", bins=["graphc"])
    exe = os.path.join(bindir, "graphc")
    pf = os.path.join(d, "replay_prog.ndjson")
    vlib.write_ndjson(pf, [{"id": rep["case"]["id"], "src": rep["case"]["src"]}])
    rows = []
    for proc in range(1, PROCS + 1):
        out = os.path.join(d, "replay_p%d.ndjson" % proc)
        p = vlib.run_bin(exe, ["compile", pf, out, proc, 2])
        if p.returncode != 0:
            raise vlib.ToolError("graphc compile failed: " + p.stderr[-2000:])
        rows += vlib.read_ndjson(out)
    tmp = vlib.PropResult(pid)
    viol = _validate(rows, d, "replay_one", tmp)
    print("input recompiled 8 times; non-deterministic components:", viol)
    return 1 if viol else 0
