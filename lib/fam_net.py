"""C35 -- messages survive serialization and reach the addressed member with the sender's id;
member ids round-trip through their untyped form.
Jobs: (1) TLC exhaustive on NetImpl (channel-table model of the network paths x the Net
monitor, every send sequence and delivery order); (2) TLC (NetGen) generates every routing
script; the harness plays each with seeded random nested payloads through the real paths
(simulator cluster networking with the generated (de)serialization closures: o2m demux, m2o
send, m2m demux, broadcast_closed from the process and from a cluster, on equal and unequal
cluster sizes; the real sinktools::demux_map fed like the production
sender; MemberId round trips), logging JSON at sender and receiver; TLC validates the trace
against the monitor -- payload EQUALITY inside TLC decides fidelity; (3) seeded random larger
rounds; (4) canaries: corrupted traces must be flagged."""
import json
import os
import re

import vlib

PROPS = ["C35"]
ENGINE = "spec/Net: C35 monitor + channel-table model (TLC exhaustive), TLC-generated routing scripts played with seeded random nested payloads through the real simulator network paths / sinktools::demux_map / MemberId conversions, trace validation by TLC with payload equality"
MANIFEST = {
    "C35": {
        "text": "TLC exhaustively checks a channel-table model of the four addressing patterns plus demux_map (<=3-4 messages, every delivery order) against the C35 monitor. Every TLC-generated routing script (all routes, <=2 messages quick / 3 thorough, on the 3x3 topology; the single-message and cluster-to-cluster scripts also on UNEQUAL cluster sizes 2->3, 3->2; thorough adds 1->3, 3->1, 2->4) and seeded random larger rounds are played with random nested payloads (structs, enums, options, vectors, strings incl. unicode/control characters, maps, 64-bit integers, member ids) through the real generated send/receive code in the Hydro simulator, through sinktools::demux_map with TaglessMemberId keys and bincode bytes, and through MemberId::into_tagless/from_tagless/serde; the original value is logged as JSON at the sender and the decoded value at the receiver; TLC validates: each delivery matches exactly one in-flight send to that member with the sender's id and an equal payload, nothing lost; round-tripped ids unchanged.",
        "note": "Simulator networking (not real sockets). No floats in payloads. Delivery order is not part of C35. JSON integers are logged as decimal strings (TLC ints are 32-bit), text ASCII-escaped: both injective.",
        "technique": "TLA+ spec model-checked with TLC + conformance (TLC cases replayed into the code; code traces validated by TLC)",
        "design_ref": "DESIGN.md §6.14 (C35)",
    },
}

SD = os.path.join(vlib.SPEC, "Net")
CRATE = os.path.join(vlib.ROOT, "harness_hydro", "hv_std")
ACTIONS = ["Send1", "Bcast", "Deliver", "Quiesce"]
PAT = {0: "o2m-demux", 1: "m2o-send", 2: "m2m-demux", 3: "broadcast", 4: "demux_map", 5: "broadcast"}


def _cfg(name, text):
    p = os.path.join(vlib.rundir("cfg"), name)
    with open(p, "w") as f:
        f.write(text)
    return p


def _build(binname):
    """cargo build; the workspace is shared with other families, whose half-written crates can
    break a build transiently -- retry before giving up."""
    import time
    for attempt in range(3):
        try:
            return vlib.cargo_build("hv_std", bins=[binname], features=["runner"], workspace="harness_hydro")
        except vlib.ToolError:
            if attempt == 2:
                raise
            time.sleep(20)


def _run_harness(exe, args):
    p = vlib.run_bin(exe, args, cwd=CRATE, env={"CARGO_MANIFEST_DIR": CRATE}, timeout=3000)
    if p.returncode != 0:
        raise vlib.ToolError("%s %s failed: %s" % (os.path.basename(exe), args[0], p.stderr[-3000:]))
    return json.loads(p.stdout.strip().splitlines()[-1])


def _validate(trace, res, what):
    ok, r = vlib.validate_trace(SD, "NetTrace", trace, tag="net_" + what, timeout=1500)
    if not ok:
        raise vlib.ToolError("trace not consumed by NetTrace (%s):\n%s" % (what, r.error_trace[-2000:]))
    viol = vlib.printed_json(r, "VIOL")
    if res is not None:
        res.add_tlc(r, "trace-validation:" + what)
    return viol[0] if viol else []


def _cases_of(trace):
    out, cur = {}, None
    for e in vlib.read_ndjson(trace):
        if e.get("e") == "reset":
            cur = e["case"]
            out[cur] = []
        if cur is not None and e.get("e") != "eof":
            out[cur].append(e)
    return out


def _report(res, trace, viol, what):
    cases = _cases_of(trace)
    pre = [v for v in viol if str(v[1]).startswith("PRE-")]
    if pre:
        raise vlib.ToolError("harness inconsistency (%s): %s" % (what, pre[:3]))
    for case, rule in viol:
        evs = cases.get(case, [])
        pats = sorted({PAT.get(e.get("pat"), "?") for e in evs if e.get("e") in ("send", "bcast", "deliver")})
        area = "memberid" if any(e.get("e") == "rt" for e in evs) else "+".join(pats) or "net"
        if rule == "member-never-addressed":
            area = "broadcast"
        res.violation("net/%s/%s" % (area, rule),
                      "rule %s broken in %s case %s (topology |source|x|dest| = %s)"
                      % (rule, what, case, evs[0].get("topo") if evs else "?"), {"events": evs})
    return cases


def _head(evs, ncases):
    """the first ncases whole cases of a trace, plus eof"""
    out, n = [], 0
    for e in evs:
        if e.get("e") == "reset":
            n += 1
            if n > ncases:
                break
        if e.get("e") != "eof":
            out.append(json.loads(json.dumps(e)))       # deep copy
    return out + [{"e": "eof"}]


def _canaries(res, muts):
    """Each (trace, mutate, label) corrupts its own copy of a short prefix of a good recorded
    trace; the copies are concatenated (case ids offset by 100000 * i) and validated in ONE TLC
    run; every copy must be flagged, else the binding is vacuous (ToolError)."""
    allevs, ctrace = [], None
    for i, (trace, mutate, label) in enumerate(muts):
        full = vlib.read_ndjson(trace)
        ctrace = ctrace or trace.replace(".ndjson", "_canaries.ndjson")
        for n in (80, 600, 4000, 10 ** 9):          # shortest prefix of whole cases that can be corrupted
            evs = _head(full, n)
            if mutate(evs):
                break
        else:
            raise vlib.ToolError("canary %s: no place to corrupt in %s" % (label, trace))
        for e in evs:
            if e.get("e") == "reset":
                e["case"] += 100000 * (i + 1)
        allevs += [e for e in evs if e.get("e") != "eof"]
    vlib.write_ndjson(ctrace, allevs + [{"e": "eof"}])
    cviol = _validate(ctrace, None, "canary")
    for i, (_, _, label) in enumerate(muts):
        hit = sorted({v[1] for v in cviol if v[0] // 100000 == i + 1})
        if not hit:
            raise vlib.ToolError("canary (%s) was NOT rejected by NetTrace" % label)
        res.extra.setdefault("canaries", []).append("%s -> %s" % (label, hit[:3]))


def _flip_payload(evs):
    for e in evs:
        if e.get("e") == "deliver" and len(e["p"]["$text"]) > 1:
            t = e["p"]["$text"]
            e["p"]["$text"] = t[:-1] + ("x" if t[-1] != "x" else "y")
            return True
    return False


def _flip_int(evs):
    for e in evs:
        if e.get("e") == "deliver":
            n = int(e["p"]["$big"][1:])
            e["p"]["$big"] = "#%d" % (n ^ 1)
            return True
    return False


def _wrong_member(evs):
    for e in evs:
        if e.get("e") == "deliver" and e["pat"] in (0, 2) and e["at"] >= 0:
            e["at"] = (e["at"] + 1) % 3
            return True
    return False


def _wrong_sender(evs):
    for e in evs:
        if e.get("e") == "deliver" and e["pat"] in (1, 2):
            e["from"] = (e["from"] + 1) % 3
            return True
    return False


def _drop_delivery(evs):
    for i, e in enumerate(evs):
        if e.get("e") == "deliver":
            del evs[i]
            return True
    return False


def _drop_bcast_delivery(evs):
    for i, e in enumerate(evs):
        if e.get("e") == "deliver" and e["pat"] in (3, 5):
            del evs[i]
            return True
    return False


def _rt_changed(evs):
    for e in evs:
        if e.get("e") == "rt":
            e["back"] = "#%d" % (int(e["raw"][1:]) ^ 1)
            return True
    return False


def _nontrivial(p):
    return bool(p.get("$shapes")) and p.get("$opt") != "~" and len(p.get("$text", "$")) > 1


def _count(res, cases):
    seen = set()
    for evs in cases.values():
        for e in evs:
            if e.get("e") == "deliver" and _nontrivial(e["p"]):
                seen.add(json.dumps(e["p"], sort_keys=True))
    res.distinct_nontrivial += len(seen)


def run(tier):
    # self-test: HV_MUTANT=6 swaps in the mutated cluster-to-cluster broadcast_closed; run it as
    #   HV_MUTANT=6 VERIF_SEED=99 ./check C35     (another seed, so the result cache of the
    # normal run is not polluted: the driver's cache key does not know HV_MUTANT)
    res = vlib.PropResult("C35")
    thorough = tier == "thorough"
    bindir = _build("hv_net")
    exe = os.path.join(bindir, "hv_net")
    d = vlib.rundir("net")

    # (1) design
    topos_mc = "ToposThorough" if thorough else "ToposQuick"
    cfg = _cfg("net_mc.cfg", "SPECIFICATION Spec\nCONSTANTS\n  Topos <- %s\n  Payloads = {1, 2}\n"
                             "INVARIANTS Inv ChanFlight\nCHECK_DEADLOCK FALSE\n" % topos_mc)
    r = vlib.tlc(SD, "NetImpl", cfg=cfg, workers=8, timeout=3000, xmx="8g")
    if not r.ok:
        raise vlib.ToolError("NetImpl model check failed (spec/design error):\n" + r.error_trace[-3000:])
    vlib.require_coverage(r, ACTIONS)
    res.add_tlc(r, "NetImpl exhaustive (topologies %s of NetImpl.tla: equal and unequal cluster sizes, all delivery orders)" % topos_mc)

    # (2) spec -> code: every routing script
    cfg = _cfg("net_gen.cfg", "SPECIFICATION Spec\nCONSTANTS\n  NA = 3\n  NB = 3\n  MaxMsgs = %d\nCHECK_DEADLOCK FALSE\n"
               % (3 if thorough else 2))
    r = vlib.tlc(SD, "NetGen", cfg=cfg, workers=1, timeout=1200, coverage=False)
    if not r.ok:
        raise vlib.ToolError("NetGen failed:\n" + r.error_trace[-3000:])
    routes = vlib.printed_json(r, "CASE")
    if len(routes) < 300:
        raise vlib.ToolError("NetGen produced only %d routing scripts" % len(routes))
    routes.sort(key=lambda c: json.dumps(c))
    rfile = os.path.join(d, "routes.ndjson")
    vlib.write_ndjson(rfile, routes)
    trace = os.path.join(d, "replay_trace.ndjson")
    # |source cluster| x |destination cluster|: equal AND unequal sizes
    topos = "3x3,2x3,3x2,1x3,3x1,2x4" if thorough else "3x3,2x3,3x2"
    summ = _run_harness(exe, ["replay", rfile, trace, topos])
    if summ["instances"] < 3 or summ["sends"] < len(routes):
        raise vlib.ToolError("net replay did too little: %s" % summ)
    viol = _validate(trace, res, "replay")
    cases = _report(res, trace, viol, "replayed")
    _count(res, cases)
    res.traces += summ["cases"]
    res.evaluations += summ["sends"] + summ["roundtrips"]
    res.extra["net_replay"] = summ

    # (3) seeded random larger rounds
    rtrace = os.path.join(d, "random_trace.ndjson")
    summ = _run_harness(exe, ["random", 1000 if thorough else 150, 8 if thorough else 6, rtrace, topos])
    viol = _validate(rtrace, res, "random")
    rcases = _report(res, rtrace, viol, "random")
    _count(res, rcases)
    res.traces += summ["cases"]
    res.evaluations += summ["sends"] + summ["roundtrips"]
    res.extra["net_random"] = summ
    for evs in rcases.values():
        sends = [e for e in evs if e.get("e") in ("send", "bcast")]
        if len(sends) >= 2 and len(res.samples) < 2:
            res.samples.append({"kind": "one round: sends and deliveries (payload JSON; numbers as '#n', text as '$..')",
                                "events": evs[:5]})
    rts = [e for evs in rcases.values() for e in evs if e.get("e") == "rt"]
    if rts:
        res.samples.append({"kind": "member id round trip", **rts[0]})

    # (4) canaries
    _canaries(res, [
        (rtrace, _flip_payload, "one character of a delivered string changed"),
        (rtrace, _flip_int, "lowest bit of a delivered u64 flipped"),
        (rtrace, _wrong_member, "delivered at another member"),
        (rtrace, _wrong_sender, "delivered with another sender id"),
        (rtrace, _drop_delivery, "delivery dropped"),
        (rtrace, _drop_bcast_delivery, "one member misses a broadcast"),
        (rtrace, _rt_changed, "round-tripped member id changed"),
    ])

    res.rule = ("case = one round (routing script x random payloads) or the member-id round-trip batch; "
                "evaluations = messages sent + ids round-tripped; non-trivial = delivered payload with an "
                "inner struct, at least one enum value and non-empty text; distinct by payload JSON")
    res.assumptions = [
        "the Hydro simulator's in-memory channels stand for the transport; the generated serialize/deserialize closures and member-id tagging are the real ones",
        "demux_map is fed exactly like serialize_bincode_with_type(is_demux=true) does: (id.into_tagless(), bincode bytes)",
        "payload equality = equality of the JSON forms (serde_json of the original vs. of the decoded value), compared inside TLC",
        "no failures injected (TCP.fail_stop): at quiescence nothing may be in flight; a broadcast addresses every member of the destination cluster (member-never-addressed otherwise)",
        "a simulator crash while routing (the dylib's panic aborts the child process that plays a topology) is recorded as a panic event of the round being played = VIOLATION, not a tool error",
    ]
    return {"C35": res}


def replay(pid, path):
    with open(path) as f:
        rep = json.load(f)
    t = os.path.join(vlib.rundir("net"), "replay_one.ndjson")
    vlib.write_ndjson(t, rep["case"]["events"] + [{"e": "eof"}])
    viol = _validate(t, None, "replay_one")
    print("recorded events re-validated; rules broken:", viol)
    return 1 if viol else 0
