"""C21-C26 -- tick-level operational semantics of DFIR programs (spec/DfirTick).

Jobs of one shared run:
 (1) tools/gen_dfir_progs.py writes the program corpus (hand-written operator x persistence corpus,
     calibration programs re-expressed from /repo/dfir_rs/tests/surface_*.rs with the outputs those
     tests assert, seeded random programs, shape-perturbed variants) as Rust (one dfir_syntax! per
     program in harness/hv_dfir/src/gen_progs.rs) and as data for TLC;
 (2) hv_dfir/run_progs executes seeded input histories against the real dfir_rs runtime and records
     per step the tick counter and every sink's outputs grouped by tick;
 (3) TLC validates the whole trace against the DfirTick reference interpreter (DfirTickTrace);
     mismatches are collected per (program, history, step) and attributed to C21..C26;
 (4) hv_dfir/compile_check gives the dfir_lang compile verdict of every program text (C22: a base
     and its variants agree);
 (5) TLC model checks DfirTick itself on tiny programs x all input histories (DfirTickMC);
 (6) canaries: corrupted copies of good recorded steps must be flagged."""
import copy
import itertools
import json
import os
import subprocess
import sys

import vlib

import re
import time


class _Partial(dict):
    """results of a run in which nothing could be executed: only the properties that own a failing
    generated program have a verdict; asking for any other one is a tool error (exit 2)"""

    def __getitem__(self, k):
        if k not in self:
            raise vlib.ToolError("nothing could run for %s: the generated crate hv_dfir does not build "
                                 "(the failing generated programs are reported under their own properties)" % k)
        return dict.__getitem__(self, k)


def _cargo_progs(timeout=7200, extra=False):
    """cargo build of run_progs with the generated programs; returns (bindir or None, full output)"""
    ws = vlib.HARNESS
    vlib.ensure_lock(ws)
    cmd = ["cargo", "build", "--offline", "--release", "-p", "hv_dfir", "--bin", "run_progs", "--features",
           "progs_x" if extra else "progs"]
    e = dict(os.environ)
    e["CARGO_NET_OFFLINE"] = "true"
    e["CARGO_TERM_COLOR"] = "never"
    t0 = time.time()
    try:
        p = subprocess.run(cmd, cwd=ws, env=e, stdout=subprocess.PIPE, stderr=subprocess.STDOUT, text=True,
                           errors="replace", timeout=timeout)
    except subprocess.TimeoutExpired:
        raise vlib.ToolError("cargo build timeout: hv_dfir")
    vlib.log("cargo build hv_dfir (progs): %.1fs rc=%s" % (time.time() - t0, p.returncode))
    return (os.path.join(ws, "target", "release") if p.returncode == 0 else None), p.stdout


_ERR_HEAD = re.compile(r"^error(\[E\d+\])?: (.*)$")
_ERR_LOC = re.compile(r"^\s*--> (\S+?):(\d+):(\d+)")


def _map_build_errors(output):
    """rustc diagnostics -> ({program id: [messages]}, [errors that are NOT inside a generated program])"""
    index = {}      # file name -> (starts [(line, program id)], line of `pub fn run`)
    for fn_rs in ("gen_progs.rs", "gen_progs_x.rs"):
        try:
            src = open(os.path.join(vlib.HARNESS, "hv_dfir", "src", fn_rs)).read().splitlines()
        except OSError:
            continue
        starts = []
        for i, ln in enumerate(src, start=1):
            m = re.match(r"pub fn p(\d+)\(", ln)
            if m:
                starts.append((i, int(m.group(1))))
        run_line = next((i for i, ln in enumerate(src, start=1) if ln.startswith("pub fn run(")), len(src) + 1)
        index[fn_rs] = (starts, run_line)

    def owner(path, line):
        fn_rs = os.path.basename(path.replace("\\", "/"))
        if fn_rs not in index or not path.replace("\\", "/").endswith("hv_dfir/src/" + fn_rs):
            return None
        starts, run_line = index[fn_rs]
        if line >= run_line:
            return None
        best = None
        for (l0, pid) in starts:
            if l0 <= line:
                best = pid
        return best

    blocks, cur = [], None
    for ln in output.splitlines():
        m = _ERR_HEAD.match(ln)
        if m:
            cur = {"msg": ln, "loc": None, "text": [ln]}
            blocks.append(cur)
            continue
        if cur is not None:
            if ln.startswith("warning") or ln.startswith("   Compiling"):
                cur = None
                continue
            cur["text"].append(ln)
            ml = _ERR_LOC.match(ln)
            if ml and cur["loc"] is None:
                cur["loc"] = (ml.group(1), int(ml.group(2)))
    per_prog, unmapped = {}, []
    for b in blocks:
        if b["loc"] is None:
            # summary lines ("could not compile", "aborting due to") carry no location
            if re.search(r"could not compile|aborting due to|previous error", b["msg"]):
                continue
            unmapped.append(b["msg"])
            continue
        path, line = b["loc"]
        pid = owner(path, line)
        if pid is None:
            unmapped.append("%s (%s:%d)" % (b["msg"], path, line))
        else:
            per_prog.setdefault(pid, []).append("\n".join(b["text"][:40]))
    return per_prog, unmapped


PROPS = ["C21", "C22", "C23", "C24", "C25", "C26"]
ENGINE = "spec/DfirTick: reference interpreter of DFIR tick semantics in TLA+ (TLC evaluates it on recorded runs of generated dfir_syntax! programs; TLC model checks it on tiny programs x all histories); dfir_lang compile verdicts for shape variants"
_TECH = "TLA+ reference interpreter evaluated by TLC on traces recorded from the real runtime (trace validation) + TLC model checking of the interpreter on tiny programs"
MANIFEST = {
    "C21": {"text": "Every operator x persistence combination (hand-written corpus + seeded random typed DAGs, closures from a closed vocabulary defined identically in TLA+ and Rust) is built with dfir_syntax!, driven with seeded per-tick input histories through run_tick_sync/run_available_sync, and TLC requires every sink's per-tick outputs to equal the DfirTick interpreter's (sequence where order is deterministic, else bag). The interpreter is calibrated on programs and outputs taken from dfir_rs/tests/surface_*.rs.",
            "note": "Values are small ints/pairs (lattice operators over Max/Min<u64> and SetUnionHashSet<i64>; futures are immediately ready). Covered: every operator of dfir_lang/src/graph/ops except the async stream/blocking ones listed in the evidence (coverage_table / uncovered_operators). The quick tier runs the first generated module (~190 programs); the thorough tier adds a second module (feature progs_x: pull/push pairs of the binary operators, more random / deep / variant programs) and longer histories. Program descriptions given to TLC are the generator's intent.",
            "technique": _TECH, "design_ref": "DESIGN.md §6.12"},
    "C22": {"text": "Pull/push PAIR programs (same operator behind a tee and in front of a union, identical input; the two sinks must agree tick by tick, rule pull-vs-push-outputs-differ) for every stateful operator x persistence; and each base program is emitted in shape-perturbed variants (identity/map(id)/handoff() on edges, binary union with an empty source, tee with null, statement order shuffled) that move operators between pull and push sides and split subgraphs; every variant is validated by TLC against the SAME model run as its base, and the dfir_lang compile verdicts of base and variants must agree. Model level: TLC checks ShapeInvariance of the interpreter on a program and its perturbed twin for all histories.",
            "note": "rustc-level type inference differences between shapes are outside the check (generated programs must compile).",
            "technique": _TECH, "design_ref": "DESIGN.md §6.12"},
    "C23": {"text": "Random programs whose blocking inputs (fold/reduce/sort/anti_join neg/join/persist/...) are fed through 1-4 extra same-tick stages crossing handoffs, unions and tees; TLC compares per-tick outputs with the whole-tick reference semantics (blocking inputs read the complete same-tick input by construction of the interpreter).",
            "note": "Depth bounded by the generator (<= 10 operators + 4 decorations per edge).",
            "technique": _TECH, "design_ref": "DESIGN.md §6.12"},
    "C24": {"text": "current_tick before/after every call and the number of ticks run_available_sync executes are recorded and bound by the trace spec for every program; defer_tick/defer_tick_lazy chains, cycles and stateful operators under seeded arrival patterns; TLC model checks on tiny programs x all histories: counter +1 per tick, deferred items land in tick t+1 only, run_available stops for lazy data, terminates iff the deferred chain dies, 'tick cleared/'static kept.",
            "note": "run_available on programs that never become idle is only exercised in the model (fuel), not against the real code.",
            "technique": _TECH, "design_ref": "DESIGN.md §6.12"},
    "C25": {"text": "Programs with singleton()/optional()/handoff() cells read through #name, #mut name, #{N} name (closures return the value they observed, so sinks log it); readers sharing sources with the producer, deep producers, several access groups, pipe consumers after mutation, shuffled statement order; TLC compares with the interpreter where a reference reads the settled cell and groups run in order.",
            "note": "Reference closures come from a fixed vocabulary (add_ref, add_opt, add_len, acc_mut, push_mut, retain_gt, le_ref, le_opt, iter_ref).",
            "technique": _TECH, "design_ref": "DESIGN.md §6.12"},
    "C26": {"text": "loop{} programs (root gate with batch/batch_lazy, root loop with defer_tick/defer_tick_lazy, nested fixpoints, all_iterations, three nesting levels, reachability with join+unique inside a nested loop) against the interpreter's loop semantics (root = at most once per tick, nested = while non-lazy entry or loop-delayed data), calibrated on dfir_rs/tests/surface_loop.rs; TLC model checks NestedFixpoint and RootOncePerTick on tiny programs x all histories.",
            "note": "Loop shapes come from templates (producer and consumer of a defer_tick in the same loop).",
            "technique": _TECH, "design_ref": "DESIGN.md §6.12"},
}

SD = os.path.join(vlib.SPEC, "DfirTick")
GEN = os.path.join(vlib.ROOT, "tools", "gen_dfir_progs.py")
KNOWN_RNR = "dfirtick/reduce_no_replay/push-side-first-item-not-an-update"
ALL_OPS_EXCLUDED = {"mod", "_counter", "assert", "assert_eq", "dest_file", "dest_sink", "dest_sink_serde", "for_each",
                    "initialize", "source_file", "source_interval", "source_json", "source_stdin",
                    "source_stream_serde", "spin"}


def _gen(tier, outdir):
    e = dict(os.environ)
    e["VERIF_SEED"] = str(vlib.seed())
    p = subprocess.run([sys.executable, GEN, "--tier", tier, "--out", outdir], env=e, stdout=subprocess.PIPE,
                       stderr=subprocess.PIPE, text=True)
    if p.returncode != 0:
        raise vlib.ToolError("gen_dfir_progs.py failed: " + p.stderr[-2000:])
    return json.loads(p.stdout.strip().splitlines()[-1])


def _validate(trace, what, timeout=1500):
    ok, r = vlib.validate_trace(SD, "DfirTickTrace", trace, tag="dt_" + what, timeout=timeout)
    if not ok:
        raise vlib.ToolError("trace not consumed by DfirTickTrace (%s):\n%s" % (what, r.error_trace[-2500:]))
    viol = vlib.printed_json(r, "VIOL")
    if not viol:
        raise vlib.ToolError("DfirTickTrace printed no VIOL line (%s)" % what)
    mism = vlib.printed_json(r, "MISMATCH")
    return [tuple(v) for v in viol[0]], mism, r


def _split_trace(events):
    """-> dict (pid, h) -> list of events (prog event first)"""
    out, cur = {}, None
    for e in events:
        if e.get("e") == "prog":
            cur = (e["id"], e["h"])
            out[cur] = [e]
        elif e.get("e") != "eof" and cur is not None:
            out[cur].append(e)
    return out


def _prop_of(meta, rule):
    if rule in ("tick-counter-before", "tick-counter-not-plus-one-per-tick", "ticks-executed",
                "run-available-did-not-stop"):
        return "C24"
    if rule == "pull-vs-push-outputs-differ":
        return "C22"
    if meta["prop"] == "CAL":
        n = meta["name"]
        return "C26" if n.startswith("cal_loop") else "C25" if n.startswith("cal_ref") else \
            "C24" if n.startswith("cal_defer") else "C21"
    return meta["prop"]


def _explained_by_known(groups, metas, bad_keys, d):
    """For every (pid,h) with a mismatch: does substituting the known reduce_no_replay push-side
    defect for some subset of its reduce_no_replay nodes make the model agree with the code on the
    WHOLE history?  One extra TLC run over all candidates."""
    cands, evs = [], []
    for key in sorted(bad_keys):
        desc = groups[key][0]["desc"]
        idx = [i for i, n in enumerate(desc["nodes"]) if n["op"] == "reduce_no_replay"]
        if not idx or len(idx) > 4:
            continue
        for r in range(1, len(idx) + 1):
            for sub in itertools.combinations(idx, r):
                d2 = copy.deepcopy(desc)
                for i in sub:
                    d2["nodes"][i]["op"] = "reduce_no_replay_pushbug"
                cid = len(cands) + 1
                cands.append(key)
                evs.append(dict(groups[key][0], desc=d2, id=cid, h=1))
                evs.extend(groups[key][1:])
    if not cands:
        return set()
    path = os.path.join(d, "known_probe.ndjson")
    vlib.write_ndjson(path, evs + [{"e": "eof"}])
    viol, _, _ = _validate(path, "known_probe")
    badc = {v[0] for v in viol}
    return {cands[c - 1] for c in range(1, len(cands) + 1) if c not in badc}


def _mc_cfg(thorough):
    p = os.path.join(vlib.rundir("cfg"), "dfirtick_mc.cfg")
    with open(p, "w") as f:
        f.write("SPECIFICATION Spec\nCONSTANTS\n  MaxSteps = %d\n  Dom = %s\n  MaxLen = %d\n  Fuel = 8\n"
                "INVARIANT Inv\nCHECK_DEADLOCK FALSE\n" % ((3, "{0, 2}", 1) if thorough else (2, "{0, 2}", 1)))
    return p


def _canary(groups, metas, d, bad_keys=()):
    """corrupt good recorded steps: (a) one output item changed, (b) one output item dropped,
    (c) tick counter after off by one, (d) an extra tick claimed -> each must be flagged"""
    evs, want = [], {}
    cid = 0
    for key in sorted(groups):
        g = groups[key]
        m = metas[key[0]]
        if m["prop"] not in ("C21", "C24", "C25", "C26") or m["variant"] or key in bad_keys:
            continue        # only histories on which model and code agree are corrupted
        steps = [i for i, e in enumerate(g) if e.get("e") == "step" and any(any(s for s in t) for t in e["ticks"])]
        if not steps or any(e.get("e") == "panic" for e in g):
            continue
        for kind in ("item", "drop", "ta", "extra"):
            cid += 1
            g2 = copy.deepcopy(g)
            g2[0]["id"], g2[0]["h"] = cid, 1
            e = g2[steps[-1]]
            ti = max(i for i, t in enumerate(e["ticks"]) if any(s for s in t))
            si = max(i for i, s in enumerate(e["ticks"][ti]) if s)
            if kind == "item":
                x = e["ticks"][ti][si][0]
                e["ticks"][ti][si][0] = x + 1 if isinstance(x, int) else [x[0], x[1] + 1] if isinstance(x[1], int) else [x[0] + 1, x[1]]
                want[cid] = "outputs"
            elif kind == "drop":
                e["ticks"][ti][si].pop()
                want[cid] = "outputs"
            elif kind == "ta":
                e["ta"] += 1
                want[cid] = "tick-counter-not-plus-one-per-tick"
            else:
                e["ticks"].append([[] for _ in e["ticks"][0]])
                e["ta"] += 1
                e["nticks"] += 1
                want[cid] = "ticks-executed"
            del g2[steps[-1] + 1:]
            evs.extend(g2)
        if cid >= 24:
            break
    if cid < 8:
        if bad_keys:
            # nearly every history already disagrees with the model (and is being reported): the
            # binding is evidently not vacuous, and there is nothing clean left to corrupt
            return 0, None
        raise vlib.ToolError("could not build canaries (no suitable recorded steps)")
    path = os.path.join(d, "canary.ndjson")
    vlib.write_ndjson(path, evs + [{"e": "eof"}])
    viol, _, r = _validate(path, "canary")
    got = {}
    for v in viol:
        got.setdefault(v[0], set()).add(v[3])
    missed = [c for c, w in want.items() if w not in got.get(c, set())]
    if missed:
        raise vlib.ToolError("canary traces NOT rejected by DfirTickTrace: %s" % [(c, want[c]) for c in missed[:5]])
    return len(want), r


def run(tier):
    thorough = tier == "thorough"
    res = {p: vlib.PropResult(p) for p in PROPS}
    d = vlib.rundir("dfirtick")
    g = _gen(tier, d)
    progs_path, hist_path = os.path.join(d, "progs.json"), os.path.join(d, "hist.json")

    # (4) compile verdicts through dfir_lang's library API, BEFORE rustc sees the generated crate
    # (compile_check is built without the `progs` feature, i.e. without the generated programs)
    bindir = vlib.cargo_build("hv_dfir", bins=["compile_check"], timeout=5400)
    all_progs = json.load(open(progs_path))
    all_metas = {p["id"]: p for p in all_progs}
    cv_path = os.path.join(d, "compile.json")
    p = vlib.run_bin(os.path.join(bindir, "compile_check"), [progs_path, cv_path], timeout=900)
    if p.returncode != 0:
        raise vlib.ToolError("compile_check failed: " + p.stderr[-2000:])
    cv = json.load(open(cv_path))
    by_base = {}
    for c in cv:
        by_base.setdefault(c["base"], []).append(c)
    ngroups, rejected = 0, set()
    for base, cs in sorted(by_base.items()):
        if len(cs) > 1:
            ngroups += 1
        verdicts = {c["verdict"]["ok"] for c in cs}
        rejected |= {c["id"] for c in cs if not c["verdict"]["ok"]}
        if len(verdicts) > 1:
            res["C22"].violation("dfirtick/%s/compile-verdict-differs" % all_metas[base]["name"],
                                 "base and shape variants of %s differ in dfir_lang compile verdict: %s" % (
                                     all_metas[base]["name"],
                                     [(all_metas[c["id"]]["name"], c["verdict"]["ok"]) for c in cs]),
                                 {"verdicts": cs, "texts": {c["id"]: all_metas[c["id"]]["text"] for c in cs}})
        elif verdicts == {False}:
            raise vlib.ToolError("generator produced a program that dfir_lang rejects in every shape (%s): %s"
                                 % (all_metas[base]["name"], cs[0]["verdict"]))
    if len(rejected) > len(all_progs) // 3:
        raise vlib.ToolError("dfir_lang rejects %d of %d generated programs" % (len(rejected), len(all_progs)))
    if rejected:
        # keep the generated crate buildable: the rejected shapes are reported above and left out
        e = dict(os.environ)
        e["VERIF_SEED"] = str(vlib.seed())
        subprocess.run([sys.executable, GEN, "--tier", tier, "--out", d, "--exclude",
                        ",".join(str(x) for x in sorted(rejected))], env=e, check=True, stdout=subprocess.PIPE)
    bindir, out = _cargo_progs(extra=thorough)
    if bindir is None:
        # Every program of the corpus compiles on the unchanged tree: generated code of a program that
        # no longer compiles is a violation of the property that program was written for.  Anything
        # that is not inside a generated program (harness / runtime API breakage) stays a tool error.
        per_prog, unmapped = _map_build_errors(out)
        tail = "\n".join(out.splitlines()[-60:])
        if unmapped or not per_prog:
            raise vlib.ToolError("cargo build failed for hv_dfir (not attributable to generated programs: %s):\n%s"
                                 % (unmapped[:3], tail))
        owners = set()
        for pid_, msgs in sorted(per_prog.items()):
            m = all_metas[pid_]
            prop = _prop_of(m, "outputs")
            owners.add(prop)
            res[prop].violation("dfirtick/%s/generated-code-does-not-compile" % m["name"],
                                "program %s: the code dfir_syntax! generates no longer compiles (rule generated-code-does-not-compile): %s"
                                % (m["name"], msgs[0].splitlines()[0]),
                                {"program": m["name"], "text": m["text"], "rustc": msgs[:4]})
        # one rebuild without the failing programs, to still get verdicts for everything else
        excl = sorted(rejected | set(per_prog))
        e = dict(os.environ)
        e["VERIF_SEED"] = str(vlib.seed())
        subprocess.run([sys.executable, GEN, "--tier", tier, "--out", d, "--exclude", ",".join(str(x) for x in excl)],
                       env=e, check=True, stdout=subprocess.PIPE)
        bindir, out2 = _cargo_progs(extra=thorough)
        if bindir is None:
            vlib.log("rebuild without the failing programs failed too: only %s have a verdict" % sorted(owners))
            part = _Partial()
            r_mc0 = vlib.tlc(SD, "DfirTickMC", cfg=_mc_cfg(False), workers=4, timeout=1200, xss="64m", coverage=False)
            for prop in owners:
                res[prop].add_tlc(r_mc0, "DfirTickMC exhaustive (tiny programs x all histories)")
                rr = res[prop]
                rr.evaluations = len(per_prog)
                rr.distinct_nontrivial = len(per_prog)
                rr.rule = "nothing could run: cases = generated programs whose code no longer compiles"
                rr.samples = [{"program": all_metas[k]["name"], "rustc": v[0].splitlines()[:6]} for k, v in list(per_prog.items())[:3]]
                part[prop] = rr
            return part
    progs = json.load(open(progs_path))
    metas = {p["id"]: p for p in progs}

    # (2) real runs
    trace = os.path.join(d, "trace.ndjson")
    p = vlib.run_bin(os.path.join(bindir, "run_progs"), [progs_path, hist_path, trace], timeout=900)
    if p.returncode != 0:
        raise vlib.ToolError("run_progs failed (rc=%s): %s" % (p.returncode, p.stderr[-2000:]))
    summ = json.loads(p.stdout.strip().splitlines()[-1])
    if summ["programs"] != len(progs) or summ["steps"] < 300:
        raise vlib.ToolError("run_progs ran too little: %s" % summ)
    events = vlib.read_ndjson(trace)
    groups = _split_trace(events)

    # (3) TLC validates everything
    viol, mism, r_tv = _validate(trace, "main", timeout=2400 if thorough else 1500)
    mm = {(m["prog"], m["h"], m["step"]): m for m in mism}
    cal_bad = [v for v in viol if v[3] == "calibration-model-differs-from-repo-test"]
    if cal_bad:
        raise vlib.ToolError("calibration: the DfirTick model disagrees with outputs asserted by the repository's "
                             "own tests (spec fault, not a finding): %s" % [(metas[v[0]]["name"], v[2]) for v in cal_bad[:5]])
    bad_keys = {(v[0], v[1]) for v in viol}
    explained = _explained_by_known(groups, metas, bad_keys, d) if bad_keys else set()
    seen_fp = set()
    for v in viol:
        pid, h, step, rule = v
        m = metas[pid]
        prop = _prop_of(m, rule)
        key = (pid, h)
        if key in explained:
            fp = KNOWN_RNR
            what = "reduce_no_replay on the push side does not emit when the first item of an empty accumulator arrives alone after tick 0 (program %s)" % m["name"]
        elif rule == "pull-vs-push-outputs-differ":
            fp = "dfirtick/%s/pull-vs-push-outputs-differ" % m["name"]
            what = ("program %s history %d step %d: the push-placed and the pull-placed instance of the same "
                    "operator, fed identical input, delivered different per-tick outputs" % (m["name"], h, step))
        else:
            fp = "dfirtick/%s/%s/%s" % (metas[m["base"]]["name"], m["variant"] or "base", rule)
            what = "program %s history %d step %d: rule %s broken (model vs real outputs in replay file)" % (m["name"], h, step, rule)
        if (prop, fp, pid) in seen_fp:
            continue
        seen_fp.add((prop, fp, pid))
        res[prop].violation(fp, what, {"program": m["name"], "text": m["text"], "events": groups[key],
                                       "mismatch": mm.get((pid, h, step))})

    # (5) model checking of the interpreter itself
    r_mc = vlib.tlc(SD, "DfirTickMC", cfg=_mc_cfg(thorough), workers=4 if not thorough else 8,
                    timeout=3000 if thorough else 1200, xss="64m", coverage=False)
    if not r_mc.ok:
        raise vlib.ToolError("DfirTickMC failed (spec/design error):\n" + r_mc.error_trace[-3000:])
    if r_mc.distinct < 300:
        raise vlib.ToolError("DfirTickMC explored only %d states" % r_mc.distinct)
    # (-coverage multiplies the cost of the recursive interpreter by >10: anti-vacuity is the state
    # count -- 9 programs x all inputs x 2 modes -- and the canaries below)

    # (6) canaries
    ncan, r_can = _canary(groups, metas, d, bad_keys)

    # ---- evidence
    table, nprog_by = {}, {}
    for m in progs:
        for t in m["tags"]:
            table[t] = table.get(t, 0) + 1
    covered_ops = {t.split("|")[0] for t in table}
    try:
        all_ops = {f[:-3] for f in os.listdir(os.path.join(vlib.REPO, "dfir_lang", "src", "graph", "ops")) if f.endswith(".rs")}
    except OSError:
        all_ops = set()
    uncovered = sorted(o for o in all_ops - covered_ops - ALL_OPS_EXCLUDED - {"source_stream"})
    hist = json.load(open(hist_path))

    def nontrivial(m, steps):
        stateful = any(n["op"] not in ("source_stream", "sink", "map", "filter", "identity", "tee") for n in m["desc"]["nodes"])
        return stateful and sum(1 for s in steps if any(s["inputs"])) >= 2

    for prop in PROPS:
        rr = res[prop]
        mine = [m for m in progs if m["prop"] == prop or (m["prop"] == "CAL" and _prop_of(m, "outputs") == prop)]
        if prop == "C22":        # + the pull/push pair programs (side against side)
            mine = mine + [m for m in progs if m["desc"].get("pairs") and m not in mine]
        if prop == "C24":
            mine = progs        # tick counter / ticks executed are bound for every program
        keys = set()
        nsteps = 0
        for m in mine:
            for hi, steps in enumerate(hist[str(m["id"])]):
                nsteps += len(steps)
                if nontrivial(m, steps):
                    keys.add((json.dumps(m["desc"], sort_keys=True) if prop != "C22" else m["text"],
                              json.dumps([[s["mode"], s["inputs"]] for s in steps])))
        rr.add_tlc(r_tv, "trace-validation (all programs, shared)")
        rr.add_tlc(r_mc, "DfirTickMC exhaustive (tiny programs x all histories)")
        if r_can is not None:
            rr.add_tlc(r_can, "canary trace-validation")
        rr.traces = sum(len(hist[str(m["id"])]) for m in mine)
        rr.evaluations = nsteps
        rr.distinct_nontrivial = len(keys)
        rr.rule = ("case = (program, input history); a history is a sequence of steps (items sent per source, then "
                   "run_tick_sync or run_available_sync); non-trivial = the program has at least one stateful/"
                   "multi-input operator and at least 2 steps carry input; distinct by (program description%s, history)"
                   % (" -- for C22 the Rust text of the variant" if prop == "C22" else ""))
        rr.extra["programs"] = len(mine)
        rr.extra["programs_by_kind"] = {"base": sum(1 for m in mine if not m["variant"]),
                                        "variants": sum(1 for m in mine if m["variant"])}
        rr.extra["canaries_rejected"] = ncan
        rr.extra["model_checking"] = {"distinct_states": r_mc.distinct, "invariants": "TickCounter DeferNextOnly AvailLazyOneTick AvailEagerSecondTick AvailDies CycleStepPerTick AvailForever TickVsStatic ShapeInvariance NestedFixpoint RootOncePerTick"}
        rr.extra["exhaustive"] = False
        ex = [m for m in mine if not m["variant"]][:2] + [m for m in mine if m["variant"]][:1]
        for m in ex:
            k = (m["id"], 1)
            st = [e for e in groups.get(k, []) if e.get("e") == "step"][:3]
            rr.samples.append({"program": m["name"], "dfir": m["text"].strip().splitlines(),
                               "first_steps": [{"mode": e["mode"], "inputs": e["inputs"], "tick_before": e["tb"],
                                                "tick_after": e["ta"], "outputs_per_tick_per_sink": e["ticks"]} for e in st]})
        rr.assumptions = ["program descriptions given to TLC are the generator's intent (tied to the real flat graph by C20's check)",
                          "closures come from a closed vocabulary defined by name in DfirTick.tla and hv_dfir/src/vocab.rs",
                          "order is compared only for sinks the generator marks order-deterministic; everything else as a bag",
                          "run_available is only driven on programs the generator can show to become idle"]
    res["C21"].extra["coverage_table"] = dict(sorted(table.items()))
    res["C21"].extra["uncovered_operators"] = uncovered
    res["C22"].extra["compile_verdict_groups"] = ngroups
    res["C22"].extra["pull_push_pairs"] = sum(len(m["desc"].get("pairs", [])) for m in progs)
    res["C22"].extra["variant_kinds"] = sorted({m["variant"] for m in progs if m["variant"]})
    res["C21"].extra["calibration_programs"] = sum(1 for m in progs if m["calibration"])
    return res


def replay(pid, path):
    with open(path) as f:
        rep = json.load(f)
    d = vlib.rundir("dfirtick")
    c = rep["case"]
    if "events" not in c:
        print(json.dumps(c, indent=1)[:3000])
        return 1
    t = os.path.join(d, "replay_one.ndjson")
    vlib.write_ndjson(t, c["events"] + [{"e": "eof"}])
    viol, mism, _ = _validate(t, "replay_one")
    print("program:", c.get("program"))
    print("recorded events re-validated against DfirTick; rules broken:", viol)
    for m in mism[:3]:
        print("expected (model):", json.dumps(m["expected"]), " got (code):", json.dumps(m["got"]))
    return 1 if viol else 0
