"""C41 -- every well-typed Hydro flow compiles to a valid dataflow.

spec/HydroProg/HydroProg.tla is the specification of "well-typed" for the covered fragment of the
Hydro API (a typed SSA language: processes p1/p2, a cluster, ticks, streams/singletons/optionals,
boundedness, ordering, tick cycles, forward references with the documented no-synchronous-cycle
precondition, tees, singleton references, network hops).

Jobs of one run:
 (1) TLC enumerates ALL well-typed programs with <= N statements (HydroProgGen, breadth-first
     canonical order) and samples larger ones with `-simulate`; invariants: every finished program
     satisfies WellTyped; a second run without pruning must give the same set (pruning self-check).
 (2) a seeded, coverage-greedy sample (quick ~30 + 10 hand-written, thorough ~300) is rendered to Rust
     (tools/gen_hydro_progs.py; every `let` carries the type the TLA+ rules computed, so rustc
     re-checks the grammar -- a type error there is a TOOL error, never a finding).
 (3) PRODUCTION builder: hv_prog_embedded's build script runs `generate_embedded` on every program
     (panics caught per program) and the emitted Rust is compiled into the harness lib; the bin
     `progc prod` runs the generator again, extracts the partitioned graph baked into the emitted
     code and rebuilds the flat graph with the public compile_network/emit/build steps.
 (4) SIMULATOR builder: `progsim` runs `flow.sim().compiled()` per program (SimBuilder emission,
     partitioning, rustc through the trybuild project), panics caught.
 (4b) the emitted function of every single-location program is instantiated with channel inputs
     and run for 4 ticks (forces monomorphisation, executes the generated glue); a panic is logged.
 (5) TLC validates the whole log against HydroProgTrace: WellTyped(term) is re-evaluated on the
     logged term; for every well-typed program both builders must succeed, the emitted code must
     compile, and every emitted graph must satisfy Partition.tla (Accept = no same-tick cycle,
     WellFormed partition, rewrites/serde faithful).
 (6) canaries: corrupted copies of the log must be flagged."""
import concurrent.futures
import json
import os
import random
import re
import subprocess
import sys
import time

import vlib

sys.path.insert(0, os.path.join(vlib.ROOT, "tools"))
import gen_hydro_progs as gen  # noqa: E402

PROPS = ["C41"]
ENGINE = "spec/HydroProg: typed grammar of Hydro programs (TLC enumerates / samples all well-typed terms), rendered to Rust against the real API; production (generate_embedded + rustc) and simulator (flow.sim().compiled()) builders run per program with panics caught; TLC validates verdicts and every emitted DFIR graph against HydroProg.tla + Partition.tla"
MANIFEST = {
    "C41": {
        "text": "HydroProg.tla defines well-typed Hydro programs for a fragment of the API (40 operators: map/filter/flat_map/unique/enumerate/sort, fold/reduce/count/max/first, singleton and optional operators, keyed fold/reduce, batch/snapshot/all_ticks/latest/defer_tick, chain/merge/join/cross_singleton/filter_if_some/zip/unwrap_or, singleton references (by_ref), tick cycles, forward references with the documented no-synchronous-cycle precondition, process-to-process and process-cluster-process network hops, tees). TLC enumerates every well-typed program up to 4 (thorough 5) statements and samples larger ones (up to 9 statements); a coverage-greedy sample (40 quick / 300 thorough, incl. 10 hand-written) is rendered to Rust and compiled with the production builder (generate_embedded -> rustc, emitted code linked into the harness) and the simulator builder (flow.sim().compiled()); the emitted dataflow of every single-location program is also instantiated and run for 4 ticks. TLC re-evaluates WellTyped on each logged term and requires: both builders succeed, emitted Rust compiles and does not panic when run, each emitted per-location DFIR graph is accepted by Partition.tla (no same-tick cycle, well-formed partition, order, delay marks, references).",
        "note": "Bounded: programs of <= 9 statements over the closed operator/closure vocabulary, two processes + one cluster, one tick per process, ExactlyOnce streams, i32 / (i32,i32) elements. Graphs built by the simulator builder are not observable through the public API (only its verdict incl. rustc). The flat graph of the production builder is rebuilt from a deep clone of the same IR with the public compile steps; equality of the re-partitioned and the emitted graph is checked.",
        "technique": "TLA+ specification (typing rules) enumerated by TLC + structure/trace validation of the real code generators' outputs by TLC",
        "design_ref": "DESIGN.md §6.18",
    },
}

SD = os.path.join(vlib.SPEC, "HydroProg")
WS = "harness_hydro"
FLOWS = os.path.join(vlib.ROOT, WS, "hv_prog_flows")
ALL_OPS = ["tcycle", "fwd", "map", "mkkv", "vals", "filter", "flatmap", "unique", "enum", "weaken", "assume", "sort",
           "fold", "count", "reduce", "max", "first", "smap", "sfilter", "into_stream", "batch", "snapshot",
           "all_ticks", "latest", "defer", "kfold", "kfold_snap", "kreduce", "send12", "send21", "bcast", "gather",
           "chain", "merge", "join", "cross_single", "filter_if_some", "unwrap_or", "zip", "map_ref", "out"]
# vocabulary of the second exhaustive job: tick-centred programs (reaches the operators that need
# several statements of set-up)
TICK_OPS = ["tcycle", "mkkv", "sort", "fold", "count", "first", "into_stream", "batch", "snapshot", "all_ticks",
            "latest", "defer", "kfold", "kfold_snap", "kreduce", "chain", "cross_single", "filter_if_some",
            "unwrap_or", "zip", "map_ref", "out"]
# development knob (sandbox mutation runs of the production half only): skip the trybuild-based
# simulator builds.  Never set by ./check users; the evidence records it.
NO_SIM = bool(os.environ.get("VERIF_HYDROPROG_NO_SIM"))
TRIVIAL_OPS = {"in1", "in2", "out", "map", "mkkv", "vals", "filter", "flatmap", "unique", "enum", "weaken", "assume"}


def _gen_cfg(name, maxstmts, vocab, maxtc, maxfwd, place_e, prune=True, emit=True, unused=0):
    p = os.path.join(vlib.rundir("cfg"), name)
    with open(p, "w") as f:
        f.write("SPECIFICATION Spec\nCONSTANTS\n  MaxStmts = %d\n  Vocab = {%s}\n  MaxTC = %d\n  MaxFwd = %d\n"
                "  PlaceE = {%s}\n  AllowUnused = %d\n  PRUNE = %s\n  EMIT = %s\nINVARIANTS Finished StepOK Emit\nCHECK_DEADLOCK FALSE\n"
                % (maxstmts, ", ".join('"%s"' % o for o in vocab), maxtc, maxfwd,
                   ", ".join('"%s"' % e for e in place_e), unused, "TRUE" if prune else "FALSE", "TRUE" if emit else "FALSE"))
    return p


def _enumerate(tag, res, **kw):
    cfg = _gen_cfg(tag + ".cfg", **kw)
    r = vlib.tlc(SD, "HydroProgGen", cfg=cfg, workers=4, timeout=2400, tag="hp_" + tag)
    if not r.ok:
        raise vlib.ToolError("HydroProgGen (%s) failed (spec error):\n%s" % (tag, r.error_trace[-3000:]))
    vlib.require_coverage(r, ["Next"])
    if res is not None:
        res.add_tlc(r, "HydroProgGen exhaustive:" + tag)
    return vlib.printed_json(r, "CASE")


def _simulate(tag, res, num, seed, **kw):
    cfg = _gen_cfg(tag + ".cfg", **kw)
    r = vlib.tlc(SD, "HydroProgGen", cfg=cfg, workers=1, timeout=2400, simulate=num, depth=14, seed_arg=seed,
                 coverage=False, tag="hp_" + tag)
    if not r.ok:
        raise vlib.ToolError("HydroProgGen simulation (%s) failed (spec error):\n%s" % (tag, r.error_trace[-3000:]))
    res.add_tlc(r, "HydroProgGen simulate:" + tag)
    return vlib.printed_json(r, "CASE")


def _features(t):
    ops = [s["op"] for s in t]
    f = set("op:" + o for o in ops)
    for s in t:
        for v in s["a"]:
            f.add("edge:%s>%s" % (t[v - 1]["op"], s["op"]))
        if s["ty"]["k"] != "none":
            f.add("ty:%s/%s/%s" % (s["op"], s["ty"]["k"], s["ty"]["l"]))
    uses = {}
    for s in t:
        for v in s["a"]:
            uses[v] = uses.get(v, 0) + 1
    for v, n in uses.items():
        if n >= 2:
            f.add("tee:" + t[v - 1]["op"])
    return f


def _select(pool, n, rnd):
    """Coverage-greedy, seeded: repeatedly take the program adding most unseen features
    (operators, producer>consumer pairs, result kinds/locations, tees); fill up at random,
    favouring larger programs."""
    items = sorted(pool.items())
    rnd.shuffle(items)
    feats = {k: _features(t) for k, t in items}
    chosen, seen = [], set()
    remaining = [k for k, _ in items]
    while remaining and len(chosen) < n:
        best, gain = None, 0
        for k in remaining:
            g = len(feats[k] - seen)
            if g > gain:
                best, gain = k, g
        if best is None:
            break
        chosen.append(best)
        seen |= feats[best]
        remaining.remove(best)
    remaining.sort(key=lambda k: -len(pool[k]))
    big = remaining[:max(4 * (n - len(chosen)), 0)]
    rnd.shuffle(big)
    chosen += big[:n - len(chosen)]
    return chosen


def _has_unused(t):
    used = {v for s in t for v in s["a"]}
    return any(j > 2 and s["ty"]["k"] != "none" and j not in used for j, s in enumerate(t, start=1))


def _select_mixed(pool, n, rnd):
    """about a quarter of the sample are programs that drop a value (Hydro attaches a null sink),
    the rest use everything they define"""
    a = {k: t for k, t in pool.items() if not _has_unused(t)}
    b = {k: t for k, t in pool.items() if _has_unused(t)}
    nb = min(len(b), n // 4)
    return _select(a, n - nb, rnd) + _select(b, nb, rnd)


def _nontrivial(t):
    return bool({s["op"] for s in t} - TRIVIAL_OPS)


def _cargo(package, bins, features=None, env=None, timeout=7200):
    """Like vlib.cargo_build, but returns (ok, output) instead of raising, and takes an environment."""
    ws = os.path.join(vlib.ROOT, WS)
    vlib.ensure_lock(ws)
    cmd = ["cargo", "build", "--offline", "--release", "-p", package]
    for b in bins:
        cmd += ["--bin", b]
    if features:
        cmd += ["--features", ",".join(features)]
    e = dict(os.environ)
    e["CARGO_NET_OFFLINE"] = "true"
    e.pop("HV_PROG_EXCLUDE", None)
    if env:
        e.update(env)
    t0 = time.time()
    try:
        p = subprocess.run(cmd, cwd=ws, env=e, stdout=subprocess.PIPE, stderr=subprocess.STDOUT, text=True,
                           errors="replace", timeout=timeout)
    except subprocess.TimeoutExpired:
        raise vlib.ToolError("cargo build timeout: %s" % package)
    vlib.log("cargo build %s: %.1fs rc=%d" % (package, time.time() - t0, p.returncode))
    return p.returncode == 0, p.stdout


def _msg_class(msg):
    first = (msg or "").strip().splitlines()[0] if (msg or "").strip() else "no-message"
    first = re.sub(r"(element|key|value)_type: [^},]*", "", first)
    first = re.sub(r"[0-9a-fA-F]{6,}", "#", first)
    first = re.sub(r"\d+", "#", first)
    return re.sub(r"[^A-Za-z#]+", "-", first)[:70].strip("-")


def _validate(rows, d, what, res):
    t = os.path.join(d, what + ".ndjson")
    vlib.write_ndjson(t, rows + [{"e": "eof"}])
    ok, r = vlib.validate_trace(SD, "HydroProgTrace", t, tag="hp_" + what, timeout=3000, xmx="6g")
    if not ok:
        raise vlib.ToolError("log not consumed by HydroProgTrace (%s):\n%s" % (what, r.error_trace[-2500:]))
    if res is not None:
        res.add_tlc(r, "trace-validation:" + what)
    viol = vlib.printed_json(r, "VIOL", required=True)[0]
    stats = vlib.printed_json(r, "STATS", required=True)[0]
    return [tuple(x) for x in viol], stats


def _events_of(rows, prog):
    return [e for e in rows if e.get("id") == prog and e["e"] == "term" or e.get("prog") == prog]


def run(tier):
    res = vlib.PropResult("C41")
    thorough = tier == "thorough"
    d = vlib.rundir("hydroprog")
    rnd = random.Random(vlib.seed())
    t0 = time.time()

    def lap(what):
        vlib.log("hydroprog: %-28s at %.0fs" % (what, time.time() - t0))

    # ---- (1) TLC: enumerate / sample the well-typed programs --------------------------------
    pool_q = {}
    with concurrent.futures.ThreadPoolExecutor(max_workers=4) as ex:
        f_all4 = ex.submit(_enumerate, "all4", res, maxstmts=4, vocab=ALL_OPS, maxtc=1, maxfwd=1, place_e=["i"])
        f_simq = ex.submit(_simulate, "sim_q", res, 700, 1000 + vlib.seed(), maxstmts=8, vocab=ALL_OPS, maxtc=1,
                           maxfwd=1, place_e=["i", "kv"], unused=1)
        if thorough:
            # pruning self-check: with and without the feasibility pruning the same programs come out
            f_a = ex.submit(_enumerate, "selfcheck_pruned", None, maxstmts=3, vocab=ALL_OPS, maxtc=1, maxfwd=1, place_e=["i"])
            f_b = ex.submit(_enumerate, "selfcheck_unpruned", res, maxstmts=3, vocab=ALL_OPS, maxtc=1, maxfwd=1,
                            place_e=["i"], prune=False)
            a, b = f_a.result(), f_b.result()
            if sorted(gen.term_name(t) for t in a) != sorted(gen.term_name(t) for t in b) or len(a) < 50:
                raise vlib.ToolError("generator pruning is not sound: %d programs with pruning, %d without" % (len(a), len(b)))
        cases = f_all4.result()
        n_exh = len(cases)
        for t in cases:
            pool_q[gen.term_name(t)] = t
        for t in f_simq.result():
            pool_q[gen.term_name(t)] = t
    if len(pool_q) < 1000:
        raise vlib.ToolError("vacuous generation: only %d programs" % len(pool_q))
    quick_names = _select_mixed(pool_q, 30, rnd)
    quick_terms = [pool_q[k] for k in quick_names]
    pool_t = dict(pool_q)
    thorough_terms = None
    if thorough:
        cases = _enumerate("all5", res, maxstmts=5, vocab=ALL_OPS, maxtc=1, maxfwd=1, place_e=["i"])
        n_exh = len(cases)
        for t in cases:
            pool_t[gen.term_name(t)] = t
        cases = _enumerate("tick6", res, maxstmts=6, vocab=TICK_OPS, maxtc=1, maxfwd=0, place_e=["i"])
        n_exh += len(cases)
        for t in cases:
            pool_t[gen.term_name(t)] = t
        with concurrent.futures.ThreadPoolExecutor(max_workers=4) as ex:
            futs = [ex.submit(_simulate, "sim_t%d" % i, vlib.PropResult("C41"), 2500, 2000 + 10 * vlib.seed() + i,
                              maxstmts=9, vocab=ALL_OPS, maxtc=2, maxfwd=1, place_e=["i", "kv"], unused=1 + i % 2)
                    for i in range(4)]
            for f in futs:
                for t in f.result():
                    pool_t[gen.term_name(t)] = t
        rest = {k: v for k, v in pool_t.items() if k not in set(quick_names)}
        thorough_terms = [rest[k] for k in _select_mixed(rest, 260, rnd)]

    lap("terms enumerated")
    # ---- (2) render --------------------------------------------------------------------------
    nq, nt, changed = gen.write_all(quick_terms, thorough_terms)
    terms = gen.read_terms()["terms"]
    progs = [(h, e, None) for h, e in gen.HAND] + [(n, "ok", terms[n]) for n in nq]
    if thorough:
        progs += [(n, "ok", terms[n]) for n in nt]
    vlib.log("hydroprog: %d programs in the pool, %d selected (sources %s)" %
             (len(pool_t), len(progs), "rewritten" if changed else "unchanged"))

    # ---- (3) build: the flows crate first (a type error there is a grammar/renderer error) --------
    ok, out = _cargo("hv_prog_flows", ["progsim"])
    if not ok:
        bad = sorted(set(re.findall(r"src/gen/progs\.rs:(\d+)", out)))[:5]
        raise vlib.ToolError("a program the grammar deems well-typed does not type-check in Rust (fix spec/HydroProg "
                             "or tools/gen_hydro_progs.py), progs.rs lines %s:\n%s" % (bad, "\n".join(out.splitlines()[-60:])))
    exclude, rustc_err = [], {}
    for attempt in range(4):
        ok, out = _cargo("hv_prog_embedded", ["progc"], features=["thorough"] if thorough else None,
                         env={"HV_PROG_EXCLUDE": ",".join(exclude)} if exclude else None)
        if ok:
            break
        names = sorted(set(re.findall(r"/out/((?:p[0-9a-f]{10})|(?:[hn]_\w+))\.rs", out)))
        names = [n for n in names if n not in exclude]
        if not names:
            raise vlib.ToolError("cargo build of hv_prog_embedded failed (not attributable to an emitted program):\n"
                                 + "\n".join(out.splitlines()[-60:]))
        for n in names:
            m = re.search(r"(error[^\n]*\n(?:[^\n]*\n){0,12}?[^\n]*/out/%s\.rs[^\n]*\n(?:[^\n]*\n){0,12})" % re.escape(n), out)
            rustc_err[n] = m.group(1) if m else "rustc rejected the emitted code"
        exclude += names
    else:
        raise vlib.ToolError("hv_prog_embedded still does not build after excluding %s" % exclude)
    bindir = os.path.join(vlib.ROOT, WS, "target", "release")
    lap("crates built")

    # ---- (4) run both builders -------------------------------------------------------------------
    prod_out = os.path.join(d, "prod.ndjson")
    p = vlib.run_bin(os.path.join(bindir, "progc"), ["prod", prod_out, "all+" if thorough else "all"], timeout=3000)
    if p.returncode != 0:
        raise vlib.ToolError("progc prod failed: " + p.stderr[-2000:])
    prod_rows = [e for e in vlib.read_ndjson(prod_out) if e["e"] != "eof"]
    run_out = os.path.join(d, "run.ndjson")
    p = vlib.run_bin(os.path.join(bindir, "progc"), ["run", run_out, "all+" if thorough else "all"], timeout=3000)
    if p.returncode != 0:
        raise vlib.ToolError("progc run failed: " + p.stderr[-2000:])
    run_rows = vlib.read_ndjson(run_out)
    sim_names = [] if NO_SIM else [n for n, _, _ in progs][:(10 + 30 + 80) if thorough else 40]
    nproc = 6

    def sim_slice(i):
        out_i = os.path.join(d, "sim_%d.ndjson" % i)
        mine = sim_names[i::nproc]
        if not mine:
            return []
        pr = vlib.run_bin(os.path.join(bindir, "progsim"), [",".join(mine), "s%d" % i, 1, out_i], timeout=6000)
        if pr.returncode != 0:
            raise vlib.ToolError("progsim failed: " + pr.stderr[-2000:])
        return vlib.read_ndjson(out_i)
    with concurrent.futures.ThreadPoolExecutor(max_workers=nproc) as ex:
        sim_rows = [e for rows in ex.map(sim_slice, range(nproc)) for e in rows]

    lap("both builders run")
    # ---- (5) TLC validates the log ---------------------------------------------------------------
    simset = set(sim_names)
    runset = {n for n, _, t in progs if (gen.runnable(t) if t is not None else n in gen.HAND_RUNNABLE)}
    term_rows = [{"e": "term", "id": n, "hand": t is None, "expect": e if t is None else "",
                  "term": t if t is not None else gen.HAND_TERMS[n],
                  "builders": ["prod"] + (["sim"] if n in simset else []) + (["run"] if n in runset else [])}
                 for n, e, t in progs]
    listed = {n for n, _, _ in progs}
    prod_rows = [e for e in prod_rows if e["prog"] in listed]
    run_rows = [e for e in run_rows if e["prog"] in listed]
    rows = term_rows + prod_rows + run_rows + sim_rows
    viol, stats = _validate(rows, d, "log", res)
    by_prog = {n: t for n, _, t in progs}
    prod_of = {e["prog"]: e for e in prod_rows if e["e"] == "prod"}
    sim_of = {e["prog"]: e for e in sim_rows}
    tool = [(pr, r) for pr, r in viol if r.startswith("TOOL:")]
    prop = [(pr, r) for pr, r in viol if r.startswith("C41:")]
    if tool and not prop:
        raise vlib.ToolError("harness inconsistency reported by HydroProgTrace: %s" % tool[:5])
    for pr, rule in sorted(viol):
        if rule.startswith("TOOL:"):
            # reported next to property-level violations: keep it visible, the violations decide
            res.drift.append({"program": pr, "harness": rule[5:]})
            continue
        ev = {"term": by_prog.get(pr), "events": _events_of(rows, pr), "rustc": rustc_err.get(pr, "")}
        if rule.startswith("NOTE:"):
            res.drift.append({"program": pr, "fact": rule[5:]})
            continue
        short = rule[4:] if rule.startswith("C41:") else rule
        if "production-generator-failed" in rule:
            e = prod_of.get(pr, {})
            cls = _msg_class(e.get("msg") or e.get("build_msg"))
        elif "simulator-builder-failed" in rule:
            cls = _msg_class(sim_of.get(pr, {}).get("msg"))
        elif "does-not-compile" in rule:
            cls = _msg_class(rustc_err.get(pr, ""))
        elif "panics-when-run" in rule:
            cls = _msg_class(next((e["msg"] for e in run_rows if e["prog"] == pr), ""))
        else:
            cls = "structure"
        res.violation("hydroprog/%s/%s" % (short, cls),
                      "%s for program %s (%s)" % (rule, pr, " ; ".join(s["op"] for s in (by_prog.get(pr) or [])) or "hand-written"),
                      ev)

    lap("log validated")
    # ---- evidence ----------------------------------------------------------------------------------
    gen_terms = [t for _, _, t in progs if t is not None]
    res.evaluations = len(progs)
    res.traces = len([e for e in prod_rows if e["e"] == "prod"]) + len(sim_rows) + len(run_rows)
    res.distinct_nontrivial = len({gen.term_name(t) for t in gen_terms if _nontrivial(t)}) + \
        len([1 for n, e, t in progs if t is None])
    res.rule = ("programs = well-typed HydroProg terms (TLC: exhaustive up to %d statements, -simulate up to 9) sampled "
                "coverage-greedily with VERIF_SEED, plus 10 hand-written ones; each compiled by the production and (first %d) "
                "the simulator builder; non-trivial = uses at least one operator beyond per-element stream operators "
                "(aggregation, tick boundary, binary operator, cycle, reference, network); distinct by term"
                % (5 if thorough else 4, len(sim_names)))
    res.extra["exhaustive"] = False
    if NO_SIM:
        res.extra["simulator_builder_skipped"] = "VERIF_HYDROPROG_NO_SIM set (development knob)"
    res.extra["programs_enumerated_exhaustively"] = n_exh
    res.extra["pool"] = len(pool_t)
    res.extra["graphs_validated"] = stats["graphs"]
    res.extra["graphs_without_same_tick_cycle"] = stats["accepted"]
    res.extra["operators_covered"] = sorted({s["op"] for t in gen_terms for s in t})
    res.extra["rustc_rejected"] = sorted(rustc_err)
    res.extra["programs_instantiated_and_run"] = len([e for e in run_rows if e["verdict"] == "ok"])
    for n, e, t in progs:
        if t is not None and len(res.samples) < 3 and len(t) >= 7:
            res.samples.append({"kind": "well-typed term with the builders' verdicts", "name": n,
                                "term": [[s["op"]] + s["a"] for s in t],
                                "prod": prod_of.get(n, {}).get("verdict"), "locations": prod_of.get(n, {}).get("locs"),
                                "sim": sim_of.get(n, {}).get("verdict")})
    res.samples.append({"kind": "hand-written ill-formed program (forward reference with a synchronous cycle)",
                        "name": "n_forward_ref_sync_cycle", "prod": prod_of.get("n_forward_ref_sync_cycle", {}).get("msg", "")[:200]})

    # ---- (6) canaries ------------------------------------------------------------------------------
    try:
        _canaries(rows, d, res)
    except (vlib.ToolError, StopIteration) as e:
        # a broken generator can leave nothing intact to corrupt; the violations found decide then
        if not res.violations:
            raise vlib.ToolError("canary failed: %s" % e)
        res.extra["canary"] = "not applicable on this log (%s)" % str(e)[:200]
    lap("canaries done")
    res.assumptions = [
        "well-typed = WellTyped of spec/HydroProg/HydroProg.tla (typing rules transcribed from the API signatures; rustc re-checks them on every rendered program)",
        "closures come from a closed vocabulary of total functions on i32 / (i32,i32)",
        "the flat graph of the production builder is rebuilt from a deep clone of the IR with the public compile steps; the rebuilt partition must equal the emitted one",
        "simulator-built graphs are not observable: only the builder's verdict (emission, partitioning, rustc) is checked",
        "validity of an emitted graph = all rules of spec/Partition/Partition.tla",
    ]
    return {"C41": res}


def _canaries(rows, d, res):
    """One corrupted copy of the log with three independent corruptions; each must be flagged."""
    import copy
    can = copy.deepcopy(rows)
    # (a) a failed simulator build of a well-typed program
    ta = next((e for e in can if e["e"] == "sim" and e["verdict"] == "ok"), None)
    if ta is None:      # no simulator rows (development knob): corrupt a production verdict instead
        ta = next(e for e in can if e["e"] == "prod" and e["verdict"] == "ok" and e["prog"].startswith("h_pipe"))
        rule_a = "C41:production-generator-failed-on-well-typed-program"
    else:
        rule_a = "C41:simulator-builder-failed-on-well-typed-program"
    ta["verdict"], ta["msg"] = "panic", "canary"
    # (b) an emitted graph whose subgraph order is reversed
    tb = next(e for e in can if e["e"] == "prog" and e["prog"] == "h_tee_state_and_tick" and e["emitted"])
    tb["P"]["topo"] = list(reversed(tb["P"]["topo"]))
    # (c) a term whose recorded type is wrong must be rejected by WellTyped
    tc = next(e for e in can if e["e"] == "term" and not e["hand"] and len(e["term"]) >= 4)
    s3 = tc["term"][2]
    s3["ty"] = dict(s3["ty"], e="kv" if s3["ty"]["e"] == "i" else "i")
    v, _ = _validate(can, d, "canary", None)
    if (ta["prog"], rule_a) not in v:
        raise vlib.ToolError("canary (failed build of a well-typed program) was NOT flagged: %s" % v[:3])
    if not any(pr == tb["prog"] and r.startswith("C41:graph:C18:order") for pr, r in v):
        raise vlib.ToolError("canary (reversed subgraph order) was NOT flagged: %s" % v[:3])
    if not any(pr == tc["id"] and r.startswith("TOOL:generated-term-is-not-well-typed") for pr, r in v):
        raise vlib.ToolError("canary (ill-typed term) was NOT rejected by WellTyped: %s" % v[:3])
    res.extra["canary"] = ("corrupted log flagged: failed build of %s; reversed subgraph order of %s; "
                           "ill-typed statement 3 of %s" % (ta["prog"], tb["prog"], tc["id"]))


def replay(pid, path):
    with open(path) as f:
        rep = json.load(f)
    d = vlib.rundir("hydroprog")
    rows = rep["case"]["events"]
    viol, _ = _validate(rows, d, "replay_one", None)
    print("recorded events re-validated; rules broken:", [r for _, r in viol if not r.startswith("TOOL:no-")])
    if rep["case"].get("rustc"):
        print("rustc said:\n" + rep["case"]["rustc"])
    return 1 if any(r.startswith("C41:") for _, r in viol) else 0
