"""C18 / C19 / C20 -- the DFIR graph compiler (dfir_lang FlatGraphBuilder, eliminate_extra_unions_tees,
merge_modules, partition_graph, serde of the meta graph, as_code).
Binding mode S (structure validation): program sources come from (a) the repository's own
dfir_syntax!/dfir_parser! programs (calibration set), (b) ProgGen.tla -- TLC enumerates every tiny
program over a 15-kind operator alphabet, (c) a seeded random generator of larger programs (nested
loops, references with access groups, inserted cycles with and without defer_tick).  The harness
(graphc run) pushes each through the REAL compiler stages and dumps the graphs through the public
DfirGraph API; TLC evaluates Partition.tla on the dumps: Accept(G') = verdict and reported cycle
is a cycle of Deps (C19), WellFormed(G', P) (C18), rewrites / module merging / serde round trip
preserve the dataflow (C20)."""
import concurrent.futures
import json
import os
import random
import re

import vlib

PROPS = ["C18", "C19", "C20"]
ENGINE = "spec/Partition: relational spec Accept / WellFormed / preservation evaluated by TLC on graph dumps of the real compiler for the repo's own programs, all TLC-enumerated tiny programs (ProgGen.tla) and seeded random larger programs"
MANIFEST = {
    "C18": {
        "text": "For every program the real partition_graph accepts (and as_code turns into code), TLC evaluates WellFormed(G',P) on the dumped flat and partitioned graphs: operators partitioned into non-empty single-loop subgraphs, each subgraph a pull in-tree / pivot / push out-tree in list order (what as_code needs), every flat edge internal or replaced by exactly one fresh handoff, delayed inputs behind handoffs marked with the (loop-remapped) delay and no other marks, reference producer/reader and access groups in different subgraphs, subgraph_toposort a permutation that respects every same-tick dependency with every loop's subgraphs contiguous; partitioner/codegen panics are violations.",
        "note": "Programs: repo corpus (~600), all ProgGen programs with <=3 operators (<=4 thorough, sampled), seeded random programs up to ~25 operators. The generated Rust is not compiled here.",
        "technique": "TLA+ relational spec evaluated by TLC on structures dumped from the real compiler (structure validation) + TLC-enumerated inputs",
        "design_ref": "DESIGN.md §6.11",
    },
    "C19": {
        "text": "TLC computes Accept(G') = no cycle among the same-tick dependencies (non-delayed pipe edges, reference producer->reader, reader->same-tick consumer of the referenced handoff, access-group order) with every loop taken as one contiguous block, and compares it with the real partition_graph verdict for every program; a reported cycle must be a closed walk of that dependency relation with the reported operator labels.",
        "note": "The diagnostic names operators by pretty-printed text only, so the reported cycle is matched by labels.",
        "technique": "TLA+ relational spec evaluated by TLC on structures dumped from the real compiler + TLC-enumerated inputs",
        "design_ref": "DESIGN.md §6.11",
    },
    "C20": {
        "text": "TLC checks on the dumps that eliminate_extra_unions_tees contracts exactly the 1-in/1-out unions and tees and leaves every other operator, argument text, loop, reference and port wiring unchanged, that merge_modules restores the original wiring after module boundaries were spliced into the real flat graph, and that serde_json round trip + insert_node_op_insts_all (what Dfir::new does) preserves operators, ports, subgraphs, handoffs, delay marks, loops and execution order.",
        "note": "Module boundaries cannot come out of the parser at this commit, so they are spliced in through the public DfirGraph API.",
        "technique": "TLA+ relational spec evaluated by TLC on structures dumped from the real compiler + TLC-enumerated inputs",
        "design_ref": "DESIGN.md §6.11",
    },
}

SD = os.path.join(vlib.SPEC, "Partition")

# ----------------------------------------------------------------------------------------------
# rendering of ProgGen's abstract programs
# ----------------------------------------------------------------------------------------------
_TINY = {
    "src": "source_iter([{i}])", "map": "map(|x| x + {i})", "union1": "union()", "union": "union()",
    "tee1": "tee()", "tee": "tee()", "join": "join()", "fold": "fold(|| {i}, |a: &mut _, b| *a += b)",
    "dt": "defer_tick()", "dtl": "defer_tick_lazy()", "sink": "for_each(|x| drop(({i}, x)))",
    "sing": "singleton()", "mapref": "map(|x| (x, {i}, #n{r}))", "batch": "batch()", "alliter": "all_iterations()",
}


def render_tiny(p):
    k = len(p["ops"])
    root, inner = [], []
    for i in range(1, k + 1):
        txt = _TINY[p["ops"][i - 1]].format(i=i, r=p["ref"][i - 1])
        (inner if p["loop"][i - 1] else root).append("n%d = %s;" % (i, txt))
    out = list(root)
    if inner:
        out.append("loop { " + " ".join(inner) + " };")
    for i in range(1, k + 1):
        srcs = p["src"][i - 1]
        for port, s in enumerate(srcs):
            if len(srcs) > 1:
                out.append("n%d -> [%d]n%d;" % (s, port, i))
            else:
                out.append("n%d -> n%d;" % (s, i))
    return "\n".join(out)


def tiny_programs(maxk, thin, ordered=False, mink=1):
    """TLC enumerates the abstract programs; returns [(id, src)]."""
    cfg = os.path.join(vlib.rundir("cfg"), "proggen_%d_%d.cfg" % (maxk, thin))
    with open(cfg, "w") as f:
        f.write("SPECIFICATION Spec\nCONSTANTS\n  MinK = %d\n  MaxK = %d\n  Thin = %d\n  Ordered = %s\nINVARIANT Emit\nCHECK_DEADLOCK FALSE\n"
                % (mink, maxk, thin, "TRUE" if ordered else "FALSE"))
    r = vlib.tlc(SD, "ProgGen", cfg=cfg, workers=1, timeout=3000, coverage=False, tag="proggen")
    if not r.ok:
        raise vlib.ToolError("ProgGen failed:\n" + r.error_trace[-2000:])
    progs = vlib.printed_json(r, "PROG")
    seen, out = set(), []
    for p in progs:
        key = json.dumps(p, sort_keys=True)
        if key in seen:
            continue
        seen.add(key)
        out.append(("tiny/%d/%s" % (len(out) + 1, "-".join(p["ops"])), render_tiny(p)))
    return out, r


# ----------------------------------------------------------------------------------------------
# seeded random larger programs
# ----------------------------------------------------------------------------------------------
_UNARY = [
    "map(|x| x + {i})", "filter(|x| *x != {i})", "inspect(|x| drop(({i}, x)))", "identity()", "unique()",
    "sort()", "persist::<'static>()", "enumerate()", "flatten()", "fold(|| {i}, |a: &mut _, b| *a += b)",
    "fold::<'static>(|| {i}, |a: &mut _, b| *a += b)", "reduce(|a: &mut _, b| *a += b + {i})",
    "fold_no_replay(|| {i}, |a: &mut _, b| *a += b)", "filter_map(|x| Some(x + {i}))", "multiset_delta()",
    "resolve_futures_blocking()",
]
_BINARY = [
    ("join()", ["0", "1"]), ("join::<'tick, 'static>()", ["0", "1"]), ("cross_join()", ["0", "1"]),
    ("difference()", ["pos", "neg"]), ("anti_join()", ["pos", "neg"]), ("zip()", ["0", "1"]),
    ("chain()", ["0", "1"]), ("cross_singleton()", ["input", "single"]), ("join_multiset()", ["0", "1"]),
]


class _Gen:
    def __init__(self, rng, size):
        self.r = rng
        self.size = size
        self.nodes = []      # dicts: text, loop
        self.links = []      # (src, srcport or None, dst, dstport or None)
        self.loops = [None]  # index = loop id, value = parent (loop 0 = root)
        self.avail = {0: []}  # ctx -> list of (node, outport)
        self.unions = []     # (node, ctx)
        self.targets = []    # (node, ctx, mode) mode: "plain" | "grouped"
        self.readers = {}    # target -> list of (group, mut)

    def node(self, text, ctx):
        self.nodes.append({"text": text, "loop": ctx})
        return len(self.nodes)

    def take(self, ctx):
        lst = self.avail.get(ctx, [])
        if not lst:
            return None
        return lst.pop(self.r.randrange(len(lst)))

    def give(self, ctx, n, port=None):
        self.avail.setdefault(ctx, []).append((n, port))

    def link(self, a, b, dport=None):
        self.links.append((a[0], a[1], b, dport))

    def ctxs_with(self, k=1):
        return [c for c, l in self.avail.items() if len(l) >= k]

    def step(self):
        r = self.r
        i = len(self.nodes) + 1
        roll = r.random()
        if self.ctxs_with():
            special = r.random()
            if special < 0.04 and self.borrow_chain():
                return
            if special < 0.09 and self.ported_fanout():
                return
            if special < 0.12 and self.nested_defer_loop():
                return
        if roll < 0.08 or not self.ctxs_with():
            n = self.node("source_iter([%d])" % i, 0)
            self.give(0, n)
            return
        if roll < 0.16 and len(self.loops) < 5:
            # enter a (new or existing) child loop of some context through a windowing operator
            c = r.choice(self.ctxs_with())
            kids = [l for l in range(1, len(self.loops)) if self.loops[l] == c]
            if kids and r.random() < 0.5:
                l = r.choice(kids)
            else:
                self.loops.append(c)
                l = len(self.loops) - 1
            a = self.take(c)
            n = self.node(r.choice(["batch()", "batch()", "batch_lazy()"]), l)
            self.link(a, n)
            self.give(l, n)
            return
        if roll < 0.22:
            inner = [c for c in self.ctxs_with() if c != 0]
            if inner:
                c = r.choice(inner)
                a = self.take(c)
                n = self.node("all_iterations()", self.loops[c])
                self.link(a, n)
                self.give(self.loops[c], n)
                return
        if roll < 0.34 and self.ctxs_with(2):
            c = r.choice(self.ctxs_with(2))
            if r.random() < 0.4:
                k = min(len(self.avail[c]), r.choice([2, 2, 3]))
                n = self.node("union()", c)
                for _ in range(k):
                    self.link(self.take(c), n)
                self.unions.append((n, c))
            else:
                text, ports = r.choice(_BINARY)
                n = self.node(text, c)
                for p in ports:
                    self.link(self.take(c), n, p)
            self.give(c, n)
            return
        c = r.choice(self.ctxs_with())
        if roll < 0.44:
            a = self.take(c)
            if r.random() < 0.2:
                n = self.node("unzip()", c)
                self.link(a, n)
                self.give(c, n, "0")
                self.give(c, n, "1")
            else:
                k = r.choice([1, 2, 2, 3])
                n = self.node("tee()", c)
                self.link(a, n)
                for _ in range(k):
                    self.give(c, n)
            return
        if roll < 0.50:
            a = self.take(c)
            n = self.node(r.choice(["for_each(|x| drop((%d, x)))" % i, "null()", "for_each(|x| drop((%d, x)))" % i]), c)
            self.link(a, n)
            return
        if roll < 0.58:
            a = self.take(c)
            kind = r.choice(["singleton()", "singleton()", "optional()", "handoff()"])
            n = self.node(kind, c)
            self.link(a, n)
            self.targets.append((n, c, r.choice(["plain", "plain", "grouped"])))
            if r.random() < 0.5:
                self.give(c, n)
            return
        if roll < 0.68 and [x for x in self.targets if x[2] != "chain"]:
            t, tc, mode = r.choice([x for x in self.targets if x[2] != "chain"])
            rs = self.readers.setdefault(t, [])
            a = self.take(c)
            if mode == "grouped":
                g = r.randrange(3)
                alone = not any(x[0] == g for x in rs)
                mut = alone and r.random() < 0.3
                if any(x[0] == g and x[1] for x in rs):
                    g = 3 + len(rs)
                rs.append((g, mut))
                ref = "#{%d} %sn%d" % (g, "mut " if mut else "", t)
            else:
                rs.append((-1, False))
                ref = "#n%d" % t
            n = self.node("map(|x| (x, %d, %s))" % (i, ref), c)
            self.link(a, n)
            self.give(c, n)
            return
        if roll < 0.76 and self.unions:
            # deliberately inserted cycle candidate: feed an output back into an earlier union
            u, uc = r.choice(self.unions)
            if self.avail.get(uc):
                a = self.take(uc)
                kind = r.random()
                if kind < 0.45:
                    n = self.node(r.choice(["defer_tick()", "defer_tick_lazy()"]), uc)
                    self.link(a, n)
                    self.link((n, None), u)
                elif kind < 0.7:
                    n = self.node("map(|x| x + %d)" % i, uc)
                    self.link(a, n)
                    self.link((n, None), u)
                else:
                    self.link(a, u)
                return
        a = self.take(c)
        roll2 = r.random()
        if roll2 < 0.1:
            text = r.choice(["union()", "tee()"])          # unary union / tee: removed by the rewrite
        elif roll2 < 0.22:
            text = r.choice(["defer_tick()", "defer_tick_lazy()"])
        else:
            text = r.choice(_UNARY).format(i=i)
        n = self.node(text, c)
        self.link(a, n)
        self.give(c, n)

    # ---- shapes the seeded-bug campaign showed to matter --------------------------------------
    def borrow_chain(self):
        """A handoff referenced with 3-4 access groups by a pipeline of borrowers; the group numbers are a random
        permutation along the pipe, so a later-group borrower often feeds an earlier-group one (access-order
        cycle, must be rejected) and sometimes the order is consistent (must be accepted and ordered)."""
        r = self.r
        c = r.choice(self.ctxs_with())
        if len(self.avail[c]) < 2:
            return False
        a = self.take(c)
        t = self.node(r.choice(["singleton()", "optional()", "handoff()"]), c)
        self.link(a, t)
        self.targets.append((t, c, "chain"))
        k = r.choice([3, 3, 4])
        groups = list(range(k))
        if r.random() < 0.7:
            r.shuffle(groups)
        b = self.take(c)
        prev = b
        for g in groups:
            i = len(self.nodes) + 1
            mut = "mut " if r.random() < 0.3 else ""
            n = self.node("map(|x| (x, %d, #{%d} %sn%d))" % (i, g, mut, t), c)
            self.link(prev, n)
            prev = (n, None)
        self.give(c, prev[0])
        return True

    def ported_fanout(self):
        """Labelled output ports (partition / demux_enum / unzip()[i] / tee()[n]) immediately upstream of a unary
        union/tee or of a chain of two of them (the rewrite must carry the port label through)."""
        r = self.r
        c = r.choice(self.ctxs_with())
        a = self.take(c)
        i = len(self.nodes) + 1
        kind = r.choice(["unzip", "tee", "partition-int", "partition-named", "demux"])
        if kind == "unzip":
            text, ports = "unzip()", ["0", "1"]
        elif kind == "tee":
            text, ports = "tee()", [str(x) for x in range(r.choice([2, 3]))]
        elif kind == "partition-int":
            k = r.choice([2, 3])
            text, ports = "partition(|v: &usize, len| (*v + %d) %% len)" % i, [str(x) for x in range(k)]
        elif kind == "partition-named":
            text, ports = "partition(|v: &usize, [evens, odds]| if *v %% 2 == %d { evens } else { odds })" % (i % 2), ["evens", "odds"]
        else:
            text, ports = "demux_enum::<Shape%d>()" % i, ["Square", "Circle"]
        f = self.node(text, c)
        self.link(a, f)
        for port in ports:
            roll = r.random()
            prev = (f, port)
            for _ in range(0 if roll < 0.3 else 1 if roll < 0.65 else 2):
                n = self.node(r.choice(["union()", "tee()"]), c)
                self.link(prev, n)
                prev = (n, None)
            if prev[0] == f:
                self.give(c, f, port)
            else:
                self.give(c, prev[0])
        return True

    def nested_defer_loop(self):
        """A nested loop with a non-lazy defer_tick back edge and a defer_tick_lazy back edge into the same union."""
        r = self.r
        if len(self.loops) > 6:
            return False
        c = r.choice(self.ctxs_with())
        a = self.take(c)
        self.loops.append(c)
        l1 = len(self.loops) - 1
        self.loops.append(l1)
        l2 = len(self.loops) - 1
        b1 = self.node("batch()", l1)
        self.link(a, b1)
        b2 = self.node(r.choice(["batch()", "batch_lazy()"]), l2)
        self.link((b1, None), b2)
        u = self.node("union()", l2)
        self.link((b2, None), u)
        t = self.node("tee()", l2)
        self.link((u, None), t)
        for op in ("defer_tick()", "defer_tick_lazy()"):
            i = len(self.nodes) + 1
            dn = self.node(op, l2)
            self.link((t, None), dn)
            f = self.node("filter(|x| *x < %d)" % i, l2)
            self.link((dn, None), f)
            self.link((f, None), u)
        self.unions.append((u, l2))
        ex = self.node("all_iterations()", l1)
        self.link((t, None), ex)
        self.give(l1, ex)
        return True

    def finish(self):
        # close every open output
        for c in sorted(self.avail, reverse=True):
            while self.avail[c]:
                a = self.take(c)
                i = len(self.nodes) + 1
                n = self.node("for_each(|x| drop((%d, x)))" % i, c)
                self.link(a, n)

    def render(self):
        def block(ctx, ind):
            out = []
            for i, nd in enumerate(self.nodes, 1):
                if nd["loop"] == ctx:
                    out.append(ind + "n%d = %s;" % (i, nd["text"]))
            for l in range(1, len(self.loops)):
                if self.loops[l] == ctx:
                    out.append(ind + "loop {")
                    out += block(l, ind + "    ")
                    out.append(ind + "};")
            return out
        out = block(0, "")
        for a, ap, b, bp in self.links:
            out.append("n%d%s -> %sn%d;" % (a, "[%s]" % ap if ap else "", "[%s]" % bp if bp else "", b))
        return "\n".join(out)


def random_programs(count, seed, lo=6, hi=24):
    rng = random.Random(seed * 7919 + 17)
    out = []
    for k in range(count):
        g = _Gen(rng, 0)
        for _ in range(rng.randint(1, 3)):
            n = g.node("source_iter([%d])" % (len(g.nodes) + 1), 0)
            g.give(0, n)
        for _ in range(rng.randint(lo, hi)):
            g.step()
        g.finish()
        out.append(("rand/%d/%d" % (seed, k + 1), g.render()))
    return out


# hand-written programs covering situations the generators reach rarely (each is an ordinary input)
EXTRA = [
    ("extra/ref-into-loop", """
src2 = source_iter([1]);
src3 = source_iter([2]);
loop {
    b1 = src2 -> batch() -> for_each(|x| drop(x));
    b2 = src3 -> batch() -> map(|x| x + *#sing) -> for_each(|x| drop(x));
};
sing = source_iter([10]) -> fold(|| 0, |a: &mut i32, b| *a += b) -> singleton();
"""),
    ("extra/ref-into-loop-block-cycle", """
a = source_iter([1]);
b = source_iter([2]);
loop {
    x = a -> batch() -> map(|v| v + 1);
    y = b -> batch() -> map(|v| (v, #s)) -> for_each(|v| drop(v));
};
x -> all_iterations() -> fold(|| 0, |a: &mut i32, b| *a += b) -> s;
s = singleton();
"""),
    ("extra/loop-ingress-3048", """
inp1 = source_iter([1, 2, 3]);
loop {
    inp1 -> batch() -> for_each(|x| drop((1, x)));
    inp2 -> batch() -> for_each(|x| drop((2, x)));
};
inp2 = source_iter([4, 5, 6]);
"""),
    ("extra/access-group-cycle", """
s = source_iter([1]) -> fold(|| 0, |a: &mut i32, b| *a += b) -> singleton();
source_iter([1, 2]) -> map(|v| (v, #{1} s)) -> map(|v| (v, #{0} s)) -> for_each(|v| drop(v));
"""),
    ("extra/access-group-order", """
s = source_iter([1]) -> fold(|| 0, |a: &mut i32, b| *a += b) -> singleton();
source_iter([1, 2]) -> map(|v| (v, #{0} s)) -> map(|v| (v, #{1} mut s)) -> for_each(|v| drop(v));
"""),
    ("extra/unary-union-self-loop", "u = union();\nu -> u;\n"),
    ("extra/unary-ring", "a = map(|x| x);\nb = union();\na -> b;\nb -> a;\n"),
    ("extra/delayed-consumer-of-referenced-handoff", """
src = source_iter([1]) -> h;
h = handoff();
h -> defer_tick() -> map(|x| x + #h.len()) -> for_each(|x| drop(x));
"""),
    ("extra/tee-fold-singleton-reader", """
a = source_iter([1]) -> tee();
a -> fold(|| 0, |a: &mut i32, b| *a += b) -> s;
s = singleton();
a -> map(|x| x + *#s) -> for_each(|x| drop(x));
"""),
    ("extra/loop-without-entry", "loop { x = null() -> tee(); x -> for_each(drop); x -> for_each(drop); };\n"),
    ("extra/nested-loops", """
a = source_iter([1]);
loop {
    b = a -> batch();
    loop {
        d = b -> batch() -> map(|x| x + 1);
    };
    c = d -> all_iterations() -> map(|x| x + 2);
};
c -> all_iterations() -> for_each(|x| drop(x));
"""),
    ("extra/defer-in-nested-loop", """
a = source_iter([1]);
loop {
    b = a -> batch();
    loop {
        u = union() -> tee();
        b -> batch() -> u;
        u -> defer_tick() -> filter(|x| *x < 3) -> u;
        d = u -> map(|x| x);
    };
    d -> all_iterations() -> for_each(|x| drop(x));
};
"""),
    ("extra/access-groups", """
s = source_iter([1]) -> fold(|| 0, |a: &mut i32, b| *a += b) -> singleton();
t = source_iter([1, 2]) -> tee();
t -> map(|x| (x, #{0} s)) -> for_each(|x| drop(x));
t -> map(|x| (x, #{1} mut s)) -> for_each(|x| drop(x));
t -> map(|x| (x, #{2} s)) -> for_each(|x| drop(x));
"""),
]


def repo_programs(exe, d):
    out = os.path.join(d, "repo_progs.ndjson")
    dirs = [os.path.join(vlib.REPO, p) for p in ("dfir_rs/tests", "dfir_rs/examples", "dfir_rs/src", "dfir_lang/src")]
    p = vlib.run_bin(exe, ["extract", out] + [x for x in dirs if os.path.exists(x)])
    if p.returncode != 0:
        raise vlib.ToolError("graphc extract failed: " + p.stderr[-2000:])
    rows = vlib.read_ndjson(out)
    return [("repo/" + os.path.relpath(r["id"], vlib.REPO), r["src"]) for r in rows]


def all_programs(exe, d, tier):
    """The program corpus shared by C18-C20 and C42: [(id, src)], plus TLC results of the generators."""
    thorough = tier == "thorough"
    progs = repo_programs(exe, d)
    n_repo = len(progs)
    tiny, r1 = tiny_programs(3, 1)
    tl = [r1]
    if thorough:
        t4, r2 = tiny_programs(4, 10, mink=4)
        tiny += t4
        tl.append(r2)
    rnd = random_programs(1500 if thorough else 220, vlib.seed())
    return progs + tiny + EXTRA + rnd, {"repo": n_repo, "tiny": len(tiny), "extra": len(EXTRA), "random": len(rnd)}, tl


# ----------------------------------------------------------------------------------------------
def _validate_one(args):
    path, tag = args
    return vlib.validate_trace(SD, "PartitionTrace", path, tag=tag, timeout=2400, xmx="6g")


def evaluate(rows, d, what, res_list, chunks=4):
    """TLC evaluates Partition.tla on the prog records; returns (viol, drift)."""
    rows = [r for r in rows if r.get("e") == "prog"]
    n = max(1, min(chunks, (len(rows) + 99) // 100))
    # balance by size
    order = sorted(range(len(rows)), key=lambda i: -len(rows[i]["P"]["nodes"]) - len(rows[i]["G"]["nodes"]))
    parts = [[] for _ in range(n)]
    for j, i in enumerate(order):
        parts[j % n].append(rows[i])
    jobs = []
    for i, part in enumerate(parts):
        p = os.path.join(d, "%s_part%d.ndjson" % (what, i))
        vlib.write_ndjson(p, part + [{"e": "eof"}])
        jobs.append((p, "pt_%s_%d" % (what, i)))
    viol, drift = [], []
    with concurrent.futures.ThreadPoolExecutor(max_workers=min(n, 4)) as ex:
        for (ok, r), (p, _t) in zip(ex.map(_validate_one, jobs), jobs):
            if not ok:
                raise vlib.ToolError("records not consumed by PartitionTrace (%s):\n%s" % (what, r.error_trace[-2500:]))
            v = vlib.printed_json(r, "VIOL")
            if not v:
                raise vlib.ToolError("PartitionTrace printed no VIOL line (%s)" % what)
            viol += v[0]
            dr = vlib.printed_json(r, "DRIFT")
            drift += dr[0] if dr else []
            for res in res_list:
                res.add_tlc(r, "structure-validation:" + what)
    return viol, drift


def _algo_one(args):
    path, tag = args
    return vlib.validate_trace(SD, "PartitionAlgoTrace", path, tag=tag, timeout=3000, xmx="6g")


def model_crosscheck(rows, viol, d, tier, res):
    """PartitionAlgo.tla (implementation-shaped model of partition_graph) is run by TLC on the flat graph of
    the selected programs: (a) design level -- which C18/C19 rules does the MODEL's outcome break (the known
    findings must show up here too); (b) conformance -- the model's verdict / subgraphs / order / handoffs /
    marks against the real partitioner's (exact; differences are drift)."""
    thorough = tier == "thorough"
    reached = [r for r in rows if r["verdict"] in ("ok", "err", "panic")]
    if thorough:
        sel = reached
    else:
        small = [r for r in reached if r["id"].startswith(("tiny/", "extra/"))]
        sel = [r for r in small if r["id"].startswith("extra/")] + [r for r in small if r["id"].startswith("tiny/")][::8]
    n = 4 if thorough else 2
    order = sorted(range(len(sel)), key=lambda i: -len(sel[i]["G1"]["nodes"]))
    parts = [[] for _ in range(n)]
    for j, i in enumerate(order):
        parts[j % n].append(sel[i])
    jobs = []
    for i, part in enumerate(parts):
        p = os.path.join(d, "algo_part%d.ndjson" % i)
        vlib.write_ndjson(p, part + [{"e": "eof"}])
        jobs.append((p, "pa_%d" % i))
    mviol, mdrift, cnt = [], [], 0
    with concurrent.futures.ThreadPoolExecutor(max_workers=min(n, 4)) as ex:
        for (ok, r), (p, _t) in zip(ex.map(_algo_one, jobs), jobs):
            if not ok:
                raise vlib.ToolError("records not consumed by PartitionAlgoTrace:\n%s" % r.error_trace[-2500:])
            v = vlib.printed_json(r, "MVIOL")
            if not v:
                raise vlib.ToolError("PartitionAlgoTrace printed no MVIOL line")
            mviol += v[0]
            dr = vlib.printed_json(r, "MDRIFT")
            mdrift += dr[0] if dr else []
            for line in r.printed:
                m = re.match(r'^<<"MSTAT", (\d+)>>$', line)
                if m:
                    cnt += int(m.group(1))
            for x in res:
                x.add_tlc(r, "PartitionAlgo model vs relational spec and vs real partition_graph")
    if cnt != len(sel) or cnt < 100:
        raise vlib.ToolError("PartitionAlgo ran on %d of %d selected programs" % (cnt, len(sel)))
    ids = {r["id"] for r in sel}
    cg_ok = {r["id"] for r in sel if r["verdict"] != "ok" or r["codegen"] == "ok"}

    def norm(pairs):
        out = {}
        for i, rule in pairs:
            if i not in ids or not rule.startswith(("C18:", "C19:")):
                continue
            if "code-generation-panicked" in rule or "reported-cycle" in rule:
                continue
            if i not in cg_ok and rule.startswith("C18:") and "partitioner-panicked" not in rule:
                continue            # as_code rejected the program: C18 is not evaluated on the real side
            out.setdefault(i, set()).add(rule)
        return out
    m, c = norm(mviol), norm(viol)
    disagree = sorted(i for i in set(m) | set(c) if m.get(i, set()) != c.get(i, set()))
    by_rule = {}
    for i, rules in m.items():
        for rule in rules:
            by_rule[rule] = by_rule.get(rule, 0) + 1
    info = {"programs": cnt, "model_counterexamples_by_rule": by_rule,
            "model_vs_code_exact_differences": len(mdrift),
            "programs_where_model_and_code_break_different_rules": len(disagree)}
    for x in res:
        x.extra["partition_algo_model"] = info
        for i, what in sorted(mdrift)[:10]:
            x.drift.append({"kind": "PartitionAlgo outcome differs from partition_graph", "program": i, "what": what})
        for i in disagree[:10]:
            x.drift.append({"kind": "PartitionAlgo and partition_graph break different C18/C19 rules", "program": i,
                            "model": sorted(m.get(i, [])), "code": sorted(c.get(i, []))})
    return info


def _san(s):
    return re.sub(r"[^A-Za-z0-9]+", "-", s).strip("-")[:60]


def fingerprint(rule, rec):
    """<area>/<rule>[/<input class>] -- the rule names already carry the dependency class."""
    name = rule.split(":", 1)[1]
    if "panicked" in name:
        msg = (rec.get("msgs") or [rec.get("rewrite", "")])[0] if rec else ""
        if rec and rec.get("stage") == "rewrite-panic":
            msg = rec.get("rewrite", "")
        msg = re.sub(r"[0-9]+v[0-9]+|[0-9]+", "N", msg.split("\n")[0])
        return "partition/%s/%s" % (name, _san(msg))
    return "partition/" + name


def run(tier):
    thorough = tier == "thorough"
    res = {p: vlib.PropResult(p) for p in PROPS}
    bindir = vlib.cargo_build("hv_graph", bins=["graphc"])
    exe = os.path.join(bindir, "graphc")
    d = vlib.rundir("partition")

    progs, counts, tlcs = all_programs(exe, d, tier)
    for r in tlcs:
        for x in res.values():
            x.add_tlc(r, "ProgGen enumeration")
    pf = os.path.join(d, "progs.ndjson")
    vlib.write_ndjson(pf, [{"id": i, "src": s} for i, s in progs])
    out = os.path.join(d, "run.ndjson")
    p = vlib.run_bin(exe, ["run", pf, out, "mod"], timeout=3000)
    if p.returncode != 0:
        raise vlib.ToolError("graphc run failed: " + p.stderr[-2000:])
    summ = json.loads(p.stdout.strip().splitlines()[-1])
    rows = [r for r in vlib.read_ndjson(out) if r.get("e") == "prog"]
    by_id = {r["id"]: r for r in rows}
    src_of = dict(progs)
    stages = summ["stages"]
    # anti-vacuity: every kind of outcome must occur
    accepted = [r for r in rows if r["verdict"] == "ok" and r["codegen"] == "ok"]
    rejected = [r for r in rows if r["verdict"] == "err"]
    vacuous = None
    if len(accepted) < 500 or len(rejected) < 50:
        vacuous = "vacuous run: %d accepted, %d rejected programs (%s)" % (len(accepted), len(rejected), stages)
    feats = {
        "handoff-inserted": sum(1 for r in accepted if len(r["P"]["nodes"]) > len(r["G1"]["nodes"])),
        "delay-marked": sum(1 for r in accepted if any(n["delay"] for n in r["P"]["nodes"])),
        "loop-remapped": sum(1 for r in accepted if any(n["delay"] in ("loop", "looplazy") for n in r["P"]["nodes"])),
        "references": sum(1 for r in accepted if any(n["refs"] for n in r["P"]["nodes"])),
        "access-groups": sum(1 for r in accepted if any(x["grp"] >= 0 for n in r["P"]["nodes"] for x in n["refs"])),
        "nested-loops": sum(1 for r in accepted if any(l["parent"] for l in r["P"]["loops"])),
        "unary-removed": sum(1 for r in rows if r["rewrite"] == "ok" and len(r["G1"]["nodes"]) < len(r["G"]["nodes"])),
        "modules-spliced": sum(1 for r in rows if r["mod"] == "ok"),
        "multi-node-subgraph": sum(1 for r in accepted if any(len(s["nodes"]) >= 3 for s in r["P"]["sgs"])),
        "cycle-with-delay-accepted": sum(1 for r in accepted if any(e["delay"] for e in r["G1"]["edges"])),
    }
    empty = [k for k, v in feats.items() if v == 0]
    if empty and not vacuous:
        vacuous = "vacuous run: features never exercised: %s" % empty

    viol, drift = evaluate(rows, d, "all", list(res.values()), chunks=8 if thorough else 4)
    known = {(k["property"], k["fingerprint"]) for k in vlib.load_known().get("findings", [])}
    fresh = [v for v in viol if (v[1].split(":", 1)[0], fingerprint(v[1], next((r for r in rows if r["id"] == v[0]), {}))) not in known]
    # a run that exercised too little is a tool error -- unless the real code already misbehaved in a way
    # that is not a listed finding (then the shortfall is a symptom and the violations are reported)
    if vacuous and not fresh:
        raise vlib.ToolError(vacuous)

    # implementation-shaped model of the partitioner: design check + exact conformance
    model_crosscheck(rows, viol, d, tier, [res["C18"], res["C19"]])

    # canary: corrupt good records; the spec must flag each
    good = [r for r in accepted if len(r["P"]["sgs"]) >= 2 and len(r["P"]["nodes"]) > len(r["G1"]["nodes"])
            and not any(e["delay"] for e in r["P"]["edges"]) and not r["P"]["loops"]]
    if (not good or not rejected) and not fresh:
        raise vlib.ToolError("no record suitable for the canary")
    if good and rejected:
        can = []
        c1 = json.loads(json.dumps(good[0]))
        c1["id"] = "canary/reversed-toposort"
        c1["P"]["topo"] = list(reversed(c1["P"]["topo"]))
        c1["P2"]["topo"] = list(c1["P"]["topo"])
        can.append(c1)
        c2 = json.loads(json.dumps(rejected[0]))
        c2["id"] = "canary/rejected-flipped-to-accepted"
        c2["verdict"] = "ok"
        c2["codegen"] = "err"
        c2["serde"] = "ok"
        can.append(c2)
        c3 = json.loads(json.dumps(good[0]))
        c3["id"] = "canary/serde-dropped-edge"
        c3["P2"]["edges"] = c3["P2"]["edges"][1:]
        can.append(c3)
        tmp = [vlib.PropResult("C18")]
        cviol, _ = evaluate(can, d, "canary", tmp, chunks=1)
        cv = {}
        for i, rule in cviol:
            cv.setdefault(i, []).append(rule)
        if not any(x.startswith("C18:order-") for x in cv.get("canary/reversed-toposort", [])) \
                or not any(x.startswith("C19:accepted-a-graph-with-a-same-tick-cycle") for x in cv.get("canary/rejected-flipped-to-accepted", [])) \
                or "C20:json-round-trip-changed-the-port-wiring" not in cv.get("canary/serde-dropped-edge", []):
            raise vlib.ToolError("canaries not rejected by Partition.tla: %s" % cv)

    # distribute
    checked = {"C18": accepted,
               "C19": [r for r in rows if r["verdict"] in ("ok", "err", "panic")],
               "C20": [r for r in rows if r["stage"] not in ("parse-error", "build-error", "build-panic")]}
    nontriv = {
        "C18": lambda r: len(r["P"]["sgs"]) >= 2 and len(r["P"]["nodes"]) > len(r["G1"]["nodes"]),
        "C19": lambda r: r["verdict"] != "ok" or any(e["delay"] for e in r["G1"]["edges"]) or len(r["G1"]["loops"]) > 0,
        "C20": lambda r: len(r["G1"]["nodes"]) < len(r["G"]["nodes"]) or r["mod"] == "ok" or r["serde"] == "ok",
    }
    for pid, x in res.items():
        x.traces = len(checked[pid])
        x.evaluations = len(checked[pid])
        x.distinct_nontrivial = len({src_of.get(r["id"], r["id"]) for r in checked[pid] if nontriv[pid](r)})
        x.extra["program_sources"] = counts
        x.extra["stages"] = stages
        x.extra["features_exercised"] = feats
        x.extra["canary"] = "reversed toposort / flipped verdict / dropped edge after serde all rejected"
        x.assumptions = ["the generated Rust code is not compiled here; pipeline shape is checked in the form as_code consumes it",
                         "operators are identified in the reported cycle by their pretty-printed text",
                         "module boundaries are spliced into the real flat graph through the public DfirGraph API"]
    res["C18"].rule = "programs = distinct DFIR sources accepted by partition_graph and as_code; non-trivial = >=2 subgraphs and >=1 inserted handoff"
    res["C19"].rule = "programs = distinct DFIR sources that reached partition_graph; non-trivial = rejected, or containing a delayed edge, or containing a loop"
    res["C20"].rule = "programs = distinct DFIR sources with a flat graph; non-trivial = a unary union/tee was removed, or module boundaries were spliced and merged, or the partitioned graph went through the JSON round trip"
    for pid, x in res.items():
        pool = [r for r in checked[pid] if nontriv[pid](r) and r["id"].startswith("rand/")]
        for r in pool[:2]:
            x.samples.append({"kind": "random program", "id": r["id"], "source": src_of[r["id"]], "verdict": r["verdict"],
                              "subgraphs": [s["nodes"] for s in r["P"]["sgs"]], "toposort": r["P"]["topo"]})
        pool = [r for r in checked[pid] if nontriv[pid](r) and r["id"].startswith("tiny/")]
        for r in pool[:1]:
            x.samples.append({"kind": "TLC-enumerated tiny program", "id": r["id"], "source": src_of[r["id"]], "verdict": r["verdict"]})
    for i, fact in drift[:10]:
        res["C20"].drift.append({"kind": "implementation fact", "fact": fact, "program": i})
    for i, rule in sorted(viol):
        pid = rule.split(":", 1)[0]
        rec = by_id.get(i, {})
        res[pid].violation(fingerprint(rule, rec), "%s on program %s" % (rule, i),
                           {"id": i, "src": src_of.get(i, ""), "rule": rule,
                            "stage": rec.get("stage"), "msgs": rec.get("msgs"), "rewrite": rec.get("rewrite")})
    return res


def replay(pid, path):
    with open(path) as f:
        rep = json.load(f)
    bindir = vlib.cargo_build("hv_graph", bins=["graphc"])
    exe = os.path.join(bindir, "graphc")
    d = vlib.rundir("partition")
    pf = os.path.join(d, "replay_prog.ndjson")
    vlib.write_ndjson(pf, [{"id": rep["case"]["id"], "src": rep["case"]["src"]}])
    out = os.path.join(d, "replay_run.ndjson")
    p = vlib.run_bin(exe, ["run", pf, out, "mod"])
    if p.returncode != 0:
        raise vlib.ToolError("graphc run failed: " + p.stderr[-2000:])
    rows = vlib.read_ndjson(out)
    tmp = [vlib.PropResult(pid)]
    viol, _ = evaluate(rows, d, "replay_one", tmp, chunks=1)
    mine = [v for v in viol if v[1].startswith(pid + ":")]
    print("program recompiled and re-validated; rules broken:", viol)
    return 1 if mine else 0
