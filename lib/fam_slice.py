"""C31 -- slices partition streams and take monotone snapshots; all hooks of one slice are
taken at the same point; slice-local state carries over.
Jobs: (1) TLC exhaustive on SliceImpl (tick model of slice execution x the Slice monitor,
all inputs and all hook choices); (2) TLC (SliceGen) generates every small input script for
the corpus of sliced! programs; the harness runs each in the Hydro simulator under exhaustive
schedules and records every hook's batch / snapshot / state per slice execution; TLC validates
each explored schedule against the monitor; (3) seeded random larger scripts; (4) canaries."""
import json
import os
import re

import vlib

PROPS = ["C31"]
ENGINE = "spec/Slice: C31 monitor + tick model of slice execution (TLC exhaustive), TLC-generated input scripts run on a corpus of sliced! programs under simulator-exhaustive schedules, per-hook observations validated by TLC"
MANIFEST = {
    "C31": {
        "text": "TLC exhaustively checks a tick model of slice execution (batch hooks release prefixes, the snapshot hook a not-older version, state cycles through the tick) against the C31 monitor for all inputs <=2-3 per port and all hook choices. A corpus of three sliced! programs (batch + singleton state; two batch hooks + snapshot hook + slice counter; batch + carried stream state) runs in the Hydro simulator under exhaustive schedules on every TLC-generated small script and on seeded random larger ones; every hook's observation per slice execution is recorded; TLC validates: batches concatenate to the input in order (partition), snapshot versions never go back, the k-th observation of every hook belongs to slice k and all hooks have the same number of observations, state of slice k+1 starts from the state slice k left.",
        "note": "Simulator only (the production-codegen half of the quantifier is not covered here). TotalOrder inputs. 'Taken at the same point' is checked as: every hook fires exactly once in every slice execution (slice counter carried in use::state).",
        "technique": "TLA+ spec model-checked with TLC + conformance (TLC cases replayed into the code under exhaustive simulator schedules; code traces validated by TLC)",
        "design_ref": "DESIGN.md §6.14 (C31)",
    },
}

SD = os.path.join(vlib.SPEC, "Slice")
CRATE = os.path.join(vlib.ROOT, "harness_hydro", "hv_std")
ACTIONS = ["Send", "Tick", "Quiesce"]


def _cfg(name, text):
    p = os.path.join(vlib.rundir("cfg"), name)
    with open(p, "w") as f:
        f.write(text)
    return p


def _build(binname):
    """cargo build; the workspace is shared with other families, whose half-written crates can
    break a build transiently -- retry before giving up."""
    import time
    for attempt in range(3):
        try:
            return vlib.cargo_build("hv_std", bins=[binname], features=["runner"], workspace="harness_hydro")
        except vlib.ToolError:
            if attempt == 2:
                raise
            time.sleep(20)


def _run_harness(exe, args):
    p = vlib.run_bin(exe, args, cwd=CRATE, env={"CARGO_MANIFEST_DIR": CRATE}, timeout=3000)
    if p.returncode != 0:
        raise vlib.ToolError("%s %s failed: %s" % (os.path.basename(exe), args[0], p.stderr[-3000:]))
    return json.loads(p.stdout.strip().splitlines()[-1])


def _validate(trace, res, what):
    ok, r = vlib.validate_trace(SD, "SliceTrace", trace, tag="slice_" + what, timeout=1500)
    if not ok:
        raise vlib.ToolError("trace not consumed by SliceTrace (%s):\n%s" % (what, r.error_trace[-2000:]))
    viol = vlib.printed_json(r, "VIOL")
    if res is not None:
        res.add_tlc(r, "trace-validation:" + what)
    return viol[0] if viol else []


def _cases_of(trace):
    out, cur = {}, None
    for e in vlib.read_ndjson(trace):
        if e.get("e") == "reset":
            cur = e["case"]
            out[cur] = []
        if cur is not None and e.get("e") != "eof":
            out[cur].append(e)
    return out


CTL_RULES = ("slice-state-not-carried-over",)


def _report(res, trace, viol, what):
    """Violations in the corpus programs; the negative control p0 is only counted."""
    cases = _cases_of(trace)
    res.extra.setdefault("_ctl", 0)
    for case, rule in viol:
        evs = cases.get(case, [])
        prog = evs[0].get("prog") if evs else "?"
        if prog == 0:
            if rule not in CTL_RULES:
                raise vlib.ToolError("negative control p0 broke an unexpected rule %s in case %s" % (rule, case))
            res.extra["_ctl"] += 1
            continue
        res.violation("slice/p%s/%s" % (prog, rule),
                      "rule %s broken in %s case %s (program p%s, schedule %s, input %s)"
                      % (rule, what, case, prog, evs[0].get("sched") if evs else "?",
                         json.dumps(evs[0].get("inp")) if evs else "?"), {"events": evs})
    return cases


def _head(evs, ncases):
    """the first ncases whole cases of a trace, plus eof"""
    out, n = [], 0
    for e in evs:
        if e.get("e") == "reset":
            n += 1
            if n > ncases:
                break
        if e.get("e") != "eof":
            out.append(json.loads(json.dumps(e)))       # deep copy
    return out + [{"e": "eof"}]


def _canaries(res, muts):
    """Each (trace, mutate, label) corrupts its own copy of a short prefix of a good recorded
    trace; the copies are concatenated (case ids offset by 100000 * i) and validated in ONE TLC
    run; every copy must be flagged, else the binding is vacuous (ToolError)."""
    allevs, ctrace = [], None
    for i, (trace, mutate, label) in enumerate(muts):
        full = vlib.read_ndjson(trace)
        ctrace = ctrace or trace.replace(".ndjson", "_canaries.ndjson")
        for n in (80, 600, 4000, 10 ** 9):          # shortest prefix of whole cases that can be corrupted
            evs = _head(full, n)
            if mutate(evs):
                break
        else:
            raise vlib.ToolError("canary %s: no place to corrupt in %s" % (label, trace))
        for e in evs:
            if e.get("e") == "reset":
                e["case"] += 100000 * (i + 1)
        allevs += [e for e in evs if e.get("e") != "eof"]
    vlib.write_ndjson(ctrace, allevs + [{"e": "eof"}])
    cviol = _validate(ctrace, None, "canary")
    for i, (_, _, label) in enumerate(muts):
        hit = sorted({v[1] for v in cviol if v[0] // 100000 == i + 1})
        if not hit:
            raise vlib.ToolError("canary (%s) was NOT rejected by SliceTrace" % label)
        res.extra.setdefault("canaries", []).append("%s -> %s" % (label, hit[:3]))


def _batch_events(evs):
    return [e for e in evs if e.get("e") in ("rec1", "hook") and e.get("batch")]


def _dup_element(evs):
    for e in _batch_events(evs):
        e["batch"] = e["batch"] + [e["batch"][-1]]
        return True
    return False


def _lose_element(evs):
    for e in _batch_events(evs):
        e["batch"] = e["batch"][:-1]
        if e.get("e") == "rec1":
            e["after"] -= 1
        return True
    return False


def _swap_batch(evs):
    for e in _batch_events(evs):
        if len(e["batch"]) >= 2:
            e["batch"] = [e["batch"][1], e["batch"][0]] + e["batch"][2:]
            return True
    return False


def _snapshot_back(evs):
    last = None
    for e in evs:
        if e.get("e") == "reset":
            last = None
        if e.get("e") == "snap":
            if last is not None and last["v"] > 0:
                e["v"] = last["v"] - 1
                return True
            last = e
    return False


def _hook_skips_slice(evs):
    for i, e in enumerate(evs):
        if e.get("e") == "hook" and e["h"] == 1 and e["tick"] == 0 and not e["batch"]:
            del evs[i]
            return True
    return False


def _state_reset(evs):
    for e in evs:
        if e.get("e") == "rec1" and e["before"] > 0:
            e["after"] -= e["before"]
            e["before"] = 0
            return True
    return False


def run(tier):
    res = vlib.PropResult("C31")
    thorough = tier == "thorough"
    bindir = _build("hv_slice")
    exe = os.path.join(bindir, "hv_slice")
    d = vlib.rundir("slice")

    # (1) design
    mi = 3 if thorough else 2
    cfg = _cfg("slice_mc.cfg", "SPECIFICATION Spec\nCONSTANTS\n  MaxIn = %d\n  Progs = {1, 2, 3}\nINVARIANTS Inv\n"
                               "CHECK_DEADLOCK FALSE\n" % mi)
    r = vlib.tlc(SD, "SliceImpl", cfg=cfg, workers=8, timeout=3000, xmx="8g")
    if not r.ok:
        raise vlib.ToolError("SliceImpl model check failed (spec/design error):\n" + r.error_trace[-3000:])
    vlib.require_coverage(r, ACTIONS)
    res.add_tlc(r, "SliceImpl exhaustive (3 programs, <=%d inputs per port, all hook choices)" % mi)

    # (2) spec -> code
    cfg = _cfg("slice_gen.cfg", "SPECIFICATION Spec\nCONSTANTS\n  MaxIn = %d\nCHECK_DEADLOCK FALSE\n" % (3 if thorough else 2))
    r = vlib.tlc(SD, "SliceGen", cfg=cfg, workers=1, timeout=1200, coverage=False)
    if not r.ok:
        raise vlib.ToolError("SliceGen failed:\n" + r.error_trace[-3000:])
    cases = vlib.printed_json(r, "CASE")
    if len(cases) < 80:
        raise vlib.ToolError("SliceGen produced only %d cases" % len(cases))
    for c in cases:
        c["stages"] = [s for s in c["stages"] if s]
    cases.sort(key=lambda c: json.dumps(c, sort_keys=True))
    cfile = os.path.join(d, "cases.ndjson")
    vlib.write_ndjson(cfile, cases)
    trace = os.path.join(d, "replay_trace.ndjson")
    summ = _run_harness(exe, ["replay", cfile, trace])
    if summ["schedules"] < len(cases):
        raise vlib.ToolError("fewer schedules (%d) than cases (%d)" % (summ["schedules"], len(cases)))
    viol = _validate(trace, res, "replay")
    tc = _report(res, trace, viol, "replayed")
    res.traces += summ["schedules"]
    res.evaluations += summ["schedules"]
    res.extra["slice_replay"] = summ

    # (3) random
    rtrace = os.path.join(d, "random_trace.ndjson")
    summ = _run_harness(exe, ["random", 300 if thorough else 40, 7 if thorough else 6, rtrace])
    viol = _validate(rtrace, res, "random")
    rc = _report(res, rtrace, viol, "random")
    res.traces += summ["schedules"]
    res.evaluations += summ["schedules"]
    res.extra["slice_random"] = summ

    # negative control: p1's scripts against p0 (state never carried) -- TLC must flag runs
    ctl = [dict(c, prog=0) for c in cases if c["prog"] == 1]
    ctlfile = os.path.join(d, "control_cases.ndjson")
    vlib.write_ndjson(ctlfile, ctl)
    ctrace = os.path.join(d, "control_trace.ndjson")
    summ = _run_harness(exe, ["replay", ctlfile, ctrace])
    before = res.extra["_ctl"]
    viol = _validate(ctrace, res, "control")
    _report(res, ctrace, viol, "control")
    hits = res.extra.pop("_ctl") - before
    if hits == 0:
        raise vlib.ToolError("negative control (program p0, state not carried) was never flagged on %d schedules"
                             % summ["schedules"])
    res.extra["negative_control"] = {"program": "p0 (p1 without the state assignment)",
                                     "schedules": summ["schedules"], "schedules_flagged_by_TLC": hits}

    # non-trivial: a schedule with at least two slice executions of which one took >= 2 elements
    seen = set()
    for cs in (tc, rc):
        for evs in cs.values():
            recs = [e for e in evs if e.get("e") in ("rec1", "rec3", "hook", "snap")]
            nslices = len([e for e in recs if e.get("e") in ("rec1", "rec3") or (e.get("e") == "hook" and e["h"] == 0)])
            big = any(len(e.get("batch", [])) >= 2 for e in recs) or any(len(e.get("all", [])) >= 2 for e in recs)
            if nslices >= 2 and big:
                seen.add(json.dumps([evs[0]["prog"], recs], sort_keys=True))
                if len(res.samples) < 3 and evs[0]["prog"] == len(res.samples) + 1:
                    res.samples.append({"kind": "one explored schedule of program p%d" % evs[0]["prog"], "events": evs})
    res.distinct_nontrivial = len(seen)

    # (4) canaries
    _canaries(res, [
        (trace, _dup_element, "element in two batches"),
        (trace, _lose_element, "element in no batch"),
        (rtrace, _swap_batch, "batch out of order"),
        (trace, _snapshot_back, "snapshot older than the previous one"),
        (trace, _hook_skips_slice, "one hook misses a slice execution"),
        (trace, _state_reset, "slice state not carried over"),
    ])

    res.rule = ("case = (program, staged input script) x one explored simulator schedule; non-trivial = at least "
                "two slice executions, one of which took >= 2 elements; distinct by the recorded observations")
    res.assumptions = [
        "simulator exhaustive schedules stand for 'all schedules'; production codegen under random tick partitions is not exercised by this family",
        "observations are what the corpus programs themselves emit from inside the slice (fold of the batch, snapshot value, state before/after, slice counter)",
        "quiescence (sim::quiesce) = every hook has released everything that was sent",
    ]
    return {"C31": res}


def replay(pid, path):
    with open(path) as f:
        rep = json.load(f)
    t = os.path.join(vlib.rundir("slice"), "replay_one.ndjson")
    vlib.write_ndjson(t, rep["case"]["events"] + [{"e": "eof"}])
    viol = _validate(t, None, "replay_one")
    print("recorded events re-validated; rules broken:", viol)
    return 1 if viol else 0
