//! C15 harness: drives the real hydro_deploy_integration::MergeSource over TaggedSource over
//! scripted in-memory streams, logging one event per source poll and per merged poll.
//!
//!   merge_source replay <cases.ndjson> <trace_out.ndjson>   cases: {"scripts":[[..]..],"rets":[[tag,v]..]}
//!   merge_source random <count> <max_src> <max_len> <trace_out.ndjson>
//!
//! stdout: one JSON summary {cases, events, drift:[..]}.
use std::collections::VecDeque;
use std::io;
use std::pin::Pin;
use std::sync::{Arc, Mutex};
use std::task::Context;

use futures::Stream;
use hv_common::{Ans, PollLog, Rng, ScriptedStream, Trace, Value, json};
use hydro_deploy_integration::{MergeSource, TaggedSource};

type Src = ScriptedStream<Result<i64, io::Error>>;

fn code(x: &Result<i64, io::Error>) -> i64 {
    *x.as_ref().unwrap()
}

/// Runs one case; returns the merged results as [tag, v] pairs (v=-1 pending, -2 end).
fn run_case(case_id: usize, scripts: &[Vec<i64>], tr: &mut Trace) -> Vec<(i64, i64)> {
    let log: PollLog = Arc::new(Mutex::new(Vec::new()));
    let n = scripts.len();
    tr.ev(json!({"e":"reset","case":case_id,"n":n,"scripts":scripts}));
    let sources: Vec<Pin<Box<TaggedSource<i64, Src>>>> = scripts
        .iter()
        .enumerate()
        .map(|(i, sc)| {
            let script: VecDeque<_> = sc
                .iter()
                .map(|&a| if a >= 0 { Ans::Item(Ok(a)) } else { Ans::Pending })
                .collect();
            let s = ScriptedStream { id: (i + 1) as u32, script, log: log.clone(), code };
            Box::pin(TaggedSource::verif_new((i + 1) as u32, Box::pin(s)))
        })
        .collect();
    let mut merged = Box::pin(MergeSource::verif_new(sources));
    let total: usize = scripts.iter().map(|s| s.len()).sum();
    let budget = total + n + 6;
    let (_cnt, waker) = hv_common::count_waker();
    let mut cx = Context::from_waker(&waker);
    let mut rets = Vec::new();
    let mut ended = false;
    for _ in 0..budget {
        let r = hv_common::catch(|| merged.as_mut().poll_next(&mut cx));
        for (s, a) in log.lock().unwrap().drain(..) {
            tr.ev(json!({"e":"src","s":s,"a":a}));
        }
        let r = match r {
            Ok(r) => r,
            Err(msg) => {
                tr.ev(json!({"e":"panic","msg":msg}));
                return rets;
            }
        };
        let pair = match r {
            std::task::Poll::Ready(Some(Ok((tag, v)))) => (tag as i64, v),
            std::task::Poll::Ready(Some(Err(_))) => (0, -3),
            std::task::Poll::Pending => (0, -1),
            std::task::Poll::Ready(None) => (0, -2),
        };
        let (cur, live) = merged.verif_state();
        tr.ev(json!({"e":"ret","r":[pair.0, pair.1],"cursor":cur,"live":live}));
        rets.push(pair);
        if pair.1 == -2 {
            ended = true;
            break;
        }
    }
    if !ended {
        tr.ev(json!({"e":"stall"}));
    }
    rets
}

fn main() {
    let args: Vec<String> = std::env::args().collect();
    let mut drift: Vec<Value> = Vec::new();
    let mut cases = 0usize;
    match args.get(1).map(|s| s.as_str()) {
        Some("replay") => {
            let input = hv_common::read_ndjson(&args[2]);
            let mut tr = Trace::create(&args[3]);
            for (i, c) in input.iter().enumerate() {
                let scripts: Vec<Vec<i64>> = serde_json::from_value(c["scripts"].clone()).unwrap();
                let want: Vec<(i64, i64)> = serde_json::from_value(c["rets"].clone()).unwrap();
                let got = run_case(i + 1, &scripts, &mut tr);
                cases += 1;
                if got != want && drift.len() < 50 {
                    drift.push(json!({"case":i+1,"scripts":scripts,"model":want,"impl":got}));
                }
            }
            tr.ev(json!({"e":"eof"}));
            let events = tr.lines;
            tr.finish();
            println!("{}", json!({"cases":cases,"events":events,"drift":drift}));
        }
        Some("random") => {
            let count: usize = args[2].parse().unwrap();
            let max_src: u64 = args[3].parse().unwrap();
            let max_len: u64 = args[4].parse().unwrap();
            let mut tr = Trace::create(&args[5]);
            let mut rng = Rng::new(hv_common::seed());
            for i in 0..count {
                let n = 1 + rng.below(max_src);
                let scripts: Vec<Vec<i64>> = (1..=n)
                    .map(|s| {
                        let len = rng.below(max_len + 1);
                        let mut k = 0;
                        (0..len)
                            .map(|_| {
                                if rng.chance(3, 5) {
                                    k += 1;
                                    (s as i64) * 100 + k
                                } else {
                                    -1
                                }
                            })
                            .collect()
                    })
                    .collect();
                run_case(i + 1, &scripts, &mut tr);
                cases += 1;
            }
            tr.ev(json!({"e":"eof"}));
            let events = tr.lines;
            tr.finish();
            println!("{}", json!({"cases":cases,"events":events,"drift":drift}));
        }
        _ => {
            eprintln!("usage: merge_source replay|random ...");
            std::process::exit(2);
        }
    }
}
