//! C15 extension: the real hydro_deploy_integration::multi_connection::TcpMultiConnectionSource over loopback
//! TCP. Seeded random scripts of connect / send / close / poll steps; every frame carries its
//! client and sequence number, so the recorded trace can be validated without knowing which
//! connection id the source assigned to which client.
//!
//!   tcp_multi random <count> <max_clients> <max_frames> <trace_out.ndjson>
use std::time::Duration;

use bytes::Bytes;
use futures::{SinkExt, StreamExt};
use hv_common::{Rng, Trace, json};
use hydro_deploy_integration::multi_connection::tcp_multi_connection;
use tokio::net::{TcpListener, TcpStream};
use tokio_util::codec::{FramedWrite, LengthDelimitedCodec};

type Client = FramedWrite<TcpStream, LengthDelimitedCodec>;

async fn settle() {
    tokio::time::sleep(Duration::from_millis(4)).await;
    tokio::task::yield_now().await;
}

async fn run_case(case: usize, rng: &mut Rng, max_clients: u64, max_frames: u64, tr: &mut Trace) {
    let listener = TcpListener::bind("127.0.0.1:0").await.expect("bind loopback");
    let addr = listener.local_addr().unwrap();
    let (mut source, _sink, mut membership) = tcp_multi_connection::<Bytes, LengthDelimitedCodec>(listener);
    let n = 1 + rng.below(max_clients) as usize;
    tr.ev(json!({"e":"reset","case":case,"n":n}));
    let mut clients: Vec<Option<Client>> = (0..n).map(|_| None).collect();
    let mut connected = vec![false; n];
    let mut closed = vec![false; n];
    let mut seq = vec![0u64; n];
    let mut sent_total = 0usize;
    let mut got_total = 0usize;
    let budget_steps = (n as u64) * (max_frames + 3) + 6;
    let mut panicked = false;

    // one poll round: poll the source until it is Pending (bounded), logging what it returns
    macro_rules! poll_round {
        () => {{
            let mut progressed = false;
            tr.ev(json!({"e":"pollbegin"}));
            for _ in 0..64 {
                let polled = std::future::poll_fn(|cx| {
                    std::task::Poll::Ready(hv_common::catch(|| source.poll_next_unpin(cx)))
                })
                .await;
                let polled = match polled {
                    Ok(p) => p,
                    Err(msg) => {
                        tr.ev(json!({"e":"panic","msg":msg}));
                        panicked = true;
                        break;
                    }
                };
                match polled {
                    std::task::Poll::Ready(Some(Ok((id, frame)))) => {
                        let v = u64::from_be_bytes(frame[..8].try_into().unwrap());
                        tr.ev(json!({"e":"ret","id":id,"c":v / 1000,"q":v % 1000,"cursor":source.poll_cursor,"live":source.active_connections.len()}));
                        got_total += 1;
                        progressed = true;
                    }
                    std::task::Poll::Ready(Some(Err(e))) => {
                        tr.ev(json!({"e":"err","msg":e.to_string()}));
                        break;
                    }
                    std::task::Poll::Ready(None) => {
                        tr.ev(json!({"e":"ended"}));
                        break;
                    }
                    std::task::Poll::Pending => break,
                }
            }
            tr.ev(json!({"e":"pollend"}));
            while let std::task::Poll::Ready(Some((id, joined))) = futures::poll!(membership.next()) {
                tr.ev(json!({"e":"member","id":id,"join":joined}));
            }
            progressed
        }};
    }

    for _ in 0..budget_steps {
        if panicked {
            break;
        }
        let c = rng.below(n as u64) as usize;
        match rng.below(10) {
            0..=1 if !connected[c] => {
                let s = TcpStream::connect(addr).await.expect("connect loopback");
                s.set_nodelay(true).ok();
                clients[c] = Some(FramedWrite::new(s, LengthDelimitedCodec::new()));
                connected[c] = true;
                tr.ev(json!({"e":"connect","c":c}));
                settle().await;
                // the source accepts inside poll_next: poll so that accept order = connect order
                poll_round!();
            }
            2..=6 if connected[c] && !closed[c] && seq[c] < max_frames => {
                seq[c] += 1;
                let v = (c as u64) * 1000 + seq[c];
                let w = clients[c].as_mut().unwrap();
                w.send(Bytes::copy_from_slice(&v.to_be_bytes())).await.expect("client send");
                sent_total += 1;
                tr.ev(json!({"e":"send","c":c,"q":seq[c]}));
            }
            7 if connected[c] && !closed[c] => {
                let mut w = clients[c].take().unwrap();
                let _ = w.close().await;
                drop(w);
                closed[c] = true;
                tr.ev(json!({"e":"close","c":c}));
            }
            _ => {
                settle().await;
                poll_round!();
            }
        }
    }
    // close everything and drain: keep polling while frames are outstanding (up to ~5 s)
    for c in 0..n {
        if connected[c] && !closed[c] {
            let mut w = clients[c].take().unwrap();
            let _ = w.close().await;
            tr.ev(json!({"e":"close","c":c}));
        }
    }
    let mut idle = 0;
    for _ in 0..2500 {
        if panicked {
            break;
        }
        settle().await;
        if poll_round!() {
            idle = 0;
        } else {
            idle += 1;
        }
        if got_total >= sent_total && idle >= 3 && source.active_connections.is_empty() {
            break;
        }
    }
    if !panicked {
        tr.ev(json!({"e":"drained","sent":sent_total,"got":got_total,"live":source.active_connections.len()}));
    }
}

fn main() {
    let args: Vec<String> = std::env::args().collect();
    if args.get(1).map(|s| s.as_str()) != Some("random") || args.len() < 6 {
        eprintln!("usage: tcp_multi random <count> <max_clients> <max_frames> <trace_out>");
        std::process::exit(2);
    }
    let count: usize = args[2].parse().unwrap();
    let max_clients: u64 = args[3].parse().unwrap();
    let max_frames: u64 = args[4].parse().unwrap();
    let mut tr = Trace::create(&args[5]);
    let mut rng = Rng::new(hv_common::seed() ^ 0x7c9);
    let rt = tokio::runtime::Builder::new_current_thread().enable_all().build().unwrap();
    rt.block_on(async {
        for i in 0..count {
            run_case(i + 1, &mut rng, max_clients, max_frames, &mut tr).await;
        }
    });
    tr.ev(json!({"e":"eof"}));
    let events = tr.lines;
    tr.finish();
    println!("{}", json!({"cases":count,"events":events}));
}
