//! Union-find histories (C04): drives the REAL lattices::union_find::UnionFind through
//! union / same / merge calls and records every call's result and the revealed parent map.
//! Verdicts are taken by TLC (UnionFindTrace) on the recorded ndjson.
//!
//!   unionfind replay <cases.ndjson> <trace_out.ndjson>
//!       cases printed by TLC from spec/UnionFind/UnionFindImpl (EMIT):
//!       {"init":[[k,p]..],"ops":[["union",a,b]|["same",a,b]|["merge",[[k,p]..]]],"rets":[..],"pars":[..]}
//!       every case runs on every backing map that supports its calls.
//!   unionfind random <count> <items> <len> <trace_out.ndjson>      seeded random histories
//!
//! A call that does not return is detected by a step budget (the key type counts `==`,
//! hv_lat::CK) -- deterministic, no wall clock -- and logged as a "diverge" event.
//!
//! Events: {"e":"reset","case","rep","init"} {"e":"union"|"same","a","b","ret","par"}
//!         {"e":"merge","other","ret","par"} {"e":"diverge","a","b"} {"e":"panic","msg"} {"e":"eof"}
use std::cell::Cell;
use std::collections::{BTreeMap, HashMap};

use hv_common::{Rng, Trace, Value, catch, json};
use hv_lat::*;
use lattices::Merge;
use lattices::cc_traits::{Map, MapMut};
use lattices::collections::{ArrayMap, OptionMap, SingletonMap, VecMap};
use lattices::union_find::{UnionFind, UnionFindVec};

type C = Cell<CK>;

struct Out {
    tr: Trace,
    cases: u64,
    calls: u64,
    diverged: u64,
    drift: Vec<Value>,
}

fn ck(v: &Value) -> CK {
    CK(v.as_u64().expect("item") as u8)
}

enum CallRes {
    Ret(bool),
    Diverged,
    Panic(String),
}
fn guarded(f: impl FnOnce() -> bool) -> CallRes {
    reset_budget();
    match catch(f) {
        Ok(b) => CallRes::Ret(b),
        Err(m) if m.contains(BUDGET_MSG) => CallRes::Diverged,
        Err(m) => CallRes::Panic(m),
    }
}

/// returns false when the case must stop (diverged / panicked)
fn record(out: &mut Out, name: &str, a: &Value, b: &Value, res: CallRes, par: Value, want: Option<(&Value, &Value)>, case: usize, rep: &str, idx: usize) -> bool {
    out.calls += 1;
    match res {
        CallRes::Ret(r) => {
            if name == "merge" {
                out.tr.ev(json!({"e":"merge","other":a,"ret":r as u8,"par":par}));
            } else {
                out.tr.ev(json!({"e":name,"a":a,"b":b,"ret":r as u8,"par":par}));
            }
            if let Some((wret, wpar)) = want
                && (wret.as_i64() != Some(r as i64) || *wpar != par)
                && out.drift.len() < 40
            {
                out.drift.push(json!({"case":case,"rep":rep,"call":idx,"model_ret":wret,"impl_ret":r as u8,
                                      "model_par":wpar,"impl_par":par}));
            }
            true
        }
        CallRes::Diverged => {
            out.diverged += 1;
            if name == "merge" {
                // no single (a, b): classified by the trace spec as a divergence outside the rho class
                out.tr.ev(json!({"e":"diverge","a":-1,"b":-1}));
            } else {
                out.tr.ev(json!({"e":"diverge","a":a,"b":b}));
            }
            if let Some((wret, _)) = want
                && wret.as_i64() != Some(-1)
                && out.drift.len() < 40
            {
                out.drift.push(json!({"case":case,"rep":rep,"call":idx,"model_ret":wret,"impl":"diverged"}));
            }
            false
        }
        CallRes::Panic(m) => {
            out.tr.ev(json!({"e":"panic","msg":m}));
            false
        }
    }
}

/// full API (union / same / merge): maps implementing MapMut
fn run_mut<M>(out: &mut Out, case: usize, c: &Value, rep: &str)
where
    M: MapBack<K = CK, V = C> + MapMut<CK, C, Key = CK, Item = C>,
{
    let Some(mut uf) = UnionFind::<M>::build(&c["init"]) else { return };
    out.cases += 1;
    out.tr.ev(json!({"e":"reset","case":case,"rep":rep,"init":c["init"]}));
    let empty = vec![];
    let rets = c["rets"].as_array().unwrap_or(&empty);
    let pars = c["pars"].as_array().unwrap_or(&empty);
    for (i, op) in c["ops"].as_array().expect("ops").iter().enumerate() {
        let kind = op[0].as_str().expect("kind");
        let want = match (rets.get(i), pars.get(i)) {
            (Some(r), Some(p)) => Some((r, p)),
            _ => None,
        };
        let cont = match kind {
            "union" => {
                let (a, b) = (ck(&op[1]), ck(&op[2]));
                let res = guarded(|| uf.union(a, b).into_reveal());
                let par = uf.reveal();
                record(out, "union", &op[1], &op[2], res, par, want, case, rep, i)
            }
            "same" => {
                let (a, b) = (ck(&op[1]), ck(&op[2]));
                let res = guarded(|| uf.same(a, b).into_reveal());
                let par = uf.reveal();
                record(out, "same", &op[1], &op[2], res, par, want, case, rep, i)
            }
            "merge" => {
                let other = UnionFindVec::<CK>::build(&op[1]).expect("other");
                let res = guarded(|| uf.merge(other));
                let par = uf.reveal();
                record(out, "merge", &op[1], &json!(0), res, par, want, case, rep, i)
            }
            _ => panic!("unknown op {kind}"),
        };
        if !cont {
            break;
        }
    }
}

/// `same` only: every map implementing Map (array / singleton / option / vec backed)
fn run_ro<M>(out: &mut Out, case: usize, c: &Value, rep: &str)
where
    M: MapBack<K = CK, V = C> + Map<CK, C, Key = CK, Item = C>,
{
    if c["ops"].as_array().expect("ops").iter().any(|op| op[0] != "same") {
        return;
    }
    let Some(uf) = UnionFind::<M>::build(&c["init"]) else { return };
    out.cases += 1;
    out.tr.ev(json!({"e":"reset","case":case,"rep":rep,"init":c["init"]}));
    let empty = vec![];
    let rets = c["rets"].as_array().unwrap_or(&empty);
    let pars = c["pars"].as_array().unwrap_or(&empty);
    for (i, op) in c["ops"].as_array().unwrap().iter().enumerate() {
        let (a, b) = (ck(&op[1]), ck(&op[2]));
        let want = match (rets.get(i), pars.get(i)) {
            (Some(r), Some(p)) => Some((r, p)),
            _ => None,
        };
        let res = guarded(|| uf.same(a, b).into_reveal());
        let par = uf.reveal();
        if !record(out, "same", &op[1], &op[2], res, par, want, case, rep, i) {
            break;
        }
    }
}

fn run_all(out: &mut Out, case: usize, c: &Value) {
    run_mut::<HashMap<CK, C>>(out, case, c, "HashMap");
    run_mut::<BTreeMap<CK, C>>(out, case, c, "BTreeMap");
    run_ro::<VecMap<CK, C>>(out, case, c, "VecMap");
    run_ro::<ArrayMap<CK, C, 1>>(out, case, c, "ArrayMap1");
    run_ro::<ArrayMap<CK, C, 2>>(out, case, c, "ArrayMap2");
    run_ro::<ArrayMap<CK, C, 3>>(out, case, c, "ArrayMap3");
    run_ro::<ArrayMap<CK, C, 4>>(out, case, c, "ArrayMap4");
    run_ro::<SingletonMap<CK, C>>(out, case, c, "SingletonMap");
    run_ro::<OptionMap<CK, C>>(out, case, c, "OptionMap");
}

fn random_case(rng: &mut Rng, items: u64, len: u64, malformed: bool) -> Value {
    let mut init: Vec<Value> = Vec::new();
    if malformed {
        for k in 0..items {
            if rng.chance(2, 3) {
                init.push(json!([k, rng.below(items)]));
            }
        }
    }
    let n = if malformed { 1 + rng.below(3) } else { 1 + rng.below(len) };
    let mut ops: Vec<Value> = Vec::new();
    for _ in 0..n {
        let a = rng.below(items);
        let b = rng.below(items);
        if malformed {
            ops.push(json!(["same", a, b]));
            continue;
        }
        match rng.below(10) {
            0..=4 => ops.push(json!(["union", a, b])),
            5..=7 => ops.push(json!(["same", a, b])),
            _ => {
                // other: a small forest written in a fixed order (parent <= child)
                let m = 1 + rng.below(3);
                let mut ks: Vec<u64> = Vec::new();
                while (ks.len() as u64) < m {
                    let k = rng.below(items);
                    if !ks.contains(&k) {
                        ks.push(k);
                    }
                }
                let other: Vec<Value> = ks.iter().map(|k| json!([k, rng.below(k + 1)])).collect();
                ops.push(json!(["merge", other]));
            }
        }
    }
    json!({"init": init, "ops": ops})
}

fn main() {
    let args: Vec<String> = std::env::args().collect();
    let mode = args.get(1).map(|s| s.as_str());
    let (cases, path): (Vec<Value>, &String) = match mode {
        Some("replay") => (hv_common::read_ndjson(&args[2]), &args[3]),
        Some("random") => {
            let count: usize = args[2].parse().unwrap();
            let items: u64 = args[3].parse().unwrap();
            let len: u64 = args[4].parse().unwrap();
            let mut rng = Rng::new(hv_common::seed());
            ((0..count).map(|i| random_case(&mut rng, items, len, i % 6 == 5)).collect(), &args[5])
        }
        _ => {
            eprintln!("usage: unionfind replay <cases> <trace> | random <count> <items> <len> <trace>");
            std::process::exit(2);
        }
    };
    let mut out = Out { tr: Trace::create(path), cases: 0, calls: 0, diverged: 0, drift: Vec::new() };
    for (i, c) in cases.iter().enumerate() {
        run_all(&mut out, i + 1, c);
    }
    out.tr.ev(json!({"e":"eof"}));
    let events = out.tr.lines;
    out.tr.finish();
    println!(
        "{}",
        json!({"input_cases":cases.len(),"cases":out.cases,"calls":out.calls,"events":events,
               "diverged":out.diverged,"drift":out.drift})
    );
}
