//! Lattice algebra harness (C01, C02, C03, C04, C06, C07): drives the REAL `lattices` code and
//! records what it returned; every verdict is taken by TLC on the recorded ndjson (LatticeTrace).
//!
//!   lattice replay <vector_dir> <trace_out.ndjson> [only_ty]
//!       vector_dir: the files written by spec/Lattice/LatticeGen (TLC): one <ty>.ndjson per
//!       descriptor + bimo_<f>.ndjson. Every value / pair / triple is rebuilt in every backing
//!       representation listed in `catalogue()` (receiver x argument representation).
//!   lattice random <count_per_entry> <trace_out.ndjson>
//!       seeded (VERIF_SEED) random larger values, same operations.
//!   lattice list       prints the catalogue (ty, op, receiver type, argument type)
//!
//! Trace events: one per (operation, arguments); "g" lists what the real code returned, one
//! group per DISTINCT result with the representations ("R|S") that produced it (bool = 0/1):
//!   {"op":"merge","ty","a","b","g":[{"r","flag","ro","reps":[..]}]}    merge + merge_owned
//!   {"op":"cmp","ty","a","b","g":[{"c","eq","bits","reps"}]}   c: -1/0/1/2(None); bits: lt,le,gt,ge,ne
//!   {"op":"from","ty","a","g":[{"r","reps"}]}                    LatticeFrom
//!   {"op":"un","ty","a","g":[{"bot","top","reps"}]}              is_bot / is_top
//!   {"op":"default","ty","g":[{"r","bot","reps"}]}
//!   {"op":"atoms","ty","a","g":[{"atoms","abot","re","eqre","reps"}]}  atomize, re-merge into Default
//!   {"op":"idem"|"comm"|"assoc", ...}                            laws through the type's own ==
//!   {"op":"bimo","ty":f,"side","a","d","b","g":[{"o1","o2","eq","reps"}]}
//!   a group {"panic":msg,"reps"} records a panic (a panic is data; "budget" = step budget)
//!   {"op":"eof"}
//! stdout: one JSON summary.
use std::collections::{BTreeMap, BTreeSet, HashMap, HashSet};

use hv_common::{Rng, Trace, Value, catch, json};
use hv_lat::*;
use lattices::collections::VecSet;
use lattices::map_union::{
    KeyedBimorphism, MapUnionArrayMap, MapUnionBTreeMap, MapUnionHashMap,
    MapUnionOptionMap, MapUnionSingletonMap, MapUnionVec,
};
use lattices::set_union::{
    CartesianProductBimorphism, SetUnion, SetUnionArray, SetUnionBTreeSet, SetUnionHashSet,
    SetUnionOptionSet, SetUnionSingletonSet, SetUnionVec,
};
use lattices::union_find::{
    UnionFindArrayMap, UnionFindBTreeMap, UnionFindHashMap, UnionFindOptionMap,
    UnionFindSingletonMap, UnionFindVec,
};
use lattices::{
    Atomize, Conflict, DomPair, IsBot, IsTop, LatticeBimorphism, LatticeFrom, Max, Merge, Min,
    Pair, PairBimorphism, VecUnion, WithBot, WithTop,
};

// ------------------------------------------------------------------------------------------
struct Ctx {
    tr: Trace,
    ops: u64,
    skipped: u64,
    panics: u64,
    /// cross-check of scalar outputs against the expectations TLC wrote into the vector line
    expect: Option<Value>,
    mism: Vec<Value>,
    per_op: BTreeMap<&'static str, u64>,
}
impl Ctx {
    /// one event for (op, args): results grouped by distinct value
    fn emit(&mut self, op: &'static str, ty: &str, fields: &[(&str, &Value)], results: Vec<(String, Value)>) {
        if results.is_empty() {
            return;
        }
        let mut groups: Vec<(String, Value, Vec<String>)> = Vec::new();
        for (rep, res) in results {
            self.ops += 1;
            *self.per_op.entry(op).or_insert(0) += 1;
            if res.get("panic").is_some() {
                self.panics += 1;
            }
            let key = res.to_string();
            match groups.iter_mut().find(|g| g.0 == key) {
                Some(g) => g.2.push(rep),
                None => groups.push((key, res, vec![rep])),
            }
        }
        let line = self.tr.lines + 1;
        let mut gs = Vec::new();
        for (gi, (_, mut res, reps)) in groups.into_iter().enumerate() {
            for (f, x) in [("flag", "xflag"), ("c", "xcmp"), ("bot", "xbot"), ("top", "xtopcode")] {
                if op != "default"
                    && let (Some(got), Some(want)) = (
                        res.get(f).and_then(|v| v.as_i64()),
                        self.expect.as_ref().and_then(|e| e.get(x)).and_then(|v| v.as_i64()),
                    )
                    && got != want
                {
                    self.mism.push(json!({"line": line, "group": gi + 1, "field": f, "expected": want, "got": got}));
                }
            }
            res["reps"] = json!(reps);
            gs.push(res);
        }
        let mut ev = serde_json::Map::new();
        ev.insert("op".into(), json!(op));
        ev.insert("ty".into(), json!(ty));
        for (k, v) in fields {
            ev.insert((*k).into(), (*v).clone());
        }
        ev.insert("g".into(), Value::Array(gs));
        self.tr.ev(Value::Object(ev));
    }
}
fn pmsg(msg: String) -> Value {
    json!({"panic": if msg.contains(BUDGET_MSG) { "budget".to_string() } else { msg }})
}

#[derive(Clone, Copy, PartialEq, Debug)]
enum Kind {
    Merge,
    Cmp,
    From,
    Unary,
    Default,
    Atoms,
    Idem,
    Comm,
    Assoc,
}
struct Entry {
    ty: &'static str,
    kind: Kind,
    /// "Receiver|Argument" type names
    rep: String,
    run: fn(&[Value]) -> Option<Value>,
    gen_args: fn(&mut Rng) -> Vec<Value>,
}

fn gen0(_: &mut Rng) -> Vec<Value> {
    vec![]
}
fn gen1<R: Rep>(rng: &mut Rng) -> Vec<Value> {
    vec![R::random(rng).reveal()]
}
fn gen2<R: Rep, S: Rep>(rng: &mut Rng) -> Vec<Value> {
    vec![R::random(rng).reveal(), S::random(rng).reveal()]
}
fn gen3<R: Rep>(rng: &mut Rng) -> Vec<Value> {
    vec![R::random(rng).reveal(), R::random(rng).reveal(), R::random(rng).reveal()]
}
/// Point: only equal values may be merged / compared (excluded inputs per the property text)
fn gen_same2<R: Rep, S: Rep>(rng: &mut Rng) -> Vec<Value> {
    let a = R::random(rng).reveal();
    vec![a.clone(), a]
}
fn gen_same3<R: Rep>(rng: &mut Rng) -> Vec<Value> {
    let a = R::random(rng).reveal();
    vec![a.clone(), a.clone(), a]
}


// ------------------------------------------------------------------------------------------
// operations on the real code: each returns what the code returned (None = this
// representation cannot hold the arguments), a panic is returned as {"panic": msg}
// ------------------------------------------------------------------------------------------
fn op_merge<R: Rep + Merge<S>, S: Rep>(args: &[Value]) -> Option<Value> {
    let (Some(a), Some(b)) = (R::build(&args[0]), S::build(&args[1])) else { return None };
    reset_budget();
    Some(match catch(|| {
        let mut x = a.clone();
        let flag = x.merge(b.clone());
        let ro = <R as Merge<S>>::merge_owned(a.clone(), b.clone());
        json!({"r": x.reveal(), "flag": flag as u8, "ro": ro.reveal()})
    }) {
        Ok(v) => v,
        Err(m) => pmsg(m),
    })
}

fn op_cmp<R: Rep + PartialOrd<S> + PartialEq<S>, S: Rep>(args: &[Value]) -> Option<Value> {
    let (Some(a), Some(b)) = (R::build(&args[0]), S::build(&args[1])) else { return None };
    reset_budget();
    Some(match catch(|| {
        let c = cmp_code(a.partial_cmp(&b));
        let eq = a == b;
        let bits = (a < b) as u8 | ((a <= b) as u8) << 1 | ((a > b) as u8) << 2 | ((a >= b) as u8) << 3
            | ((a != b) as u8) << 4;
        json!({"c": c, "eq": eq as u8, "bits": bits})
    }) {
        Ok(v) => v,
        Err(m) => pmsg(m),
    })
}

fn op_from<R: Rep + LatticeFrom<S>, S: Rep>(args: &[Value]) -> Option<Value> {
    let a = S::build(&args[0])?;
    reset_budget();
    Some(match catch(|| json!({"r": R::lattice_from(a.clone()).reveal()})) {
        Ok(v) => v,
        Err(m) => pmsg(m),
    })
}

fn op_unary<R: Rep + IsBot + IsTop>(args: &[Value]) -> Option<Value> {
    let a = R::build(&args[0])?;
    reset_budget();
    Some(match catch(|| json!({"bot": a.is_bot() as u8, "top": a.is_top() as u8})) {
        Ok(v) => v,
        Err(m) => pmsg(m),
    })
}

fn op_default<R: Rep + Default + IsBot>(_args: &[Value]) -> Option<Value> {
    reset_budget();
    Some(match catch(|| {
        let d = R::default();
        json!({"r": d.reveal(), "bot": d.is_bot() as u8})
    }) {
        Ok(v) => v,
        Err(m) => pmsg(m),
    })
}

fn op_atoms<R>(args: &[Value]) -> Option<Value>
where
    R: Rep + Atomize + Default + PartialEq,
    R::Atom: Rep,
{
    let a = R::build(&args[0])?;
    reset_budget();
    Some(match catch(|| {
        let ats: Vec<R::Atom> = a.clone().atomize().collect();
        let shown: Vec<Value> = ats.iter().map(Rep::reveal).collect();
        let abot: Vec<u8> = ats.iter().map(|x| x.is_bot() as u8).collect();
        let mut re = R::default();
        for at in ats {
            re.merge(at);
        }
        let eqre = re == a;
        json!({"atoms": shown, "abot": abot, "re": re.reveal(), "eqre": eqre as u8})
    }) {
        Ok(v) => v,
        Err(m) => pmsg(m),
    })
}

fn op_idem<R: Rep + Merge<R> + PartialEq>(args: &[Value]) -> Option<Value> {
    let a = R::build(&args[0])?;
    reset_budget();
    Some(match catch(|| {
        let aa = <R as Merge<R>>::merge_owned(a.clone(), a.clone());
        let eq = aa == a;
        json!({"aa": aa.reveal(), "eq": eq as u8})
    }) {
        Ok(v) => v,
        Err(m) => pmsg(m),
    })
}

fn op_comm<R: Rep + Merge<R> + PartialEq>(args: &[Value]) -> Option<Value> {
    let (Some(a), Some(b)) = (R::build(&args[0]), R::build(&args[1])) else { return None };
    reset_budget();
    Some(match catch(|| {
        let ab = <R as Merge<R>>::merge_owned(a.clone(), b.clone());
        let ba = <R as Merge<R>>::merge_owned(b.clone(), a.clone());
        let eq = ab == ba;
        json!({"ab": ab.reveal(), "ba": ba.reveal(), "eq": eq as u8})
    }) {
        Ok(v) => v,
        Err(m) => pmsg(m),
    })
}

fn op_assoc<R: Rep + Merge<R> + PartialEq>(args: &[Value]) -> Option<Value> {
    let (Some(a), Some(b), Some(c)) = (R::build(&args[0]), R::build(&args[1]), R::build(&args[2])) else {
        return None;
    };
    reset_budget();
    Some(match catch(|| {
        let l = <R as Merge<R>>::merge_owned(<R as Merge<R>>::merge_owned(a.clone(), b.clone()), c.clone());
        let r = <R as Merge<R>>::merge_owned(a.clone(), <R as Merge<R>>::merge_owned(b.clone(), c.clone()));
        let eq = l == r;
        json!({"l": l.reveal(), "r": r.reveal(), "eq": eq as u8})
    }) {
        Ok(v) => v,
        Err(m) => pmsg(m),
    })
}

fn rs<R, S>() -> String {
    format!("{}|{}", tname::<R>(), tname::<S>())
}
impl Entry {
    fn merge<R: Rep + Merge<S>, S: Rep>(ty: &'static str) -> Entry {
        let same = ty == "point";
        Entry { ty, kind: Kind::Merge, rep: rs::<R, S>(), run: op_merge::<R, S>,
                gen_args: if same { gen_same2::<R, S> } else { gen2::<R, S> } }
    }
    fn cmp<R: Rep + PartialOrd<S> + PartialEq<S>, S: Rep>(ty: &'static str) -> Entry {
        let same = ty == "point";
        Entry { ty, kind: Kind::Cmp, rep: rs::<R, S>(), run: op_cmp::<R, S>,
                gen_args: if same { gen_same2::<R, S> } else { gen2::<R, S> } }
    }
    fn from<R: Rep + LatticeFrom<S>, S: Rep>(ty: &'static str) -> Entry {
        Entry { ty, kind: Kind::From, rep: rs::<R, S>(), run: op_from::<R, S>, gen_args: gen1::<S> }
    }
    fn unary<R: Rep + IsBot + IsTop>(ty: &'static str) -> Entry {
        Entry { ty, kind: Kind::Unary, rep: tname::<R>(), run: op_unary::<R>, gen_args: gen1::<R> }
    }
    fn default<R: Rep + Default + IsBot>(ty: &'static str) -> Entry {
        Entry { ty, kind: Kind::Default, rep: tname::<R>(), run: op_default::<R>, gen_args: gen0 }
    }
    fn atoms<R>(ty: &'static str) -> Entry
    where
        R: Rep + Atomize + Default + PartialEq,
        R::Atom: Rep,
    {
        Entry { ty, kind: Kind::Atoms, rep: tname::<R>(), run: op_atoms::<R>, gen_args: gen1::<R> }
    }
    fn laws<R: Rep + Merge<R> + PartialEq>(ty: &'static str, out: &mut Vec<Entry>) {
        let same = ty == "point";
        out.push(Entry { ty, kind: Kind::Idem, rep: tname::<R>(), run: op_idem::<R>, gen_args: gen1::<R> });
        out.push(Entry { ty, kind: Kind::Comm, rep: tname::<R>(), run: op_comm::<R>,
                         gen_args: if same { gen_same2::<R, R> } else { gen2::<R, R> } });
        out.push(Entry { ty, kind: Kind::Assoc, rep: tname::<R>(), run: op_assoc::<R>,
                         gen_args: if same { gen_same3::<R> } else { gen3::<R> } });
    }
}

// ------------------------------------------------------------------------------------------
// bimorphisms
// ------------------------------------------------------------------------------------------
trait MkBimo {
    fn mk() -> Self;
}
impl<O> MkBimo for CartesianProductBimorphism<O> {
    fn mk() -> Self {
        Self::default()
    }
}
impl<O, F: MkBimo> MkBimo for KeyedBimorphism<O, F> {
    fn mk() -> Self {
        KeyedBimorphism::new(F::mk())
    }
}
impl MkBimo for PairBimorphism {
    fn mk() -> Self {
        PairBimorphism
    }
}
struct BEntry {
    f: &'static str,
    side: &'static str,
    rep: String,
    run: fn(&[Value]) -> Option<Value>,
    gen_args: fn(&mut Rng) -> Vec<Value>,
}
/// f(a |_| d, b)  vs  f(a, b) |_| f(d, b)
fn op_bimo_l<F, A, B>(args: &[Value]) -> Option<Value>
where
    F: MkBimo + LatticeBimorphism<A, B>,
    A: Rep + Merge<A>,
    B: Rep,
    F::Output: Rep + Merge<F::Output> + PartialEq,
{
    let (Some(a), Some(d), Some(b)) = (A::build(&args[0]), A::build(&args[1]), B::build(&args[2])) else {
        return None;
    };
    Some(match catch(|| {
        let mut f = F::mk();
        let o1 = f.call(<A as Merge<A>>::merge_owned(a.clone(), d.clone()), b.clone());
        let o2 = <F::Output as Merge<F::Output>>::merge_owned(f.call(a.clone(), b.clone()), f.call(d.clone(), b.clone()));
        let eq = o1 == o2;
        json!({"o1": o1.reveal(), "o2": o2.reveal(), "eq": eq as u8})
    }) {
        Ok(v) => v,
        Err(m) => pmsg(m),
    })
}
/// f(a, b |_| d)  vs  f(a, b) |_| f(a, d)
fn op_bimo_r<F, A, B>(args: &[Value]) -> Option<Value>
where
    F: MkBimo + LatticeBimorphism<A, B>,
    A: Rep,
    B: Rep + Merge<B>,
    F::Output: Rep + Merge<F::Output> + PartialEq,
{
    let (Some(a), Some(b), Some(d)) = (A::build(&args[0]), B::build(&args[1]), B::build(&args[2])) else {
        return None;
    };
    Some(match catch(|| {
        let mut f = F::mk();
        let o1 = f.call(a.clone(), <B as Merge<B>>::merge_owned(b.clone(), d.clone()));
        let o2 = <F::Output as Merge<F::Output>>::merge_owned(f.call(a.clone(), b.clone()), f.call(a.clone(), d.clone()));
        let eq = o1 == o2;
        json!({"o1": o1.reveal(), "o2": o2.reveal(), "eq": eq as u8})
    }) {
        Ok(v) => v,
        Err(m) => pmsg(m),
    })
}
fn gen_l<A: Rep, B: Rep>(rng: &mut Rng) -> Vec<Value> {
    vec![A::random(rng).reveal(), A::random(rng).reveal(), B::random(rng).reveal()]
}
fn gen_r<A: Rep, B: Rep>(rng: &mut Rng) -> Vec<Value> {
    vec![A::random(rng).reveal(), B::random(rng).reveal(), B::random(rng).reveal()]
}
fn bimo<F, A, B>(f: &'static str, out: &mut Vec<BEntry>)
where
    F: MkBimo + LatticeBimorphism<A, B>,
    A: Rep + Merge<A>,
    B: Rep + Merge<B>,
    F::Output: Rep + Merge<F::Output> + PartialEq,
{
    out.push(BEntry { f, side: "L", rep: rs::<A, B>(), run: op_bimo_l::<F, A, B>, gen_args: gen_l::<A, B> });
    out.push(BEntry { f, side: "R", rep: rs::<A, B>(), run: op_bimo_r::<F, A, B>, gen_args: gen_r::<A, B> });
}

// ------------------------------------------------------------------------------------------
// catalogue: descriptor name (spec/Lattice/LatticeCat.tla) -> Rust types
// ------------------------------------------------------------------------------------------
macro_rules! merges {
    ($es:ident, $ty:literal, [$($R:ty),* $(,)?], $S:tt) => { $( merges!(@one $es, $ty, $R, $S); )* };
    (@one $es:ident, $ty:literal, $R:ty, [$($S:ty),* $(,)?]) => { $( $es.push(Entry::merge::<$R, $S>($ty)); )* };
}
macro_rules! cmps {
    ($es:ident, $ty:literal, [$($R:ty),* $(,)?], $S:tt) => { $( cmps!(@one $es, $ty, $R, $S); )* };
    (@one $es:ident, $ty:literal, $R:ty, [$($S:ty),* $(,)?]) => { $( $es.push(Entry::cmp::<$R, $S>($ty)); )* };
}
macro_rules! froms {
    ($es:ident, $ty:literal, [$($R:ty),* $(,)?], $S:tt) => { $( froms!(@one $es, $ty, $R, $S); )* };
    (@one $es:ident, $ty:literal, $R:ty, [$($S:ty),* $(,)?]) => { $( $es.push(Entry::from::<$R, $S>($ty)); )* };
}
macro_rules! unaries { ($es:ident, $ty:literal, [$($R:ty),* $(,)?]) => { $( $es.push(Entry::unary::<$R>($ty)); )* }; }
macro_rules! defaults { ($es:ident, $ty:literal, [$($R:ty),* $(,)?]) => { $( $es.push(Entry::default::<$R>($ty)); )* }; }
macro_rules! atomss { ($es:ident, $ty:literal, [$($R:ty),* $(,)?]) => { $( $es.push(Entry::atoms::<$R>($ty)); )* }; }
macro_rules! lawss { ($es:ident, $ty:literal, [$($R:ty),* $(,)?]) => { $( Entry::laws::<$R>($ty, &mut $es); )* }; }
/// the common case: receivers R (full lattices), extra argument-only representations X
macro_rules! family {
    ($es:ident, $ty:literal, recv [$($R:ty),*], extra [$($X:ty),*]) => {
        family!($es, $ty, recv [$($R),*], extra [$($X),*], nounary []);
    };
    // nounary: argument representations without IsBot (VecMap has no cc_traits::Iter)
    ($es:ident, $ty:literal, recv [$($R:ty),*], extra [$($X:ty),*], nounary [$($Y:ty),*]) => {
        merges!($es, $ty, [$($R),*], [$($R,)* $($X,)* $($Y),*]);
        cmps!($es, $ty, [$($R,)* $($X,)* $($Y),*], [$($R,)* $($X,)* $($Y),*]);
        froms!($es, $ty, [$($R),*], [$($R,)* $($X,)* $($Y),*]);
        unaries!($es, $ty, [$($R,)* $($X),*]);
        lawss!($es, $ty, [$($R),*]);
    };
}

/// shipped types that are documented NOT to be lattices (DomPair over a partially ordered key):
/// merge / comparisons / bottom / Default / LatticeFrom are exercised, the C01 laws are not
macro_rules! family_nolaws {
    ($es:ident, $ty:literal, recv [$($R:ty),*], extra [$($X:ty),*]) => {
        merges!($es, $ty, [$($R),*], [$($R,)* $($X),*]);
        cmps!($es, $ty, [$($R,)* $($X),*], [$($R,)* $($X),*]);
        froms!($es, $ty, [$($R),*], [$($R,)* $($X),*]);
        unaries!($es, $ty, [$($R,)* $($X),*]);
    };
}

type HS = SetUnionHashSet<u8>;
type BS = SetUnionBTreeSet<u8>;
type VS = SetUnionVec<u8>;
type VSS = SetUnion<VecSet<u8>>;
type AS0 = SetUnionArray<u8, 0>;
type AS1 = SetUnionArray<u8, 1>;
type AS2 = SetUnionArray<u8, 2>;
type AS3 = SetUnionArray<u8, 3>;
type SS = SetUnionSingletonSet<u8>;
type OS = SetUnionOptionSet<u8>;
type MX = Max<u8>;
type MN = Min<u8>;
type MXB = Max<bool>;
type MNB = Min<bool>;
type CF = Conflict<u8>;
type HM<V> = MapUnionHashMap<u8, V>;
type BM<V> = MapUnionBTreeMap<u8, V>;
type VM<V> = MapUnionVec<u8, V>;
type AM<V, const N: usize> = MapUnionArrayMap<u8, V, N>;
type SM<V> = MapUnionSingletonMap<u8, V>;
type OM<V> = MapUnionOptionMap<u8, V>;
type UFH = UnionFindHashMap<CK>;
type UFB = UnionFindBTreeMap<CK>;
type UFV = UnionFindVec<CK>;
type UFA0 = UnionFindArrayMap<CK, 0>;
type UFA1 = UnionFindArrayMap<CK, 1>;
type UFA2 = UnionFindArrayMap<CK, 2>;
type UFA3 = UnionFindArrayMap<CK, 3>;
type UFS = UnionFindSingletonMap<CK>;
type UFO = UnionFindOptionMap<CK>;
type P2 = (u8, u8);

fn catalogue() -> Vec<Entry> {
    let mut es: Vec<Entry> = Vec::new();
    // ---- set
    merges!(es, "set", [HS, BS], [HS, BS, VS, VSS, AS0, AS1, AS2, AS3, SS, OS]);
    cmps!(es, "set", [HS, BS, VSS, AS0, AS1, AS2, AS3, SS, OS], [HS, BS, VSS, AS0, AS1, AS2, AS3, SS, OS]);
    froms!(es, "set", [HS, BS, VS], [HS, BS, VS, VSS, AS1, AS2, SS, OS]);
    unaries!(es, "set", [HS, BS, VSS, AS0, AS2, SS, OS]);
    atomss!(es, "set", [HS, BS]);
    defaults!(es, "set", [HS, BS, VS, OS]);
    lawss!(es, "set", [HS, BS]);
    // ---- scalars
    family!(es, "max", recv [MX], extra []);
    defaults!(es, "max", [MX]);
    family!(es, "min", recv [MN], extra []);
    defaults!(es, "min", [MN]);
    family!(es, "maxbool", recv [MXB], extra []);
    defaults!(es, "maxbool", [MXB]);
    family!(es, "minbool", recv [MNB], extra []);
    defaults!(es, "minbool", [MNB]);
    family!(es, "unit", recv [()], extra []);
    defaults!(es, "unit", [()]);
    atomss!(es, "unit", [()]);
    family!(es, "point", recv [Pt], extra []);
    defaults!(es, "point", [Pt]);
    family!(es, "conflict", recv [CF], extra []);
    // ---- maps
    merges!(es, "map_set", [HM<HS>, BM<BS>], [HM<HS>, BM<BS>, VM<HS>, AM<SS, 1>, AM<BS, 2>, SM<SS>, SM<HS>, OM<OS>]);
    cmps!(es, "map_set", [HM<HS>, BM<BS>, VM<HS>, AM<BS, 2>, SM<SS>, OM<OS>], [HM<HS>, BM<BS>, VM<HS>, AM<BS, 2>, SM<SS>, OM<OS>]);
    froms!(es, "map_set", [HM<HS>, BM<BS>], [HM<HS>, BM<BS>, VM<HS>, AM<BS, 2>, SM<SS>, OM<OS>]);
    unaries!(es, "map_set", [HM<HS>, BM<BS>, AM<BS, 2>, SM<SS>, OM<OS>]);
    atomss!(es, "map_set", [HM<HS>, BM<BS>]);
    defaults!(es, "map_set", [HM<HS>, BM<BS>, OM<OS>]);
    lawss!(es, "map_set", [HM<HS>, BM<BS>]);

    family!(es, "map_max", recv [HM<MX>, BM<MX>], extra [AM<MX, 2>, SM<MX>, OM<MX>], nounary [VM<MX>]);
    defaults!(es, "map_max", [HM<MX>, BM<MX>]);

    family!(es, "map_map_set", recv [HM<HM<HS>>, BM<BM<BS>>], extra [SM<SM<SS>>, OM<HM<HS>>]);
    defaults!(es, "map_map_set", [HM<HM<HS>>, BM<BM<BS>>]);
    atomss!(es, "map_map_set", [HM<HM<HS>>, BM<BM<BS>>]);

    family!(es, "map_wb_max", recv [HM<WithBot<MX>>, BM<WithBot<MX>>], extra [SM<WithBot<MX>>], nounary [VM<WithBot<MX>>]);
    defaults!(es, "map_wb_max", [HM<WithBot<MX>>, BM<WithBot<MX>>]);

    family!(es, "map_wt_set", recv [HM<WithTop<HS>>, BM<WithTop<BS>>], extra [SM<WithTop<SS>>]);
    defaults!(es, "map_wt_set", [HM<WithTop<HS>>, BM<WithTop<BS>>]);
    atomss!(es, "map_wt_set", [HM<WithTop<HS>>, BM<WithTop<BS>>]);

    family!(es, "map_conflict", recv [HM<CF>, BM<CF>], extra [SM<CF>, AM<CF, 2>]);
    defaults!(es, "map_conflict", [HM<CF>, BM<CF>]);

    family!(es, "map_pair", recv [HM<Pair<HS, MX>>, BM<Pair<BS, MX>>], extra [SM<Pair<SS, MX>>]);
    defaults!(es, "map_pair", [HM<Pair<HS, MX>>, BM<Pair<BS, MX>>]);

    family!(es, "map_vec", recv [HM<VecUnion<MX>>, BM<VecUnion<MX>>], extra [SM<VecUnion<MX>>]);
    defaults!(es, "map_vec", [HM<VecUnion<MX>>, BM<VecUnion<MX>>]);
    // ---- with-bot / with-top
    family!(es, "wb_set", recv [WithBot<HS>, WithBot<BS>], extra [WithBot<SS>, WithBot<OS>]);
    defaults!(es, "wb_set", [WithBot<HS>, WithBot<BS>, WithBot<SS>]);
    atomss!(es, "wb_set", [WithBot<HS>, WithBot<BS>]);
    family!(es, "wb_max", recv [WithBot<MX>], extra []);
    defaults!(es, "wb_max", [WithBot<MX>]);
    family!(es, "wb_conflict", recv [WithBot<CF>], extra []);
    defaults!(es, "wb_conflict", [WithBot<CF>]);
    family!(es, "wt_set", recv [WithTop<HS>, WithTop<BS>], extra [WithTop<SS>, WithTop<OS>]);
    defaults!(es, "wt_set", [WithTop<HS>, WithTop<BS>]);
    atomss!(es, "wt_set", [WithTop<HS>, WithTop<BS>]);
    family!(es, "wt_maxbool", recv [WithTop<MXB>], extra []);
    defaults!(es, "wt_maxbool", [WithTop<MXB>]);
    family!(es, "wt_max", recv [WithTop<MX>], extra []);
    defaults!(es, "wt_max", [WithTop<MX>]);
    family!(es, "wb_wt_set", recv [WithBot<WithTop<HS>>, WithBot<WithTop<BS>>], extra [WithBot<WithTop<SS>>]);
    defaults!(es, "wb_wt_set", [WithBot<WithTop<HS>>]);
    atomss!(es, "wb_wt_set", [WithBot<WithTop<HS>>, WithBot<WithTop<BS>>]);
    family!(es, "wt_wb_set", recv [WithTop<WithBot<HS>>, WithTop<WithBot<BS>>], extra [WithTop<WithBot<SS>>]);
    defaults!(es, "wt_wb_set", [WithTop<WithBot<HS>>]);
    atomss!(es, "wt_wb_set", [WithTop<WithBot<HS>>, WithTop<WithBot<BS>>]);
    // ---- pairs
    family!(es, "pair_set_max", recv [Pair<HS, MX>, Pair<BS, MX>], extra [Pair<SS, MX>, Pair<OS, MX>]);
    defaults!(es, "pair_set_max", [Pair<HS, MX>, Pair<BS, MX>]);
    family!(es, "pair_wb_wt", recv [Pair<WithBot<HS>, WithTop<MXB>>, Pair<WithBot<BS>, WithTop<MXB>>],
            extra [Pair<WithBot<SS>, WithTop<MXB>>]);
    defaults!(es, "pair_wb_wt", [Pair<WithBot<HS>, WithTop<MXB>>]);
    family!(es, "dom_max_set", recv [DomPair<MX, HS>, DomPair<MX, BS>], extra [DomPair<MX, SS>]);
    defaults!(es, "dom_max_set", [DomPair<MX, HS>, DomPair<MX, BS>]);
    family!(es, "dom_wbmax_max", recv [DomPair<WithBot<MX>, MX>], extra []);
    defaults!(es, "dom_wbmax_max", [DomPair<WithBot<MX>, MX>]);
    family!(es, "dom_min_wt", recv [DomPair<MN, WithTop<HS>>, DomPair<MN, WithTop<BS>>], extra [DomPair<MN, WithTop<SS>>]);
    defaults!(es, "dom_min_wt", [DomPair<MN, WithTop<HS>>]);
    // ---- DomPair over PARTIALLY ordered keys (not a lattice; documented join: greater key wins,
    // equal or incomparable keys merge key and value)
    family_nolaws!(es, "dom_set_set", recv [DomPair<HS, HS>, DomPair<BS, BS>], extra [DomPair<SS, SS>, DomPair<OS, HS>]);
    defaults!(es, "dom_set_set", [DomPair<HS, HS>, DomPair<BS, BS>]);
    family_nolaws!(es, "dom_vc_max", recv [DomPair<HM<MX>, MX>, DomPair<BM<MX>, MX>], extra [DomPair<SM<MX>, MX>]);
    defaults!(es, "dom_vc_max", [DomPair<HM<MX>, MX>, DomPair<BM<MX>, MX>]);
    // ---- vec
    family!(es, "vec_max", recv [VecUnion<MX>], extra []);
    defaults!(es, "vec_max", [VecUnion<MX>]);
    family!(es, "vec_set", recv [VecUnion<HS>, VecUnion<BS>], extra [VecUnion<SS>]);
    defaults!(es, "vec_set", [VecUnion<HS>, VecUnion<BS>]);
    family!(es, "vec_wb", recv [VecUnion<WithBot<MX>>], extra []);
    defaults!(es, "vec_wb", [VecUnion<WithBot<MX>>]);
    // ---- #[derive(Lattice)] struct
    family!(es, "struct3", recv [S3<HS, MX, WithBot<MXB>>, S3<BS, MX, WithBot<MXB>>], extra [S3<SS, MX, WithBot<MXB>>]);
    defaults!(es, "struct3", [S3<HS, MX, WithBot<MXB>>, S3<BS, MX, WithBot<MXB>>]);
    // ---- union-find as a lattice (histories: bin unionfind)
    merges!(es, "uf", [UFH, UFB], [UFH, UFB, UFV, UFA0, UFA1, UFA2, UFA3, UFS, UFO]);
    cmps!(es, "uf", [UFH, UFB], [UFH, UFB]);
    froms!(es, "uf", [UFH, UFB], [UFH, UFB, UFV, UFA2, UFS, UFO]);
    unaries!(es, "uf", [UFH, UFB, UFV, UFA2, UFS, UFO]);
    atomss!(es, "uf", [UFH, UFB]);
    defaults!(es, "uf", [UFH, UFB, UFO]);
    lawss!(es, "uf", [UFH, UFB]);
    es
}

fn bimo_catalogue() -> Vec<BEntry> {
    let mut bs: Vec<BEntry> = Vec::new();
    type CH = CartesianProductBimorphism<HashSet<P2>>;
    type CB = CartesianProductBimorphism<BTreeSet<P2>>;
    bimo::<CH, HS, HS>("cart", &mut bs);
    bimo::<CH, HS, BS>("cart", &mut bs);
    bimo::<CB, BS, HS>("cart", &mut bs);
    bimo::<CB, BS, BS>("cart", &mut bs);
    type KH = KeyedBimorphism<HashMap<u8, SetUnion<HashSet<P2>>>, CH>;
    type KB = KeyedBimorphism<BTreeMap<u8, SetUnion<BTreeSet<P2>>>, CB>;
    bimo::<KH, HM<HS>, HM<HS>>("keyed_cart", &mut bs);
    bimo::<KB, BM<BS>, HM<HS>>("keyed_cart", &mut bs);
    bimo::<KH, HM<HS>, BM<BS>>("keyed_cart", &mut bs);
    bimo::<KH, HM<HS>, HM<HS>>("keyed_cart1", &mut bs);
    bimo::<KB, BM<BS>, BM<BS>>("keyed_cart1", &mut bs);
    bimo::<PairBimorphism, HS, MX>("pair", &mut bs);
    bimo::<PairBimorphism, BS, MX>("pair", &mut bs);
    bs
}


// ------------------------------------------------------------------------------------------
fn opname(k: Kind) -> &'static str {
    match k {
        Kind::Merge => "merge",
        Kind::Cmp => "cmp",
        Kind::From => "from",
        Kind::Unary => "un",
        Kind::Default => "default",
        Kind::Atoms => "atoms",
        Kind::Idem => "idem",
        Kind::Comm => "comm",
        Kind::Assoc => "assoc",
    }
}
const ARGN: [&str; 3] = ["a", "b", "c"];

/// run every representation of (ty, kind) on the same arguments; one grouped event
fn run_kind(cx: &mut Ctx, cat: &[Entry], ty: &str, kind: Kind, args: &[Value]) {
    let mut results = Vec::new();
    for e in cat.iter().filter(|e| e.ty == ty && e.kind == kind) {
        match (e.run)(args) {
            Some(r) => results.push((e.rep.clone(), r)),
            None => cx.skipped += 1,
        }
    }
    let fields: Vec<(&str, &Value)> = args.iter().enumerate().map(|(i, v)| (ARGN[i], v)).collect();
    cx.emit(opname(kind), ty, &fields, results);
}

fn run_bimo(cx: &mut Ctx, bcat: &[BEntry], id: &str, side: &str, args: &[Value], only: Option<&BEntry>) {
    let mut results = Vec::new();
    for b in bcat.iter().filter(|b| b.f == id && b.side == side) {
        if only.is_some_and(|o| !std::ptr::eq(o, b)) {
            continue;
        }
        match (b.run)(args) {
            Some(r) => results.push((b.rep.clone(), r)),
            None => cx.skipped += 1,
        }
    }
    let sidev = json!(side);
    // side L: args = a, d, b ; side R: args = a, b, d
    let fields: Vec<(&str, &Value)> = if side == "L" {
        vec![("side", &sidev), ("a", &args[0]), ("d", &args[1]), ("b", &args[2])]
    } else {
        vec![("side", &sidev), ("a", &args[0]), ("b", &args[1]), ("d", &args[2])]
    };
    cx.emit("bimo", id, &fields, results);
}

fn main() {
    let args: Vec<String> = std::env::args().collect();
    let cat = catalogue();
    let bcat = bimo_catalogue();
    match args.get(1).map(|s| s.as_str()) {
        Some("list") => {
            for e in &cat {
                println!("{}\t{:?}\t{}", e.ty, e.kind, e.rep);
            }
            for b in &bcat {
                println!("{}\tBimo{}\t{}", b.f, b.side, b.rep);
            }
        }
        Some("replay") => {
            let dir = &args[2];
            let only = args.get(4).cloned();
            let mut cx = new_ctx(&args[3]);
            let mut files: Vec<String> = std::fs::read_dir(dir)
                .expect("vector dir")
                .filter_map(|e| e.ok())
                .map(|e| e.file_name().to_string_lossy().to_string())
                .filter(|n| n.ends_with(".ndjson"))
                .collect();
            files.sort();
            let mut vectors = 0u64;
            for f in files {
                let lines = hv_common::read_ndjson(&format!("{dir}/{f}"));
                let mut did_default = false;
                for line in &lines {
                    let k = line["k"].as_str().unwrap_or("");
                    if k == "b" {
                        let id = line["f"].as_str().unwrap();
                        if only.as_deref().is_some_and(|o| o != id) {
                            continue;
                        }
                        vectors += 1;
                        let side = line["side"].as_str().unwrap();
                        let a3 = if side == "L" {
                            vec![line["a"].clone(), line["d"].clone(), line["b"].clone()]
                        } else {
                            vec![line["a"].clone(), line["b"].clone(), line["d"].clone()]
                        };
                        cx.expect = None;
                        run_bimo(&mut cx, &bcat, id, side, &a3, None);
                        continue;
                    }
                    let ty = line["ty"].as_str().unwrap();
                    if only.as_deref().is_some_and(|o| o != ty) {
                        continue;
                    }
                    vectors += 1;
                    cx.expect = Some(line.clone());
                    if !did_default {
                        did_default = true;
                        run_kind(&mut cx, &cat, ty, Kind::Default, &[]);
                    }
                    let (kinds, a): (&[Kind], Vec<Value>) = match k {
                        "v" => (&[Kind::Unary, Kind::Atoms, Kind::Idem, Kind::From], vec![line["a"].clone()]),
                        "p" => (&[Kind::Merge, Kind::Cmp, Kind::Comm], vec![line["a"].clone(), line["b"].clone()]),
                        "t" => (&[Kind::Assoc], vec![line["a"].clone(), line["b"].clone(), line["c"].clone()]),
                        _ => (&[], vec![]),
                    };
                    for kind in kinds {
                        run_kind(&mut cx, &cat, ty, *kind, &a);
                    }
                }
            }
            finish(cx, vectors);
        }
        Some("random") => {
            let count: usize = args[2].parse().unwrap();
            let mut cx = new_ctx(&args[3]);
            let mut rng = Rng::new(hv_common::seed());
            let mut cases = 0u64;
            for e in &cat {
                let n = if e.kind == Kind::Default { 1 } else { count };
                for _ in 0..n {
                    let a = (e.gen_args)(&mut rng);
                    cases += 1;
                    match (e.run)(&a) {
                        Some(r) => {
                            let fields: Vec<(&str, &Value)> = a.iter().enumerate().map(|(i, v)| (ARGN[i], v)).collect();
                            cx.emit(opname(e.kind), e.ty, &fields, vec![(e.rep.clone(), r)]);
                        }
                        None => cx.skipped += 1,
                    }
                }
            }
            for b in &bcat {
                for _ in 0..count {
                    let a = (b.gen_args)(&mut rng);
                    cases += 1;
                    run_bimo(&mut cx, &bcat, b.f, b.side, &a, Some(b));
                }
            }
            finish(cx, cases);
        }
        _ => {
            eprintln!("usage: lattice replay <vector_dir> <trace> [only] | random <count> <trace> | list");
            std::process::exit(2);
        }
    }
}

fn new_ctx(path: &str) -> Ctx {
    Ctx { tr: Trace::create(path), ops: 0, skipped: 0, panics: 0, expect: None, mism: Vec::new(), per_op: BTreeMap::new() }
}

fn finish(mut cx: Ctx, cases: u64) {
    cx.tr.ev(json!({"op":"eof"}));
    let lines = cx.tr.lines;
    cx.tr.finish();
    let per: serde_json::Map<String, Value> = cx.per_op.iter().map(|(k, v)| (k.to_string(), json!(v))).collect();
    println!(
        "{}",
        json!({"cases":cases,"events":lines,"ops":cx.ops,"skipped":cx.skipped,"panics":cx.panics,
               "per_op":per,"mismatch":cx.mism})
    );
}
