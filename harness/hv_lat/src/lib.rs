//! Conformance harness for the `lattices` crate (C01-C04, C06, C07).
//!
//! `Rep` builds a real lattice value from the JSON shape used by spec/Lattice/Lattice.tla
//! (`Reps(t)`) through public constructors and reveals it again through public accessors.
//! The bins only drive the real code and record what it returned; every verdict is taken by
//! TLC evaluating LatticeTrace / UnionFindTrace on the recorded ndjson.
use std::cell::Cell;
use std::collections::{BTreeMap, BTreeSet, HashMap, HashSet};

use hv_common::{Rng, Value, json};
use lattices::collections::{
    ArrayMap, ArraySet, OptionMap, OptionSet, SingletonMap, SingletonSet, VecMap, VecSet,
};
use lattices::map_union::MapUnion;
use lattices::set_union::SetUnion;
use lattices::union_find::UnionFind;
use lattices::{Conflict, DomPair, Lattice, Max, Min, Pair, Point, VecUnion, WithBot, WithTop};

// ------------------------------------------------------------------------------------------
// step budget: a key type whose `==` counts; `find` compares keys in every loop iteration, so a
// non-terminating `find` exhausts the budget and panics (caught and logged as "budget").
// Deterministic: no wall-clock involved.
// ------------------------------------------------------------------------------------------
thread_local! {
    static STEPS: Cell<u64> = const { Cell::new(0) };
}
pub const BUDGET: u64 = 200_000;
pub const BUDGET_MSG: &str = "hv_lat: step budget exceeded";
pub fn reset_budget() {
    STEPS.with(|s| s.set(0));
}
pub fn steps() -> u64 {
    STEPS.with(|s| s.get())
}

/// Union-find key with a counting `==`.
#[derive(Copy, Clone, Debug, Hash, PartialOrd, Ord)]
pub struct CK(pub u8);
impl PartialEq for CK {
    fn eq(&self, other: &Self) -> bool {
        STEPS.with(|s| {
            let n = s.get() + 1;
            s.set(n);
            if n > BUDGET {
                s.set(0);
                panic!("{}", BUDGET_MSG);
            }
        });
        self.0 == other.0
    }
}
impl Eq for CK {}

// ------------------------------------------------------------------------------------------
// scalars (set elements, map keys)
// ------------------------------------------------------------------------------------------
pub trait Elem: Clone + Ord + Eq + std::hash::Hash + 'static {
    fn from_json(v: &Value) -> Option<Self>;
    fn to_json(&self) -> Value;
    fn random(rng: &mut Rng) -> Self;
}
impl Elem for u8 {
    fn from_json(v: &Value) -> Option<Self> {
        v.as_u64().and_then(|x| u8::try_from(x).ok())
    }
    fn to_json(&self) -> Value {
        json!(*self)
    }
    fn random(rng: &mut Rng) -> Self {
        rng.below(12) as u8
    }
}
impl Elem for CK {
    fn from_json(v: &Value) -> Option<Self> {
        u8::from_json(v).map(CK)
    }
    fn to_json(&self) -> Value {
        json!(self.0)
    }
    fn random(rng: &mut Rng) -> Self {
        CK(rng.below(8) as u8)
    }
}
impl<A: Elem, B: Elem> Elem for (A, B) {
    fn from_json(v: &Value) -> Option<Self> {
        let a = v.as_array()?;
        if a.len() != 2 {
            return None;
        }
        Some((A::from_json(&a[0])?, B::from_json(&a[1])?))
    }
    fn to_json(&self) -> Value {
        json!([self.0.to_json(), self.1.to_json()])
    }
    fn random(rng: &mut Rng) -> Self {
        (A::random(rng), B::random(rng))
    }
}

fn distinct<T: Elem>(rng: &mut Rng, n: usize) -> Vec<T> {
    let mut out: Vec<T> = Vec::new();
    let mut tries = 0;
    while out.len() < n && tries < 200 {
        let x = T::random(rng);
        if !out.contains(&x) {
            out.push(x);
        }
        tries += 1;
    }
    out
}

// ------------------------------------------------------------------------------------------
// Rep
// ------------------------------------------------------------------------------------------
pub trait Rep: Sized + Clone + 'static {
    /// Build from the JSON shape; `None` when this representation cannot hold the value
    /// (e.g. a singleton set asked to hold two elements).
    fn build(v: &Value) -> Option<Self>;
    fn reveal(&self) -> Value;
    fn random(rng: &mut Rng) -> Self;
}

/// Backing collection of a `SetUnion`.
pub trait SetBack: Sized + Clone + 'static {
    type Item: Elem;
    fn from_items(v: Vec<Self::Item>) -> Option<Self>;
    fn items(&self) -> Vec<Self::Item>;
    /// number of elements of a random value
    fn pick_len(rng: &mut Rng) -> usize {
        rng.below(6) as usize
    }
}
impl<T: Elem> SetBack for HashSet<T> {
    type Item = T;
    fn from_items(v: Vec<T>) -> Option<Self> {
        Some(v.into_iter().collect())
    }
    fn items(&self) -> Vec<T> {
        self.iter().cloned().collect()
    }
}
impl<T: Elem> SetBack for BTreeSet<T> {
    type Item = T;
    fn from_items(v: Vec<T>) -> Option<Self> {
        Some(v.into_iter().collect())
    }
    fn items(&self) -> Vec<T> {
        self.iter().cloned().collect()
    }
}
impl<T: Elem> SetBack for Vec<T> {
    type Item = T;
    fn from_items(v: Vec<T>) -> Option<Self> {
        Some(v)
    }
    fn items(&self) -> Vec<T> {
        self.clone()
    }
}
impl<T: Elem> SetBack for VecSet<T> {
    type Item = T;
    fn from_items(v: Vec<T>) -> Option<Self> {
        Some(VecSet(v))
    }
    fn items(&self) -> Vec<T> {
        self.0.clone()
    }
}
impl<T: Elem, const N: usize> SetBack for ArraySet<T, N> {
    type Item = T;
    fn from_items(v: Vec<T>) -> Option<Self> {
        <[T; N]>::try_from(v).ok().map(ArraySet)
    }
    fn items(&self) -> Vec<T> {
        self.0.to_vec()
    }
    fn pick_len(_rng: &mut Rng) -> usize {
        N
    }
}
impl<T: Elem> SetBack for SingletonSet<T> {
    type Item = T;
    fn from_items(mut v: Vec<T>) -> Option<Self> {
        if v.len() == 1 { v.pop().map(SingletonSet) } else { None }
    }
    fn items(&self) -> Vec<T> {
        vec![self.0.clone()]
    }
    fn pick_len(_rng: &mut Rng) -> usize {
        1
    }
}
impl<T: Elem> SetBack for OptionSet<T> {
    type Item = T;
    fn from_items(mut v: Vec<T>) -> Option<Self> {
        if v.len() <= 1 { Some(OptionSet(v.pop())) } else { None }
    }
    fn items(&self) -> Vec<T> {
        self.0.iter().cloned().collect()
    }
    fn pick_len(rng: &mut Rng) -> usize {
        rng.below(2) as usize
    }
}

impl<S: SetBack> Rep for SetUnion<S> {
    fn build(v: &Value) -> Option<Self> {
        let items: Option<Vec<S::Item>> = v.as_array()?.iter().map(S::Item::from_json).collect();
        S::from_items(items?).map(SetUnion::new)
    }
    fn reveal(&self) -> Value {
        let mut it = self.as_reveal_ref().items();
        it.sort();
        Value::Array(it.iter().map(Elem::to_json).collect())
    }
    fn random(rng: &mut Rng) -> Self {
        let n = S::pick_len(rng);
        let items = distinct::<S::Item>(rng, n);
        SetUnion::new(S::from_items(items).expect("random set"))
    }
}

/// Backing collection of a `MapUnion` / `UnionFind`.
pub trait MapBack: Sized + Clone + 'static {
    type K: Elem;
    type V: Rep;
    fn from_entries(v: Vec<(Self::K, Self::V)>) -> Option<Self>;
    fn entries(&self) -> Vec<(Self::K, Value)>;
    fn pick_len(rng: &mut Rng) -> usize {
        rng.below(5) as usize
    }
}
impl<K: Elem, V: Rep> MapBack for HashMap<K, V> {
    type K = K;
    type V = V;
    fn from_entries(v: Vec<(K, V)>) -> Option<Self> {
        Some(v.into_iter().collect())
    }
    fn entries(&self) -> Vec<(K, Value)> {
        self.iter().map(|(k, v)| (k.clone(), v.reveal())).collect()
    }
}
impl<K: Elem, V: Rep> MapBack for BTreeMap<K, V> {
    type K = K;
    type V = V;
    fn from_entries(v: Vec<(K, V)>) -> Option<Self> {
        Some(v.into_iter().collect())
    }
    fn entries(&self) -> Vec<(K, Value)> {
        self.iter().map(|(k, v)| (k.clone(), v.reveal())).collect()
    }
}
impl<K: Elem, V: Rep> MapBack for VecMap<K, V> {
    type K = K;
    type V = V;
    fn from_entries(v: Vec<(K, V)>) -> Option<Self> {
        let (keys, vals) = v.into_iter().unzip();
        Some(VecMap::new(keys, vals))
    }
    fn entries(&self) -> Vec<(K, Value)> {
        self.keys.iter().cloned().zip(self.vals.iter().map(Rep::reveal)).collect()
    }
}
impl<K: Elem, V: Rep, const N: usize> MapBack for ArrayMap<K, V, N> {
    type K = K;
    type V = V;
    fn from_entries(v: Vec<(K, V)>) -> Option<Self> {
        <[(K, V); N]>::try_from(v).ok().map(ArrayMap::from)
    }
    fn entries(&self) -> Vec<(K, Value)> {
        self.keys.iter().cloned().zip(self.vals.iter().map(Rep::reveal)).collect()
    }
    fn pick_len(_rng: &mut Rng) -> usize {
        N
    }
}
impl<K: Elem, V: Rep> MapBack for SingletonMap<K, V> {
    type K = K;
    type V = V;
    fn from_entries(mut v: Vec<(K, V)>) -> Option<Self> {
        if v.len() == 1 { v.pop().map(|(k, x)| SingletonMap(k, x)) } else { None }
    }
    fn entries(&self) -> Vec<(K, Value)> {
        vec![(self.0.clone(), self.1.reveal())]
    }
    fn pick_len(_rng: &mut Rng) -> usize {
        1
    }
}
impl<K: Elem, V: Rep> MapBack for OptionMap<K, V> {
    type K = K;
    type V = V;
    fn from_entries(mut v: Vec<(K, V)>) -> Option<Self> {
        if v.len() <= 1 { Some(OptionMap(v.pop())) } else { None }
    }
    fn entries(&self) -> Vec<(K, Value)> {
        self.0.iter().map(|(k, x)| (k.clone(), x.reveal())).collect()
    }
    fn pick_len(rng: &mut Rng) -> usize {
        rng.below(2) as usize
    }
}

fn entries_from_json<M: MapBack>(v: &Value) -> Option<Vec<(M::K, M::V)>> {
    v.as_array()?
        .iter()
        .map(|e| {
            let e = e.as_array()?;
            if e.len() != 2 {
                return None;
            }
            Some((M::K::from_json(&e[0])?, M::V::build(&e[1])?))
        })
        .collect()
}
fn entries_to_json<K: Elem>(mut es: Vec<(K, Value)>) -> Value {
    es.sort_by(|a, b| a.0.cmp(&b.0));
    Value::Array(es.into_iter().map(|(k, v)| json!([k.to_json(), v])).collect())
}
/// map keys are drawn from 1..=5 so that random maps overlap
fn random_keys<K: Elem>(rng: &mut Rng, n: usize) -> Vec<K> {
    let mut out: Vec<K> = Vec::new();
    let mut tries = 0;
    while out.len() < n && tries < 200 {
        let k = K::from_json(&json!(1 + rng.below(5))).expect("key");
        if !out.contains(&k) {
            out.push(k);
        }
        tries += 1;
    }
    out
}

impl<M: MapBack> Rep for MapUnion<M> {
    fn build(v: &Value) -> Option<Self> {
        M::from_entries(entries_from_json::<M>(v)?).map(MapUnion::new)
    }
    fn reveal(&self) -> Value {
        entries_to_json(self.as_reveal_ref().entries())
    }
    fn random(rng: &mut Rng) -> Self {
        let n = M::pick_len(rng);
        let ks = random_keys::<M::K>(rng, n);
        let es = ks.into_iter().map(|k| (k, M::V::random(rng))).collect();
        MapUnion::new(M::from_entries(es).expect("random map"))
    }
}

impl Rep for Cell<CK> {
    fn build(v: &Value) -> Option<Self> {
        CK::from_json(v).map(Cell::new)
    }
    fn reveal(&self) -> Value {
        self.get().to_json()
    }
    fn random(rng: &mut Rng) -> Self {
        Cell::new(CK::random(rng))
    }
}
impl<M: MapBack<K = CK, V = Cell<CK>>> Rep for UnionFind<M> {
    fn build(v: &Value) -> Option<Self> {
        M::from_entries(entries_from_json::<M>(v)?).map(UnionFind::new)
    }
    fn reveal(&self) -> Value {
        entries_to_json(self.as_reveal_ref().entries())
    }
    /// random WELL-FORMED forest: the parent of k is <= k (so there is no cycle)
    fn random(rng: &mut Rng) -> Self {
        let n = M::pick_len(rng);
        let ks = distinct::<CK>(rng, n);
        let es = ks
            .into_iter()
            .map(|k| (k, Cell::new(CK(rng.below(k.0 as u64 + 1) as u8))))
            .collect();
        UnionFind::new(M::from_entries(es).expect("random uf"))
    }
}

const NUMS: [u8; 10] = [0, 0, 1, 2, 3, 5, 9, 200, 254, 255];
impl Rep for Max<u8> {
    fn build(v: &Value) -> Option<Self> {
        u8::from_json(v).map(Max::new)
    }
    fn reveal(&self) -> Value {
        json!(*self.as_reveal_ref())
    }
    fn random(rng: &mut Rng) -> Self {
        Max::new(NUMS[rng.below(10) as usize])
    }
}
impl Rep for Min<u8> {
    fn build(v: &Value) -> Option<Self> {
        u8::from_json(v).map(Min::new)
    }
    fn reveal(&self) -> Value {
        json!(*self.as_reveal_ref())
    }
    fn random(rng: &mut Rng) -> Self {
        Min::new(NUMS[rng.below(10) as usize])
    }
}
fn bool_from(v: &Value) -> Option<bool> {
    match v.as_u64()? {
        0 => Some(false),
        1 => Some(true),
        _ => None,
    }
}
impl Rep for Max<bool> {
    fn build(v: &Value) -> Option<Self> {
        bool_from(v).map(Max::new)
    }
    fn reveal(&self) -> Value {
        json!(*self.as_reveal_ref() as u8)
    }
    fn random(rng: &mut Rng) -> Self {
        Max::new(rng.chance(1, 2))
    }
}
impl Rep for Min<bool> {
    fn build(v: &Value) -> Option<Self> {
        bool_from(v).map(Min::new)
    }
    fn reveal(&self) -> Value {
        json!(*self.as_reveal_ref() as u8)
    }
    fn random(rng: &mut Rng) -> Self {
        Min::new(rng.chance(1, 2))
    }
}
impl Rep for () {
    fn build(v: &Value) -> Option<Self> {
        (v.as_u64()? == 0).then_some(())
    }
    fn reveal(&self) -> Value {
        json!(0)
    }
    fn random(_rng: &mut Rng) -> Self {}
}
pub type Pt = Point<u8, ()>;
impl Rep for Pt {
    fn build(v: &Value) -> Option<Self> {
        u8::from_json(v).map(Point::new)
    }
    fn reveal(&self) -> Value {
        json!(self.val)
    }
    fn random(rng: &mut Rng) -> Self {
        Point::new(rng.below(4) as u8)
    }
}
impl Rep for Conflict<u8> {
    fn build(v: &Value) -> Option<Self> {
        let a = v.as_array()?;
        match a.len() {
            0 => Some(Conflict::new(None)),
            1 => u8::from_json(&a[0]).map(|x| Conflict::new(Some(x))),
            _ => None,
        }
    }
    fn reveal(&self) -> Value {
        Value::Array(self.as_reveal_ref().iter().map(|x| json!(**x)).collect())
    }
    fn random(rng: &mut Rng) -> Self {
        if rng.chance(1, 5) { Conflict::new(None) } else { Conflict::new(Some(rng.below(4) as u8)) }
    }
}
fn opt_build<V: Rep>(v: &Value) -> Option<Option<V>> {
    let a = v.as_array()?;
    match a.len() {
        0 => Some(None),
        1 => V::build(&a[0]).map(Some),
        _ => None,
    }
}
impl<V: Rep> Rep for WithBot<V> {
    fn build(v: &Value) -> Option<Self> {
        opt_build::<V>(v).map(WithBot::new)
    }
    fn reveal(&self) -> Value {
        Value::Array(self.as_reveal_ref().iter().map(|x| x.reveal()).collect())
    }
    fn random(rng: &mut Rng) -> Self {
        if rng.chance(1, 4) { WithBot::new(None) } else { WithBot::new(Some(V::random(rng))) }
    }
}
impl<V: Rep> Rep for WithTop<V> {
    fn build(v: &Value) -> Option<Self> {
        opt_build::<V>(v).map(WithTop::new)
    }
    fn reveal(&self) -> Value {
        Value::Array(self.as_reveal_ref().iter().map(|x| x.reveal()).collect())
    }
    fn random(rng: &mut Rng) -> Self {
        if rng.chance(1, 4) { WithTop::new(None) } else { WithTop::new(Some(V::random(rng))) }
    }
}
impl<A: Rep, B: Rep> Rep for Pair<A, B> {
    fn build(v: &Value) -> Option<Self> {
        let a = v.as_array()?;
        if a.len() != 2 {
            return None;
        }
        Some(Pair::new(A::build(&a[0])?, B::build(&a[1])?))
    }
    fn reveal(&self) -> Value {
        let (a, b) = self.as_reveal_ref();
        json!([a.reveal(), b.reveal()])
    }
    fn random(rng: &mut Rng) -> Self {
        Pair::new(A::random(rng), B::random(rng))
    }
}
impl<A: Rep, B: Rep> Rep for DomPair<A, B> {
    fn build(v: &Value) -> Option<Self> {
        let a = v.as_array()?;
        if a.len() != 2 {
            return None;
        }
        Some(DomPair::new(A::build(&a[0])?, B::build(&a[1])?))
    }
    fn reveal(&self) -> Value {
        let (a, b) = self.as_reveal_ref();
        json!([a.reveal(), b.reveal()])
    }
    fn random(rng: &mut Rng) -> Self {
        DomPair::new(A::random(rng), B::random(rng))
    }
}
impl<V: Rep> Rep for VecUnion<V> {
    fn build(v: &Value) -> Option<Self> {
        let items: Option<Vec<V>> = v.as_array()?.iter().map(V::build).collect();
        items.map(VecUnion::new)
    }
    fn reveal(&self) -> Value {
        Value::Array(self.as_reveal_ref().iter().map(Rep::reveal).collect())
    }
    fn random(rng: &mut Rng) -> Self {
        let n = rng.below(4) as usize;
        VecUnion::new((0..n).map(|_| V::random(rng)).collect())
    }
}

/// A user struct with `#[derive(Lattice)]` (lattices_macro), three differently typed fields.
#[derive(Clone, Debug, Default, Lattice)]
pub struct S3<KeySet, Epoch, Flag> {
    pub keys: KeySet,
    pub epoch: Epoch,
    pub flag: Flag,
}
impl<A: Rep, B: Rep, C: Rep> Rep for S3<A, B, C> {
    fn build(v: &Value) -> Option<Self> {
        let a = v.as_array()?;
        if a.len() != 3 {
            return None;
        }
        Some(S3 { keys: A::build(&a[0])?, epoch: B::build(&a[1])?, flag: C::build(&a[2])? })
    }
    fn reveal(&self) -> Value {
        json!([self.keys.reveal(), self.epoch.reveal(), self.flag.reveal()])
    }
    fn random(rng: &mut Rng) -> Self {
        S3 { keys: A::random(rng), epoch: B::random(rng), flag: C::random(rng) }
    }
}

/// short printable name of a Rust type
pub fn tname<T>() -> String {
    let s = std::any::type_name::<T>();
    let mut out = String::new();
    let mut tok = String::new();
    for ch in s.chars() {
        if ch.is_alphanumeric() || ch == '_' || ch == ':' {
            tok.push(ch);
        } else {
            out.push_str(tok.rsplit("::").next().unwrap_or(""));
            tok.clear();
            if ch != ' ' {
                out.push(ch);
            }
        }
    }
    out.push_str(tok.rsplit("::").next().unwrap_or(""));
    out
}

pub fn cmp_code(o: Option<std::cmp::Ordering>) -> i64 {
    match o {
        Some(std::cmp::Ordering::Less) => -1,
        Some(std::cmp::Ordering::Equal) => 0,
        Some(std::cmp::Ordering::Greater) => 1,
        None => 2,
    }
}
