//! C08 / C10 harness: drives the REAL generalized hash tries (lattices::ght) and variadic
//! collections (variadics::variadic_collections) through operation scripts on two stores
//! (1 and 2) of one concrete type, logging what every call returned.  Verdicts come from TLC
//! (spec/TupleStore/TupleStoreTrace.tla).
//!
//!   tuplestore replay <cases.ndjson> <trace_out.ndjson>
//!       case: {"id":k,"ty":TYPE,"ops":[{"op":..,"s":1|2,"row":[..],"rows":[[..]..],"head":h,"prefix":[..]}..]}
//!   tuplestore random <count> <maxops> <nvals> <trace_out.ndjson>
//! Store types: vhs vchs vcm (variadic collections over (u8,u8)); g0 g1 g2 (tries over (u8,u8):
//! ()=>u8,u8 / u8=>u8 / u8,u8=>()), g3 g4 (over (u8,u8,u8): u8=>u8,u8 / u8,u8=>u8), all with
//! VariadicHashSetStd leaves; g1c g1m (u8=>u8 with counted / column multiset leaves).
//! stdout: one JSON summary {cases, events}.
use std::cmp::Ordering;

use hv_common::{Rng, Trace, Value, json};
use lattices::ght::lattice::{
    DeepJoinLatticeBimorphism, GhtBimorphism, GhtCartesianProductBimorphism, GhtValTypeProductBimorphism,
};
use lattices::ght::{GeneralizedHashTrieNode, GhtGet, GhtPrefixIter};
use lattices::{GhtType, LatticeBimorphism, Merge};
use variadics::variadic_collections::{
    VariadicCollection, VariadicColumnMultiset, VariadicCountedHashSetStd, VariadicHashSetStd,
};
use variadics::{VariadicExt, var_expr, var_type};

type R2 = var_type!(u8, u8);
type R3 = var_type!(u8, u8, u8);
type R4 = var_type!(u8, u8, u8, u8);

static BYTES: [u8; 256] = {
    let mut a = [0u8; 256];
    let mut i = 0;
    while i < 256 {
        a[i] = i as u8;
        i += 1;
    }
    a
};
/// a `&'static u8` for a runtime value (prefix_iter on leaves needs 'static prefixes)
fn sref(v: u8) -> &'static u8 {
    &BYTES[v as usize]
}

trait Row: Sized + Clone {
    #[allow(dead_code)]
    const W: usize;
    fn mk(v: &[u8]) -> Self;
    fn vec(&self) -> Vec<u8>;
    fn rvec(r: <Self as VariadicExt>::AsRefVar<'_>) -> Vec<u8>
    where
        Self: VariadicExt;
}
impl Row for R2 {
    const W: usize = 2;
    fn mk(v: &[u8]) -> Self {
        var_expr!(v[0], v[1])
    }
    fn vec(&self) -> Vec<u8> {
        vec![self.0, self.1.0]
    }
    fn rvec(r: (&u8, (&u8, ()))) -> Vec<u8> {
        vec![*r.0, *r.1.0]
    }
}
impl Row for R3 {
    const W: usize = 3;
    fn mk(v: &[u8]) -> Self {
        var_expr!(v[0], v[1], v[2])
    }
    fn vec(&self) -> Vec<u8> {
        vec![self.0, self.1.0, self.1.1.0]
    }
    fn rvec(r: (&u8, (&u8, (&u8, ())))) -> Vec<u8> {
        vec![*r.0, *r.1.0, *r.1.1.0]
    }
}
impl Row for R4 {
    const W: usize = 4;
    fn mk(v: &[u8]) -> Self {
        var_expr!(v[0], v[1], v[2], v[3])
    }
    fn vec(&self) -> Vec<u8> {
        vec![self.0, self.1.0, self.1.1.0, self.1.1.1.0]
    }
    fn rvec(r: (&u8, (&u8, (&u8, (&u8, ()))))) -> Vec<u8> {
        vec![*r.0, *r.1.0, *r.1.1.0, *r.1.1.1.0]
    }
}

fn sorted(mut v: Vec<Vec<u8>>) -> Value {
    v.sort();
    json!(v)
}

/// One operation of a script.
struct Op<'a> {
    name: &'a str,
    s: usize,
    row: Vec<u8>,
    rows: Vec<Vec<u8>>,
    head: u8,
    prefix: Vec<u8>,
    /// distributivity events (C07): bimorphism name, side "l"|"r", and the row lists a, da, b
    bim: String,
    side: String,
    a: Vec<Vec<u8>>,
    da: Vec<Vec<u8>>,
    b: Vec<Vec<u8>>,
}

/// A pair of stores (1 and 2) of one concrete type.  `None` = operation not offered by the type.
trait Pair {
    fn apply(&mut self, op: &Op) -> Option<Value>;
}

fn ord(o: Option<Ordering>) -> &'static str {
    match o {
        Some(Ordering::Less) => "lt",
        Some(Ordering::Equal) => "eq",
        Some(Ordering::Greater) => "gt",
        None => "none",
    }
}

// ---------------------------------------------------------------------------------------------
// variadic collections over R2
struct Coll<C> {
    st: [C; 2],
    kind: &'static str,
}
macro_rules! coll_common {
    ($me:ident, $op:ident, $C:ty) => {{
        let s = $op.s.saturating_sub(1).min(1);
        match $op.name {
            "insert" => Some(json!($me.st[s].insert(R2::mk(&$op.row)))),
            "extend" => {
                $me.st[s].extend($op.rows.iter().map(|r| R2::mk(r)));
                Some(json!(true))
            }
            "drain" => {
                let got: Vec<Vec<u8>> = $me.st[s].drain().map(|r| r.vec()).collect();
                Some(sorted(got))
            }
            "contains" => Some(json!($me.st[s].contains(R2::mk(&$op.row).as_ref_var()))),
            "iter" => Some(sorted($me.st[s].iter().map(R2::rvec).collect())),
            "len" => Some(json!([$me.st[s].len(), $me.st[s].is_empty()])),
            "intoiter" => {
                let taken = std::mem::take(&mut $me.st[s]);
                Some(sorted(taken.into_iter().map(|r| r.vec()).collect()))
            }
            "copy" => {
                // store s := clone of the other store
                $me.st[s] = $me.st[1 - s].clone();
                Some(json!(true))
            }
            _ => None,
        }
    }};
}
impl Pair for Coll<VariadicHashSetStd<R2>> {
    fn apply(&mut self, op: &Op) -> Option<Value> {
        let s = op.s.saturating_sub(1).min(1);
        match op.name {
            "get" => Some(match self.st[s].get(R2::mk(&op.row).as_ref_var()) {
                Some(r) => json!([r.vec(), 1]),
                None => json!([[], 0]),
            }),
            "eq" => Some(json!(self.st[0] == self.st[1])),
            _ => coll_common!(self, op, VariadicHashSetStd<R2>),
        }
    }
}
impl Pair for Coll<VariadicCountedHashSetStd<R2>> {
    fn apply(&mut self, op: &Op) -> Option<Value> {
        let s = op.s.saturating_sub(1).min(1);
        match op.name {
            "get" => Some(match self.st[s].get(R2::mk(&op.row).as_ref_var()) {
                Some((r, n)) => json!([r.vec(), n]),
                None => json!([[], 0]),
            }),
            "eq" => Some(json!(self.st[0] == self.st[1])),
            _ => coll_common!(self, op, VariadicCountedHashSetStd<R2>),
        }
    }
}
impl Pair for Coll<VariadicColumnMultiset<R2>> {
    fn apply(&mut self, op: &Op) -> Option<Value> {
        let _ = self.kind;
        coll_common!(self, op, VariadicColumnMultiset<R2>)
    }
}

// ---------------------------------------------------------------------------------------------
// generalized hash tries
struct Ght<G> {
    st: [G; 2],
}

/// operations every trie offers (any leaf storage)
macro_rules! ght_common {
    ($me:ident, $op:ident, $G:ty, $R:ty) => {{
        let s = $op.s.saturating_sub(1).min(1);
        match $op.name {
            "insert" => Some(json!($me.st[s].insert(<$R>::mk(&$op.row)))),
            "extend" => {
                // new_from over the rows, merged node-wise into the store
                let other = <$G>::new_from($op.rows.iter().map(|r| <$R>::mk(r)));
                Some(json!($me.st[s].merge_node(other)))
            }
            "contains" => Some(json!($me.st[s].contains(<$R>::mk(&$op.row).as_ref_var()))),
            "iter" => Some(sorted($me.st[s].recursive_iter().map(<$R>::rvec).collect())),
            "len" => {
                let n = $me.st[s].recursive_iter().count();
                Some(json!([n, n == 0]))
            }
            "height" => Some(json!($me.st[s].height())),
            "mergenode" => {
                let other = $me.st[1 - s].clone();
                Some(json!($me.st[s].merge_node(other)))
            }
            "leaf" => Some(match $me.st[s].find_containing_leaf(<$R>::mk(&$op.row).as_ref_var()) {
                Some(l) => json!([true, sorted(l.recursive_iter().map(<$R>::rvec).collect())]),
                None => json!([false, []]),
            }),
            "copy" => {
                $me.st[s] = $me.st[1 - s].clone();
                Some(json!(true))
            }
            "drain" => Some(match $me.st[s].drain() {
                Some(it) => json!([true, sorted(it.map(|r| r.vec()).collect())]),
                None => json!([false, []]),
            }),
            _ => None,
        }
    }};
}
/// operations of tries whose leaves are sets (the lattice operations)
macro_rules! ght_lattice {
    ($me:ident, $op:ident) => {{
        let s = $op.s.saturating_sub(1).min(1);
        match $op.name {
            "merge" => {
                let other = $me.st[1 - s].clone();
                Some(json!(Merge::merge(&mut $me.st[s], other)))
            }
            "eq" => Some(json!($me.st[0] == $me.st[1])),
            "cmp" => Some(json!(ord($me.st[0].partial_cmp(&$me.st[1])))),
            _ => None,
        }
    }};
}
/// head-keyed access of inner nodes
macro_rules! ght_inner {
    ($me:ident, $op:ident, $R:ty) => {{
        let s = $op.s.saturating_sub(1).min(1);
        match $op.name {
            "heads" => {
                let mut h: Vec<u8> = GhtGet::iter(&$me.st[s]).collect();
                h.sort();
                Some(json!(h))
            }
            "child" => Some(match GhtGet::get(&$me.st[s], &$op.head) {
                Some(n) => json!([true, sorted(n.recursive_iter().map(<$R>::rvec).collect())]),
                None => json!([false, []]),
            }),
            _ => None,
        }
    }};
}

/// Distributivity of a bimorphism `f` in one argument, computed with the real code:
/// side "l": lhs = f(a |_| da, b), rhs = f(a, b) |_| f(da, b);  side "r": lhs = f(b, a |_| da), rhs = f(b, a) |_| f(b, da)
/// (`a`/`da` always denote the argument that grows).  Returns [lhs rows, rhs rows, lhs == rhs].
fn dist<G, RG, Out, RO>(op: &Op, f: impl Fn(&G, &G) -> Out) -> Value
where
    G: GeneralizedHashTrieNode<Schema = RG> + Merge<G> + Clone,
    RG: Row + VariadicExt,
    Out: GeneralizedHashTrieNode<Schema = RO> + Merge<Out> + PartialEq,
    RO: Row + VariadicExt,
{
    let mk = |rows: &Vec<Vec<u8>>| G::new_from(rows.iter().map(|r| RG::mk(r)));
    let (a, da, b) = (mk(&op.a), mk(&op.da), mk(&op.b));
    let mut grown = a.clone();
    Merge::merge(&mut grown, da.clone());
    let left = op.side == "l";
    let call = |x: &G| if left { f(x, &b) } else { f(&b, x) };
    let lhs = call(&grown);
    let mut rhs = call(&a);
    Merge::merge(&mut rhs, call(&da));
    let eq = lhs == rhs;
    json!([sorted(lhs.recursive_iter().map(RO::rvec).collect()), sorted(rhs.recursive_iter().map(RO::rvec).collect()), eq])
}

type G0 = GhtType!(() => u8, u8: VariadicHashSetStd);
type G1 = GhtType!(u8 => u8: VariadicHashSetStd);
type G2 = GhtType!(u8, u8 => (): VariadicHashSetStd);
type G3 = GhtType!(u8 => u8, u8: VariadicHashSetStd);
type G4 = GhtType!(u8, u8 => u8: VariadicHashSetStd);
type G1C = GhtType!(u8 => u8: VariadicCountedHashSetStd);
type G1M = GhtType!(u8 => u8: VariadicColumnMultiset);

fn prefix2<G>(g: &G, p: &[u8]) -> Option<Value>
where
    G: GhtPrefixIter<(), Item = R2>
        + GhtPrefixIter<(&'static u8, ()), Item = R2>
        + GhtPrefixIter<(&'static u8, (&'static u8, ())), Item = R2>,
{
    let rows: Vec<Vec<u8>> = match p.len() {
        0 => <G as GhtPrefixIter<()>>::prefix_iter(g, ()).map(R2::rvec).collect(),
        1 => <G as GhtPrefixIter<(&'static u8, ())>>::prefix_iter(g, (sref(p[0]), ()))
            .map(R2::rvec)
            .collect(),
        2 => <G as GhtPrefixIter<(&'static u8, (&'static u8, ()))>>::prefix_iter(g, (sref(p[0]), (sref(p[1]), ())))
            .map(R2::rvec)
            .collect(),
        _ => return None,
    };
    Some(sorted(rows))
}
fn prefix3<G>(g: &G, p: &[u8]) -> Option<Value>
where
    G: GhtPrefixIter<(), Item = R3>
        + GhtPrefixIter<(&'static u8, ()), Item = R3>
        + GhtPrefixIter<(&'static u8, (&'static u8, ())), Item = R3>
        + GhtPrefixIter<(&'static u8, (&'static u8, (&'static u8, ()))), Item = R3>,
{
    let rows: Vec<Vec<u8>> = match p.len() {
        0 => <G as GhtPrefixIter<()>>::prefix_iter(g, ()).map(R3::rvec).collect(),
        1 => <G as GhtPrefixIter<(&'static u8, ())>>::prefix_iter(g, (sref(p[0]), ()))
            .map(R3::rvec)
            .collect(),
        2 => <G as GhtPrefixIter<(&'static u8, (&'static u8, ()))>>::prefix_iter(g, (sref(p[0]), (sref(p[1]), ())))
            .map(R3::rvec)
            .collect(),
        3 => <G as GhtPrefixIter<(&'static u8, (&'static u8, (&'static u8, ())))>>::prefix_iter(
            g,
            (sref(p[0]), (sref(p[1]), (sref(p[2]), ()))),
        )
        .map(R3::rvec)
        .collect(),
        _ => return None,
    };
    Some(sorted(rows))
}

impl Pair for Ght<G0> {
    fn apply(&mut self, op: &Op) -> Option<Value> {
        let s = op.s.saturating_sub(1).min(1);
        if op.name == "prefix" {
            return prefix2(&self.st[s], &op.prefix);
        }
        if op.name == "dist" && op.bim == "valprod" {
            // product of the value columns of two leaves: (a cols, b cols)
            type Out = GhtType!(() => u8, u8, u8, u8: VariadicHashSetStd);
            return Some(dist::<G0, R2, Out, R4>(op, |x, y| GhtValTypeProductBimorphism::<Out>::default().call(x, y)));
        }
        ght_lattice!(self, op).or_else(|| ght_common!(self, op, G0, R2))
    }
}
impl Pair for Ght<G1> {
    fn apply(&mut self, op: &Op) -> Option<Value> {
        let s = op.s.saturating_sub(1).min(1);
        match op.name {
            "prefix" => return prefix2(&self.st[s], &op.prefix),
            "cart" => {
                // cartesian product of the two tries at the root: all columns of 1 x all columns of 2
                type Out = GhtType!(u8, u8 => u8, u8: VariadicHashSetStd);
                let mut bim = GhtCartesianProductBimorphism::<Out>::default();
                let out = bim.call(&self.st[0], &self.st[1]);
                return Some(sorted(out.recursive_iter().map(R4::rvec).collect()));
            }
            "dist" => {
                type CartOut = GhtType!(u8, u8 => u8, u8: VariadicHashSetStd);
                type Bim = <(G1, G1) as DeepJoinLatticeBimorphism<VariadicHashSetStd<R3>>>::DeepJoinLatticeBimorphism;
                return match op.bim.as_str() {
                    "cart" => Some(dist::<G1, R2, CartOut, R4>(op, |x, y| {
                        GhtCartesianProductBimorphism::<CartOut>::default().call(x, y)
                    })),
                    "join" => Some(dist::<G1, R2, _, R3>(op, |x, y| <Bim as Default>::default().call(x, y))),
                    // the by-value wrapper GhtBimorphism around the same node bimorphism
                    "wrap" => Some(dist::<G1, R2, _, R3>(op, |x, y| {
                        GhtBimorphism::new(<Bim as Default>::default()).call(x.clone(), y.clone())
                    })),
                    _ => None,
                };
            }
            "join" => {
                // equijoin on the key column: (k, va, vb)
                type Bim = <(G1, G1) as DeepJoinLatticeBimorphism<VariadicHashSetStd<R3>>>::DeepJoinLatticeBimorphism;
                let mut bim = <Bim as Default>::default();
                let out = bim.call(&self.st[0], &self.st[1]);
                return Some(sorted(out.recursive_iter().map(R3::rvec).collect()));
            }
            _ => {}
        }
        ght_lattice!(self, op)
            .or_else(|| ght_inner!(self, op, R2))
            .or_else(|| ght_common!(self, op, G1, R2))
    }
}
impl Pair for Ght<G2> {
    fn apply(&mut self, op: &Op) -> Option<Value> {
        let s = op.s.saturating_sub(1).min(1);
        if op.name == "prefix" {
            return prefix2(&self.st[s], &op.prefix);
        }
        ght_lattice!(self, op)
            .or_else(|| ght_inner!(self, op, R2))
            .or_else(|| ght_common!(self, op, G2, R2))
    }
}
impl Pair for Ght<G3> {
    fn apply(&mut self, op: &Op) -> Option<Value> {
        let s = op.s.saturating_sub(1).min(1);
        if op.name == "prefix" {
            return prefix3(&self.st[s], &op.prefix);
        }
        ght_lattice!(self, op)
            .or_else(|| ght_inner!(self, op, R3))
            .or_else(|| ght_common!(self, op, G3, R3))
    }
}
impl Pair for Ght<G4> {
    fn apply(&mut self, op: &Op) -> Option<Value> {
        let s = op.s.saturating_sub(1).min(1);
        match op.name {
            "prefix" => return prefix3(&self.st[s], &op.prefix),
            "dist" if op.bim == "join" => {
                type Bim = <(G4, G4) as DeepJoinLatticeBimorphism<VariadicHashSetStd<R4>>>::DeepJoinLatticeBimorphism;
                return Some(dist::<G4, R3, _, R4>(op, |x, y| <Bim as Default>::default().call(x, y)));
            }
            "join" => {
                // equijoin on both key columns: (k1, k2, va, vb)
                type Bim = <(G4, G4) as DeepJoinLatticeBimorphism<VariadicHashSetStd<R4>>>::DeepJoinLatticeBimorphism;
                let mut bim = <Bim as Default>::default();
                let out = bim.call(&self.st[0], &self.st[1]);
                return Some(sorted(out.recursive_iter().map(R4::rvec).collect()));
            }
            _ => {}
        }
        ght_lattice!(self, op)
            .or_else(|| ght_inner!(self, op, R3))
            .or_else(|| ght_common!(self, op, G4, R3))
    }
}
impl Pair for Ght<G1C> {
    fn apply(&mut self, op: &Op) -> Option<Value> {
        let s = op.s.saturating_sub(1).min(1);
        if op.name == "prefix" {
            return prefix2(&self.st[s], &op.prefix);
        }
        ght_inner!(self, op, R2).or_else(|| ght_common!(self, op, G1C, R2))
    }
}
impl Pair for Ght<G1M> {
    fn apply(&mut self, op: &Op) -> Option<Value> {
        let s = op.s.saturating_sub(1).min(1);
        if op.name == "prefix" {
            return prefix2(&self.st[s], &op.prefix);
        }
        ght_inner!(self, op, R2).or_else(|| ght_common!(self, op, G1M, R2))
    }
}

/// (pair, semantics "set"|"bag", row width, number of key columns, family "coll"|"ght")
fn make(ty: &str) -> (Box<dyn Pair>, &'static str, usize, usize, &'static str) {
    fn c<C: Default>(kind: &'static str) -> Coll<C> {
        Coll { st: [C::default(), C::default()], kind }
    }
    fn g<G: Default>() -> Ght<G> {
        Ght { st: [G::default(), G::default()] }
    }
    match ty {
        "vhs" => (Box::new(c::<VariadicHashSetStd<R2>>("vhs")), "set", 2, 0, "coll"),
        "vchs" => (Box::new(c::<VariadicCountedHashSetStd<R2>>("vchs")), "bag", 2, 0, "coll"),
        "vcm" => (Box::new(c::<VariadicColumnMultiset<R2>>("vcm")), "bag", 2, 0, "coll"),
        "g0" => (Box::new(g::<G0>()), "set", 2, 0, "ght"),
        "g1" => (Box::new(g::<G1>()), "set", 2, 1, "ght"),
        "g2" => (Box::new(g::<G2>()), "set", 2, 2, "ght"),
        "g3" => (Box::new(g::<G3>()), "set", 3, 1, "ght"),
        "g4" => (Box::new(g::<G4>()), "set", 3, 2, "ght"),
        "g1c" => (Box::new(g::<G1C>()), "bag", 2, 1, "ght"),
        "g1m" => (Box::new(g::<G1M>()), "bag", 2, 1, "ght"),
        other => panic!("unknown store type {other}"),
    }
}

const TYPES: [&str; 10] = ["vhs", "vchs", "vcm", "g0", "g1", "g2", "g3", "g4", "g1c", "g1m"];

fn ops_of(ty: &str) -> Vec<&'static str> {
    let mut v = vec!["insert", "insert", "insert", "extend", "contains", "iter", "len", "copy"];
    match ty {
        "vhs" | "vchs" => v.extend(["drain", "get", "eq", "intoiter"]),
        "vcm" => v.extend(["drain", "intoiter"]),
        _ => {
            v.extend(["mergenode", "leaf", "height", "prefix", "prefix", "drain"]);
            if !matches!(ty, "g1c" | "g1m") {
                v.extend(["merge", "merge", "eq", "cmp", "cmp"]);
            }
            if ty != "g0" {
                v.extend(["heads", "child"]);
            }
            if ty == "g1" {
                v.extend(["cart", "join", "dist", "dist"]);
            }
            if ty == "g4" {
                v.extend(["join", "dist"]);
            }
            if ty == "g0" {
                v.push("dist");
            }
        }
    }
    v
}

fn run_case(id: u64, ty: &str, ops: &[Value], tr: &mut Trace) {
    let (mut pair, sem, width, keys, fam) = make(ty);
    tr.ev(json!({"e":"reset","case":id,"ty":ty,"sem":sem,"width":width,"keys":keys,"fam":fam}));
    for o in ops {
        let op = Op {
            name: o["op"].as_str().unwrap(),
            s: o["s"].as_u64().unwrap_or(1) as usize,
            row: serde_json::from_value(o["row"].clone()).unwrap_or_default(),
            rows: serde_json::from_value(o["rows"].clone()).unwrap_or_default(),
            head: o["head"].as_u64().unwrap_or(0) as u8,
            prefix: serde_json::from_value(o["prefix"].clone()).unwrap_or_default(),
            bim: o["bim"].as_str().unwrap_or("").to_string(),
            side: o["side"].as_str().unwrap_or("").to_string(),
            a: serde_json::from_value(o["a"].clone()).unwrap_or_default(),
            da: serde_json::from_value(o["da"].clone()).unwrap_or_default(),
            b: serde_json::from_value(o["b"].clone()).unwrap_or_default(),
        };
        let is_dist = op.name == "dist";
        let pr = &mut pair;
        let got = hv_common::catch(move || pr.apply(&op));
        let mut ev = json!({"e":"op","op":o["op"],"s":o["s"].as_u64().unwrap_or(1),
            "row":o.get("row").cloned().unwrap_or(json!([])),
            "rows":o.get("rows").cloned().unwrap_or(json!([])),
            "head":o.get("head").cloned().unwrap_or(json!(0)),
            "prefix":o.get("prefix").cloned().unwrap_or(json!([]))});
        if is_dist {
            ev = json!({"e":"dist","op":"dist","s":1,"bim":o["bim"],"side":o["side"],"a":o["a"],"da":o["da"],"b":o["b"]});
        }
        let m = ev.as_object_mut().unwrap();
        match got {
            Ok(Some(v)) => {
                m.insert("panic".into(), json!(false));
                m.insert("ret".into(), v);
            }
            Ok(None) => {
                eprintln!("operation {} not offered by store type {}", o["op"], ty);
                std::process::exit(3);
            }
            Err(msg) => {
                m.insert("panic".into(), json!(true));
                m.insert("ret".into(), json!(msg));
                tr.ev(ev);
                // the stores may be in an arbitrary state after a panic: end the case here
                return;
            }
        }
        tr.ev(ev);
    }
}

fn main() {
    let args: Vec<String> = std::env::args().collect();
    let mut cases = 0usize;
    match args.get(1).map(|s| s.as_str()) {
        Some("replay") => {
            let input = hv_common::read_ndjson(&args[2]);
            let mut tr = Trace::create(&args[3]);
            for c in &input {
                run_case(c["id"].as_u64().unwrap(), c["ty"].as_str().unwrap(), c["ops"].as_array().unwrap(), &mut tr);
                cases += 1;
            }
            tr.ev(json!({"e":"eof"}));
            let events = tr.lines;
            tr.finish();
            println!("{}", json!({"cases":cases,"events":events}));
        }
        Some("random") => {
            let count: usize = args[2].parse().unwrap();
            let maxops: u64 = args[3].parse().unwrap();
            let nvals: u64 = args[4].parse().unwrap();
            let mut tr = Trace::create(&args[5]);
            let mut rng = Rng::new(hv_common::seed() ^ 0x7457);
            for i in 0..count {
                let ty = TYPES[i % TYPES.len()];
                let (_, _, width, _, _) = make(ty);
                let menu = ops_of(ty);
                let n = 3 + rng.below(maxops);
                let row = |rng: &mut Rng| -> Vec<u8> { (0..width).map(|_| rng.below(nvals) as u8).collect() };
                let ops: Vec<Value> = (0..n)
                    .map(|_| {
                        let name = menu[rng.below(menu.len() as u64) as usize];
                        let s = 1 + rng.below(2);
                        let k = rng.below(6);
                        let rows: Vec<Vec<u8>> = (0..k).map(|_| row(&mut rng)).collect();
                        let plen = rng.below(width as u64 + 1) as usize;
                        let prefix: Vec<u8> = row(&mut rng)[..plen].to_vec();
                        if name == "dist" {
                            let bims: &[&str] = match ty {
                                "g0" => &["valprod"],
                                "g1" => &["cart", "join", "wrap"],
                                _ => &["join"],
                            };
                            let some = |rng: &mut Rng| -> Vec<Vec<u8>> { (0..rng.below(6)).map(|_| row(rng)).collect() };
                            return json!({"op":"dist","bim":bims[rng.below(bims.len() as u64) as usize],
                                "side": if rng.below(2) == 0 { "l" } else { "r" },
                                "a":some(&mut rng),"da":some(&mut rng),"b":some(&mut rng)});
                        }
                        json!({"op":name,"s":s,"row":row(&mut rng),"rows":rows,"head":rng.below(nvals),"prefix":prefix})
                    })
                    .collect();
                run_case(i as u64 + 1, ty, &ops, &mut tr);
                cases += 1;
            }
            tr.ev(json!({"e":"eof"}));
            let events = tr.lines;
            tr.finish();
            println!("{}", json!({"cases":cases,"events":events}));
        }
        _ => {
            eprintln!("usage: tuplestore replay|random ...");
            std::process::exit(2);
        }
    }
}
