//! C09 harness: feeds operation tables (closures over arrays) to the REAL law checkers of
//! `lattices::algebra` and the real semiring applications of `lattices::semiring_application`,
//! logging what they returned.  No verdict is decided here: TLC evaluates the TLA+ laws on the
//! logged tables (spec/AlgebraLaws/AlgebraLawsTrace.tla).
//!
//!   algebra replay <cases.ndjson> <trace_out.ndjson>
//!     case line: {"id":k,"c":{"kind":..,"n":..,"m":..,"f":[[..]],"g":..,"h":..,"p":..,"q":[..],"u":..,"w":..}}
//!                or {"id":k,"c":{"kind":"app","app":NAME,"items":[codes]}}
//! stdout: one JSON summary {cases, events}.
use hv_common::{Trace, Value, json};
use lattices::algebra as alg;
use lattices::semiring_application::{
    BinaryTrust, ConfidenceScore, Cost, FuzzyLogic, Multiplicity, U32WithInfinity,
};
use lattices::{Addition, Multiplication, One, Zero};

type T2 = Vec<Vec<u8>>;
type T1 = Vec<u8>;

fn t2(v: &Value) -> T2 {
    serde_json::from_value(v.clone()).unwrap_or_default()
}
fn t1(v: &Value) -> T1 {
    serde_json::from_value(v.clone()).unwrap_or_default()
}

/// Result of a checker call as a message: "" = Ok, "PANIC" = panicked, else the Err text.
fn msg(r: Result<Result<(), &'static str>, String>) -> Value {
    match r {
        Ok(Ok(())) => json!(""),
        Ok(Err(m)) => json!(m),
        Err(_) => json!("PANIC"),
    }
}
macro_rules! call {
    ($e:expr) => {
        msg(hv_common::catch(|| $e))
    };
}

fn by_e<const N: usize>(f: impl Fn(u8) -> Value) -> Value {
    Value::Array((0..N as u8).map(&f).collect())
}
fn by_ez<const N: usize>(f: impl Fn(u8, u8) -> Value) -> Value {
    Value::Array(
        (0..N as u8)
            .map(|a| Value::Array((0..N as u8).map(|b| f(a, b)).collect()))
            .collect(),
    )
}

fn run_n<const N: usize>(kind: &str, c: &Value) -> Value {
    let items: [u8; N] = core::array::from_fn(|i| i as u8);
    let ft = t2(&c["f"]);
    let gt = t2(&c["g"]);
    let ut = t1(&c["u"]);
    let wt = t1(&c["w"]);
    let f = |a: u8, b: u8| ft[a as usize][b as usize];
    let g = |a: u8, b: u8| gt[a as usize][b as usize];
    let u = |a: u8| ut[a as usize];
    let w = |a: u8| wt[a as usize];
    match kind {
        "one" => json!({
            "assoc": call!(alg::associativity(&items, f)),
            "comm": call!(alg::commutativity(&items, f)),
            "idem": call!(alg::idempotency(&items, f)),
            "semigroup": call!(alg::semigroup(&items, &f)),
            "identity": by_e::<N>(|e| call!(alg::identity(&items, f, e))),
            "absorbing": by_e::<N>(|e| call!(alg::absorbing_element(&items, f, e))),
            "monoid": by_e::<N>(|e| call!(alg::monoid(&items, &f, e))),
            "cmonoid": by_e::<N>(|e| call!(alg::commutative_monoid(&items, &f, e))),
            "nzd": by_e::<N>(|e| call!(alg::no_nonzero_zero_divisors(&items, &f, e))),
        }),
        "unary" => json!({
            "inverse": by_e::<N>(|e| call!(alg::inverse(&items, f, e, u))),
            "group": by_e::<N>(|e| call!(alg::group(&items, &f, e, &u))),
            "abelian": by_e::<N>(|e| call!(alg::abelian_group(&items, &f, e, &u))),
            "nzinverse": by_ez::<N>(|e, z| call!(alg::nonzero_inverse(&items, f, e, z, u))),
            "props": by_ez::<N>(|e, z| {
                match hv_common::catch(|| alg::get_single_function_properties(&items, f, e, u, z)) {
                    Ok(v) => json!(v),
                    Err(_) => json!(["PANIC"]),
                }
            }),
        }),
        "two" => json!({
            "ldistr": call!(alg::left_distributes(&items, f, g)),
            "rdistr": call!(alg::right_distributes(&items, f, g)),
            "distr": call!(alg::distributive(&items, &f, &g)),
            "semiring": by_ez::<N>(|z, o| call!(alg::semiring(&items, &f, &g, z, o))),
        }),
        "ring" => json!({
            "ring": by_ez::<N>(|z, o| call!(alg::ring(&items, &f, &g, z, o, &u))),
            "cring": by_ez::<N>(|z, o| call!(alg::commutative_ring(&items, &f, &g, z, o, &u))),
            "intdom": by_ez::<N>(|z, o| call!(alg::integral_domain(&items, &f, &g, z, o, &u))),
            "field": by_ez::<N>(|z, o| call!(alg::field(&items, &f, &g, z, o, &u, &w))),
        }),
        "bilin" => {
            let ht = t2(&c["h"]);
            let pt = t2(&c["p"]);
            let h = |a: u8, b: u8| ht[a as usize][b as usize];
            let p = |a: u8, b: u8| pt[a as usize][b as usize];
            json!({"bilinearity": call!(alg::bilinearity(&items[..], &items[..], f, h, g, p))})
        }
        _ => panic!("unknown kind {kind}"),
    }
}

/// linearity: f over carrier n, g over carrier m, q : n -> m
fn run_lin(c: &Value) -> Value {
    let n = c["n"].as_u64().unwrap() as u8;
    let items: Vec<u8> = (0..n).collect();
    let ft = t2(&c["f"]);
    let gt = t2(&c["g"]);
    let qt = t1(&c["q"]);
    let f = |a: u8, b: u8| ft[a as usize][b as usize];
    let g = |a: u8, b: u8| gt[a as usize][b as usize];
    let q = |a: u8| qt[a as usize];
    json!({"linearity": call!(alg::linearity(&items, f, g, q))})
}

// ---------------------------------------------------------------------------------------------
// semiring applications.  Their value fields are private and they have no accessor, so the
// harness reads / builds them through a same-size transmute (single-field structs).
trait App: Sized {
    type Raw: Copy;
    fn dec(code: i64) -> Self::Raw;
    fn enc(raw: Self::Raw) -> i64;
    fn make(raw: Self::Raw) -> Self;
    fn peek(self) -> Self::Raw;
    fn add_(&mut self, o: Self);
    fn mul_(&mut self, o: Self);
    fn zero_(&self) -> Self::Raw;
    fn one_(&self) -> Self::Raw;
}

macro_rules! app_impl {
    ($t:ty, $raw:ty, $dec:expr, $enc:expr) => {
        impl App for $t {
            type Raw = $raw;
            fn dec(code: i64) -> $raw {
                ($dec)(code)
            }
            fn enc(raw: $raw) -> i64 {
                ($enc)(raw)
            }
            fn make(raw: $raw) -> Self {
                const _: () = assert!(size_of::<$t>() == size_of::<$raw>());
                // SAFETY: single-field struct of exactly this field type and size
                unsafe { std::mem::transmute::<$raw, $t>(raw) }
            }
            fn peek(self) -> $raw {
                // SAFETY: as above
                unsafe { std::mem::transmute::<$t, $raw>(self) }
            }
            fn add_(&mut self, o: Self) {
                Addition::add(self, o)
            }
            fn mul_(&mut self, o: Self) {
                Multiplication::mul(self, o)
            }
            fn zero_(&self) -> $raw {
                Zero::zero(self)
            }
            fn one_(&self) -> $raw {
                One::one(self)
            }
        }
    };
}

fn pow2neg(code: i64) -> f64 {
    if code < 0 { 0.0 } else { 0.5f64.powi(code as i32) }
}
fn pow2neg_enc(v: f64) -> i64 {
    if v == 0.0 {
        return -1;
    }
    (0..200).find(|&k| 0.5f64.powi(k) == v).map(|k| k as i64).unwrap_or(-99)
}

app_impl!(BinaryTrust, bool, |c: i64| c != 0, |r: bool| r as i64);
app_impl!(Multiplicity, u32, |c: i64| c as u32, |r: u32| r as i64);
app_impl!(
    Cost,
    U32WithInfinity,
    |c: i64| if c < 0 { U32WithInfinity::Infinity } else { U32WithInfinity::Finite(c as u32) },
    |r: U32WithInfinity| match r {
        U32WithInfinity::Infinity => -1,
        U32WithInfinity::Finite(k) => k as i64,
    }
);
app_impl!(ConfidenceScore, f64, pow2neg, pow2neg_enc);
app_impl!(
    FuzzyLogic,
    f64,
    |c: i64| c as f64 / 4.0,
    |r: f64| if (r * 4.0).fract() == 0.0 { (r * 4.0) as i64 } else { -99 }
);

fn run_app<A: App>(items: &[i64]) -> Value {
    let add = |a: i64, b: i64| {
        let mut x = A::make(A::dec(a));
        x.add_(A::make(A::dec(b)));
        A::enc(x.peek())
    };
    let mul = |a: i64, b: i64| {
        let mut x = A::make(A::dec(a));
        x.mul_(A::make(A::dec(b)));
        A::enc(x.peek())
    };
    let table = |op: &dyn Fn(i64, i64) -> i64| -> Value {
        Value::Array(
            items
                .iter()
                .map(|&a| {
                    Value::Array(
                        items
                            .iter()
                            .map(|&b| match hv_common::catch(|| op(a, b)) {
                                Ok(v) => json!(v),
                                Err(_) => json!(-98),
                            })
                            .collect(),
                    )
                })
                .collect(),
        )
    };
    let probe = A::make(A::dec(items[0]));
    let zero = A::enc(probe.zero_());
    let one = A::enc(probe.one_());
    // the real `semiring` checker over the real operations (const-generic item arrays)
    fn sr<const N: usize>(
        items: &[i64],
        add: &impl Fn(i64, i64) -> i64,
        mul: &impl Fn(i64, i64) -> i64,
        zero: i64,
        one: i64,
    ) -> Value {
        let arr: [i64; N] = core::array::from_fn(|i| items[i]);
        call!(alg::semiring(&arr, add, mul, zero, one))
    }
    let verdict = match items.len() {
        2 => sr::<2>(items, &add, &mul, zero, one),
        3 => sr::<3>(items, &add, &mul, zero, one),
        4 => sr::<4>(items, &add, &mul, zero, one),
        5 => sr::<5>(items, &add, &mul, zero, one),
        6 => sr::<6>(items, &add, &mul, zero, one),
        7 => sr::<7>(items, &add, &mul, zero, one),
        8 => sr::<8>(items, &add, &mul, zero, one),
        9 => sr::<9>(items, &add, &mul, zero, one),
        10 => sr::<10>(items, &add, &mul, zero, one),
        k => panic!("unsupported item count {k}"),
    };
    json!({"add": table(&add), "mul": table(&mul), "zero": zero, "one": one, "v": {"semiring": verdict}})
}

fn main() {
    let args: Vec<String> = std::env::args().collect();
    if args.get(1).map(|s| s.as_str()) != Some("replay") || args.len() < 4 {
        eprintln!("usage: algebra replay <cases.ndjson> <trace_out.ndjson>");
        std::process::exit(2);
    }
    let input = hv_common::read_ndjson(&args[2]);
    let mut tr = Trace::create(&args[3]);
    let mut cases = 0usize;
    for line in &input {
        let id = line["id"].clone();
        let c = &line["c"];
        let kind = c["kind"].as_str().unwrap();
        if kind == "app" {
            let items: Vec<i64> = serde_json::from_value(c["items"].clone()).unwrap();
            let app = c["app"].as_str().unwrap();
            let mut ev = match app {
                "BinaryTrust" => run_app::<BinaryTrust>(&items),
                "Multiplicity" => run_app::<Multiplicity>(&items),
                "Cost" => run_app::<Cost>(&items),
                "ConfidenceScore" => run_app::<ConfidenceScore>(&items),
                "FuzzyLogic" => run_app::<FuzzyLogic>(&items),
                other => panic!("unknown app {other}"),
            };
            let o = ev.as_object_mut().unwrap();
            o.insert("e".into(), json!("app"));
            o.insert("id".into(), id);
            o.insert("app".into(), json!(app));
            o.insert("items".into(), json!(items));
            tr.ev(ev);
        } else {
            let n = c["n"].as_u64().unwrap();
            let v = if kind == "lin" {
                run_lin(c)
            } else {
                match n {
                    1 => run_n::<1>(kind, c),
                    2 => run_n::<2>(kind, c),
                    3 => run_n::<3>(kind, c),
                    4 => run_n::<4>(kind, c),
                    8 => run_n::<8>(kind, c),
                    _ => panic!("unsupported carrier size {n}"),
                }
            };
            tr.ev(json!({"e":"case","id":id,"kind":kind,"n":c["n"],"m":c["m"],
                "f":c["f"],"g":c["g"],"h":c["h"],"p":c["p"],"q":c["q"],"u":c["u"],"w":c["w"],"v":v}));
        }
        cases += 1;
    }
    tr.ev(json!({"e":"eof"}));
    let events = tr.lines;
    tr.finish();
    println!("{}", json!({"cases":cases,"events":events}));
}
