//! C05 harness: drives the REAL tombstone lattices (set and map, each on the hash-set, roaring
//! u64 and FST String tombstone backends) through replica histories and logs what every backend
//! reveals after every call.  Verdicts come from TLC (spec/Tombstone/TombstoneTrace.tla).
//!
//!   tombstone replay <cases.ndjson> <trace_out.ndjson>
//!       case: {"id":k,"variant":"set"|"map","R":n,"steps":[{"o":{"op":..},"live":[[k,v]..],"tomb":[..]}..]}
//!   tombstone random <count> <steps> <nkeys> <trace_out.ndjson>
//! stdout: one JSON summary {cases, events, drift:[..]}.
use std::collections::{HashMap, HashSet};
use std::hash::Hash;

use hv_common::{Rng, Trace, Value, json};
use lattices::collections::{EmptyMap, EmptySet, SingletonMap, SingletonSet};
use lattices::map_union_with_tombstones::MapUnionWithTombstones;
use lattices::set_union::{SetUnion, SetUnionHashSet, SetUnionSingletonSet};
use lattices::set_union_with_tombstones::SetUnionWithTombstones;
use lattices::tombstone::{FstTombstoneSet, RoaringTombstoneSet, TombstoneSet};
use lattices::map_union::MapUnionHashMap;
use lattices::{IsBot, LatticeFrom, Merge, WithBot};
#[allow(unused_imports)]
use std::cmp::PartialOrd;

// ---------------------------------------------------------------------------------------------
// key codecs: abstract key 0..11 -> backend key
const U64_KEYS: [u64; 12] = [
    0,
    1,
    65_535,
    65_536,
    (1 << 32) - 1,
    1 << 32,
    (1 << 32) + 1,
    (1 << 48) + 7,
    1 << 63,
    u64::MAX - 1,
    u64::MAX,
    42,
];
const STR_KEYS: [&str; 12] = ["", "a", "aa", "ab", "b", "ba", "é", "z", "zz", "a\u{0}", "\u{7f}", "ab "];

trait Key: Clone + Eq + Hash + Default {
    fn enc(k: u8) -> Self;
    fn dec(&self) -> i64;
}
impl Key for u64 {
    fn enc(k: u8) -> u64 {
        U64_KEYS[k as usize]
    }
    fn dec(&self) -> i64 {
        U64_KEYS.iter().position(|x| x == self).map(|p| p as i64).unwrap_or(-1)
    }
}
impl Key for String {
    fn enc(k: u8) -> String {
        STR_KEYS[k as usize].to_string()
    }
    fn dec(&self) -> i64 {
        STR_KEYS.iter().position(|x| x == self).map(|p| p as i64).unwrap_or(-1)
    }
}

/// What one replica reveals: (pairs, map keys, tombstones), all decoded and sorted.
type Reveal = (Vec<(i64, i64)>, Vec<i64>, Vec<i64>);

fn tri(b: bool) -> i64 {
    b as i64
}
fn ordname(o: Option<std::cmp::Ordering>) -> &'static str {
    match o {
        Some(std::cmp::Ordering::Less) => "lt",
        Some(std::cmp::Ordering::Equal) => "eq",
        Some(std::cmp::Ordering::Greater) => "gt",
        None => "none",
    }
}

/// The type's own `==` / `partial_cmp`, where the tombstone backend offers them (only the
/// HashSet backend implements the collection traits they need); -1 / "na" otherwise.
trait Own<K: Key>: Sized {
    fn set_eq(_a: &SetUnionWithTombstones<HashSet<K>, Self>, _b: &SetUnionWithTombstones<HashSet<K>, Self>) -> i64 {
        -1
    }
    fn set_cmp(_a: &SetUnionWithTombstones<HashSet<K>, Self>, _b: &SetUnionWithTombstones<HashSet<K>, Self>) -> &'static str {
        "na"
    }
    fn map_eq(_a: &MapUnionWithTombstones<HashMap<K, Val>, Self>, _b: &MapUnionWithTombstones<HashMap<K, Val>, Self>) -> i64 {
        -1
    }
    fn map_cmp(_a: &MapUnionWithTombstones<HashMap<K, Val>, Self>, _b: &MapUnionWithTombstones<HashMap<K, Val>, Self>) -> &'static str {
        "na"
    }
}
impl<K: Key> Own<K> for HashSet<K> {
    fn set_eq(a: &SetUnionWithTombstones<HashSet<K>, Self>, b: &SetUnionWithTombstones<HashSet<K>, Self>) -> i64 {
        tri(a == b)
    }
    fn set_cmp(a: &SetUnionWithTombstones<HashSet<K>, Self>, b: &SetUnionWithTombstones<HashSet<K>, Self>) -> &'static str {
        ordname(a.partial_cmp(b))
    }
    fn map_eq(a: &MapUnionWithTombstones<HashMap<K, Val>, Self>, b: &MapUnionWithTombstones<HashMap<K, Val>, Self>) -> i64 {
        tri(a == b)
    }
    fn map_cmp(a: &MapUnionWithTombstones<HashMap<K, Val>, Self>, b: &MapUnionWithTombstones<HashMap<K, Val>, Self>) -> &'static str {
        ordname(a.partial_cmp(b))
    }
}
impl Own<u64> for RoaringTombstoneSet {}
impl Own<String> for FstTombstoneSet<String> {}

trait Replica: Clone {
    fn own_eq(&self, other: &Self) -> i64;
    fn own_cmp(&self, other: &Self) -> &'static str;
    fn own_is_bot(&self) -> i64;
    fn default_is_bot() -> i64;
    fn load(live: &[(u8, u8)], tomb: &[u8]) -> Self;
    fn ins(&mut self, k: u8, v: u8) -> bool;
    fn insbot(&mut self, k: u8) -> bool;
    fn del(&mut self, k: u8) -> bool;
    fn merge_from(&mut self, other: &Self) -> bool;
    fn reveal(&self) -> Reveal;
}

// ---- set lattice ------------------------------------------------------------------------------
#[derive(Clone)]
struct SetRep<K, T>(SetUnionWithTombstones<HashSet<K>, T>);

impl<K, T> Replica for SetRep<K, T>
where
    K: Key,
    T: TombstoneSet<K> + Clone + IntoIterator<Item = K> + FromIterator<K> + Default + Own<K>,
{
    fn own_eq(&self, other: &Self) -> i64 {
        T::set_eq(&self.0, &other.0)
    }
    fn own_cmp(&self, other: &Self) -> &'static str {
        T::set_cmp(&self.0, &other.0)
    }
    fn own_is_bot(&self) -> i64 {
        tri(self.0.is_bot())
    }
    fn default_is_bot() -> i64 {
        tri(SetUnionWithTombstones::<HashSet<K>, T>::default().is_bot())
    }
    fn load(live: &[(u8, u8)], tomb: &[u8]) -> Self {
        SetRep(SetUnionWithTombstones::new(
            live.iter().map(|&(k, _)| K::enc(k)).collect(),
            tomb.iter().map(|&k| K::enc(k)).collect(),
        ))
    }
    fn ins(&mut self, k: u8, _v: u8) -> bool {
        let other: SetUnionWithTombstones<SingletonSet<K>, EmptySet<K>> =
            SetUnionWithTombstones::new(SingletonSet(K::enc(k)), EmptySet::default());
        self.0.merge(other)
    }
    fn insbot(&mut self, _k: u8) -> bool {
        unreachable!("insbot is a map operation")
    }
    fn del(&mut self, k: u8) -> bool {
        let other: SetUnionWithTombstones<EmptySet<K>, SingletonSet<K>> =
            SetUnionWithTombstones::new(EmptySet::default(), SingletonSet(K::enc(k)));
        self.0.merge(other)
    }
    fn merge_from(&mut self, other: &Self) -> bool {
        self.0.merge(other.0.clone())
    }
    fn reveal(&self) -> Reveal {
        let (set, tomb) = self.0.as_reveal_ref();
        let mut live: Vec<(i64, i64)> = set.iter().map(|k| (k.dec(), 0)).collect();
        live.sort();
        let keys: Vec<i64> = live.iter().map(|p| p.0).collect();
        let mut t: Vec<i64> = tomb.clone().into_iter().map(|k| k.dec()).collect();
        t.sort();
        (live, keys, t)
    }
}

// ---- map lattice (values: SetUnion of u8) -------------------------------------------------------
type Val = SetUnionHashSet<u8>;
#[derive(Clone)]
struct MapRep<K, T>(MapUnionWithTombstones<HashMap<K, Val>, T>);

impl<K, T> Replica for MapRep<K, T>
where
    K: Key,
    T: TombstoneSet<K> + Clone + IntoIterator<Item = K> + FromIterator<K> + Default + Own<K>,
{
    fn own_eq(&self, other: &Self) -> i64 {
        T::map_eq(&self.0, &other.0)
    }
    fn own_cmp(&self, other: &Self) -> &'static str {
        T::map_cmp(&self.0, &other.0)
    }
    fn own_is_bot(&self) -> i64 {
        tri(self.0.is_bot())
    }
    fn default_is_bot() -> i64 {
        tri(MapUnionWithTombstones::<HashMap<K, Val>, T>::default().is_bot())
    }
    fn load(live: &[(u8, u8)], tomb: &[u8]) -> Self {
        let mut m: HashMap<K, Val> = HashMap::new();
        for &(k, v) in live {
            m.entry(K::enc(k)).or_default().as_reveal_mut().insert(v);
        }
        MapRep(MapUnionWithTombstones::new(m, tomb.iter().map(|&k| K::enc(k)).collect()))
    }
    fn ins(&mut self, k: u8, v: u8) -> bool {
        let other: MapUnionWithTombstones<SingletonMap<K, SetUnionSingletonSet<u8>>, EmptySet<K>> =
            MapUnionWithTombstones::new(
                SingletonMap(K::enc(k), SetUnion::new(SingletonSet(v))),
                EmptySet::default(),
            );
        self.0.merge(other)
    }
    fn insbot(&mut self, k: u8) -> bool {
        let bot = Val::default();
        assert!(bot.is_bot());
        let other: MapUnionWithTombstones<HashMap<K, Val>, HashSet<K>> =
            MapUnionWithTombstones::new(HashMap::from([(K::enc(k), bot)]), HashSet::new());
        self.0.merge(other)
    }
    fn del(&mut self, k: u8) -> bool {
        let other: MapUnionWithTombstones<EmptyMap<K, SetUnion<EmptySet<u8>>>, SingletonSet<K>> =
            MapUnionWithTombstones::new(Default::default(), SingletonSet(K::enc(k)));
        self.0.merge(other)
    }
    fn merge_from(&mut self, other: &Self) -> bool {
        self.0.merge(other.0.clone())
    }
    fn reveal(&self) -> Reveal {
        let (map, tomb) = self.0.as_reveal_ref();
        let mut live: Vec<(i64, i64)> = Vec::new();
        let mut keys: Vec<i64> = Vec::new();
        for (k, v) in map.iter() {
            keys.push(k.dec());
            for x in v.as_reveal_ref().iter() {
                live.push((k.dec(), *x as i64));
            }
        }
        live.sort();
        keys.sort();
        let mut t: Vec<i64> = tomb.clone().into_iter().map(|k| k.dec()).collect();
        t.sort();
        (live, keys, t)
    }
}

// ---------------------------------------------------------------------------------------------
/// One backend = R replicas of one concrete type, driven through `dyn`.
trait Backend {
    fn name(&self) -> &'static str;
    fn apply(&mut self, op: &Op) -> Value;
}

#[derive(Clone, Debug)]
enum Op {
    Load { r: usize, live: Vec<(u8, u8)>, tomb: Vec<u8> },
    Ins { r: usize, k: u8, v: u8 },
    InsBot { r: usize, k: u8 },
    Del { r: usize, k: u8 },
    Merge { r: usize, s: usize },
    /// ACI laws of merge on three explicit values
    Law { a: AVal, b: AVal, c: AVal },
    /// order operations on two explicit values
    Ord { a: AVal, b: AVal },
    /// direct LatticeFrom conversions of one explicit value between backing representations
    From { a: AVal },
    /// ACI / join of a compound lattice with tombstone-set values (ty "mapunion" | "withbot")
    NLaw { ty: String, a: NVal, b: NVal, c: NVal },
}
/// a nested abstract value: key -> inner value (WithBot: at most the key 0)
type NVal = Vec<(u8, AVal)>;
fn nval_json(v: &NVal) -> Value {
    Value::Array(v.iter().map(|(k, x)| json!({"k": k, "v": aval_json(x)})).collect())
}
/// an explicit abstract value: (live pairs, tombstoned keys)
type AVal = (Vec<(u8, u8)>, Vec<u8>);
fn aval_json(v: &AVal) -> Value {
    json!({"live": v.0, "tomb": v.1})
}
fn reveal_json(r: Reveal) -> Value {
    json!({"live": r.0, "tomb": r.2})
}
impl Op {
    fn r(&self) -> usize {
        match self {
            Op::Load { r, .. } | Op::Ins { r, .. } | Op::InsBot { r, .. } | Op::Del { r, .. } | Op::Merge { r, .. } => *r,
            Op::Law { .. } | Op::Ord { .. } | Op::From { .. } | Op::NLaw { .. } => 1,
        }
    }
    fn event(&self) -> Value {
        match self {
            Op::Load { r, live, tomb } => json!({"e":"load","r":r,"live":live,"tomb":tomb}),
            Op::Ins { r, k, v } => json!({"e":"ins","r":r,"k":k,"v":v}),
            Op::InsBot { r, k } => json!({"e":"insbot","r":r,"k":k}),
            Op::Del { r, k } => json!({"e":"del","r":r,"k":k}),
            Op::Merge { r, s } => json!({"e":"merge","r":r,"s":s}),
            Op::Law { a, b, c } => json!({"e":"law","a":aval_json(a),"b":aval_json(b),"c":aval_json(c)}),
            Op::Ord { a, b } => json!({"e":"ord","a":aval_json(a),"b":aval_json(b)}),
            Op::From { a } => json!({"e":"from","a":aval_json(a)}),
            Op::NLaw { ty, a, b, c } => json!({"e":"nlaw","ty":ty,"a":nval_json(a),"b":nval_json(b),"c":nval_json(c)}),
        }
    }
}

struct Reps<R: Replica> {
    name: &'static str,
    reps: Vec<R>,
}
impl<R: Replica> Backend for Reps<R> {
    fn name(&self) -> &'static str {
        self.name
    }
    fn apply(&mut self, op: &Op) -> Value {
        let name = self.name;
        if let Op::Law { a, b, c } = op {
            let res = hv_common::catch(|| {
                let mk = |v: &AVal| R::load(&v.0, &v.1);
                let join = |x: &R, y: &R| {
                    let mut z = x.clone();
                    z.merge_from(y);
                    z
                };
                let (ra, rb, rc) = (mk(a), mk(b), mk(c));
                let (ab, ba, aa) = (join(&ra, &rb), join(&rb, &ra), join(&ra, &ra));
                let (abc1, abc2) = (join(&ab, &rc), join(&ra, &join(&rb, &rc)));
                json!({"b":name,"panic":false,"ab":reveal_json(ab.reveal()),"ba":reveal_json(ba.reveal()),
                    "aa":reveal_json(aa.reveal()),"abc1":reveal_json(abc1.reveal()),"abc2":reveal_json(abc2.reveal()),
                    "eqc":ab.own_eq(&ba),"eqi":aa.own_eq(&ra),"eqa":abc1.own_eq(&abc2)})
            });
            return res.unwrap_or_else(|msg| json!({"b":name,"panic":true,"msg":msg}));
        }
        if let Op::Ord { a, b } = op {
            let res = hv_common::catch(|| {
                let (ra, rb) = (R::load(&a.0, &a.1), R::load(&b.0, &b.1));
                let mut into_b = rb.clone();
                let ch = into_b.merge_from(&ra);
                json!({"b":name,"panic":false,"cmp":ra.own_cmp(&rb),"eq":ra.own_eq(&rb),"bota":ra.own_is_bot(),
                    "botb":rb.own_is_bot(),"defbot":R::default_is_bot(),"ch":ch})
            });
            return res.unwrap_or_else(|msg| json!({"b":name,"panic":true,"msg":msg}));
        }
        let reps = &mut self.reps;
        let res = hv_common::catch(move || {
            let ch = match op {
                Op::Load { r, live, tomb } => {
                    reps[r - 1] = R::load(live, tomb);
                    false
                }
                Op::Ins { r, k, v } => reps[r - 1].ins(*k, *v),
                Op::InsBot { r, k } => reps[r - 1].insbot(*k),
                Op::Del { r, k } => reps[r - 1].del(*k),
                Op::Merge { r, s } => {
                    let other = reps[s - 1].clone();
                    reps[r - 1].merge_from(&other)
                }
                Op::Law { .. } | Op::Ord { .. } | Op::From { .. } | Op::NLaw { .. } => unreachable!(),
            };
            (ch, reps[op.r() - 1].reveal())
        });
        match res {
            Ok((ch, (live, keys, tomb))) => {
                json!({"b":self.name,"ch":ch,"live":live,"keys":keys,"tomb":tomb,"panic":false})
            }
            Err(msg) => json!({"b":self.name,"ch":false,"live":[],"keys":[],"tomb":[],"panic":true,"msg":msg}),
        }
    }
}

fn backends(variant: &str, n: usize) -> Vec<Box<dyn Backend>> {
    fn mk<R: Replica + 'static>(name: &'static str, n: usize) -> Box<dyn Backend> {
        Box::new(Reps { name, reps: (0..n).map(|_| R::load(&[], &[])).collect::<Vec<R>>() })
    }
    match variant {
        "set" => vec![
            mk::<SetRep<u64, HashSet<u64>>>("hash", n),
            mk::<SetRep<u64, RoaringTombstoneSet>>("roaring", n),
            mk::<SetRep<String, FstTombstoneSet<String>>>("fst", n),
        ],
        "map" => vec![
            mk::<MapRep<u64, HashSet<u64>>>("hash", n),
            mk::<MapRep<u64, RoaringTombstoneSet>>("roaring", n),
            mk::<MapRep<String, FstTombstoneSet<String>>>("fst", n),
        ],
        other => panic!("unknown variant {other}"),
    }
}

// ---- LatticeFrom conversions between backing representations (C04) ------------------------------
impl<K: Key, T> SetRep<K, T>
where
    T: TombstoneSet<K> + Clone + IntoIterator<Item = K> + FromIterator<K> + Default + Own<K>,
{
    fn convert<T2>(&self) -> SetRep<K, T2>
    where
        T2: TombstoneSet<K> + Clone + IntoIterator<Item = K> + FromIterator<K> + Default + Own<K>,
    {
        SetRep(LatticeFrom::lattice_from(self.0.clone()))
    }
}
impl<K: Key, T> MapRep<K, T>
where
    T: TombstoneSet<K> + Clone + IntoIterator<Item = K> + FromIterator<K> + Default + Own<K>,
{
    fn convert<T2>(&self) -> MapRep<K, T2>
    where
        T2: TombstoneSet<K> + Clone + IntoIterator<Item = K> + FromIterator<K> + Default + Own<K>,
    {
        MapRep(LatticeFrom::lattice_from(self.0.clone()))
    }
}
fn conv_obs(name: &'static str, f: impl FnOnce() -> Reveal) -> Value {
    match hv_common::catch(f) {
        Ok(r) => json!({"b":name,"panic":false,"out":reveal_json(r)}),
        Err(msg) => json!({"b":name,"panic":true,"msg":msg}),
    }
}
macro_rules! conversions {
    ($Rep:ident, $a:expr) => {{
        let a: &AVal = $a;
        let h = $Rep::<u64, HashSet<u64>>::load(&a.0, &a.1);
        let r = $Rep::<u64, RoaringTombstoneSet>::load(&a.0, &a.1);
        let sh = $Rep::<String, HashSet<String>>::load(&a.0, &a.1);
        let f = $Rep::<String, FstTombstoneSet<String>>::load(&a.0, &a.1);
        vec![
            conv_obs("hash>hash", || h.convert::<HashSet<u64>>().reveal()),
            conv_obs("hash>roaring", || h.convert::<RoaringTombstoneSet>().reveal()),
            conv_obs("roaring>hash", || r.convert::<HashSet<u64>>().reveal()),
            conv_obs("roaring>roaring", || r.convert::<RoaringTombstoneSet>().reveal()),
            conv_obs("strhash>strhash", || sh.convert::<HashSet<String>>().reveal()),
            conv_obs("strhash>fst", || sh.convert::<FstTombstoneSet<String>>().reveal()),
            conv_obs("fst>strhash", || f.convert::<HashSet<String>>().reveal()),
            conv_obs("fst>fst", || f.convert::<FstTombstoneSet<String>>().reveal()),
        ]
    }};
}

// ---- compound lattices over tombstone sets (C01 / C04) --------------------------------------------
type Inner<T> = SetUnionWithTombstones<HashSet<u64>, T>;
fn inner<T: FromIterator<u64>>(v: &AVal) -> Inner<T> {
    SetUnionWithTombstones::new(v.0.iter().map(|&(k, _)| u64::enc(k)).collect(), v.1.iter().map(|&k| u64::enc(k)).collect())
}
fn inner_json<T>(x: &Inner<T>) -> Value
where
    T: TombstoneSet<u64> + Clone + IntoIterator<Item = u64> + FromIterator<u64> + Default + Own<u64>,
{
    reveal_json(SetRep::<u64, T>(x.clone()).reveal())
}
/// the compound lattice, its construction from / revelation to nested abstract values, and its own ==
trait Nested: Clone + Merge<Self> {
    fn build(v: &NVal) -> Self;
    fn show(&self) -> Value;
    fn own_eq(&self, o: &Self) -> i64;
}
macro_rules! nested_impl {
    ($T:ty, $eq:expr) => {
        impl Nested for MapUnionHashMap<u8, Inner<$T>> {
            fn build(v: &NVal) -> Self {
                MapUnionHashMap::new(v.iter().map(|(k, x)| (*k, inner::<$T>(x))).collect())
            }
            fn show(&self) -> Value {
                let mut ks: Vec<&u8> = self.as_reveal_ref().keys().collect();
                ks.sort();
                Value::Array(ks.iter().map(|k| json!({"k": k, "v": inner_json(&self.as_reveal_ref()[*k])})).collect())
            }
            fn own_eq(&self, o: &Self) -> i64 {
                let f: Option<fn(&Self, &Self) -> bool> = $eq;
                f.map(|f| f(self, o) as i64).unwrap_or(-1)
            }
        }
        impl Nested for WithBot<Inner<$T>> {
            fn build(v: &NVal) -> Self {
                WithBot::new(v.first().map(|(_, x)| inner::<$T>(x)))
            }
            fn show(&self) -> Value {
                match self.as_reveal_ref() {
                    Some(x) => json!([{"k": 0, "v": inner_json(x)}]),
                    None => json!([]),
                }
            }
            fn own_eq(&self, o: &Self) -> i64 {
                let f: Option<fn(&Self, &Self) -> bool> = $eq;
                f.map(|f| f(self, o) as i64).unwrap_or(-1)
            }
        }
    };
}
nested_impl!(HashSet<u64>, Some(|a, b| a == b));
nested_impl!(RoaringTombstoneSet, None);

fn nlaw_obs<N: Nested>(name: &'static str, a: &NVal, b: &NVal, c: &NVal) -> Value {
    let res = hv_common::catch(|| {
        let join = |x: &N, y: &N| {
            let mut z = x.clone();
            z.merge(y.clone());
            z
        };
        let (ra, rb, rc) = (N::build(a), N::build(b), N::build(c));
        let (ab, ba, aa) = (join(&ra, &rb), join(&rb, &ra), join(&ra, &ra));
        let (abc1, abc2) = (join(&ab, &rc), join(&ra, &join(&rb, &rc)));
        json!({"b":name,"panic":false,"ab":ab.show(),"ba":ba.show(),"aa":aa.show(),"abc1":abc1.show(),"abc2":abc2.show(),
            "eqc":ab.own_eq(&ba),"eqi":aa.own_eq(&ra),"eqa":abc1.own_eq(&abc2)})
    });
    res.unwrap_or_else(|msg| json!({"b":name,"panic":true,"msg":msg}))
}

/// Runs one case on all backends; returns per step the observations.
fn run_case(id: usize, variant: &str, n: usize, ops: &[Op], tr: &mut Trace) -> Vec<Vec<Value>> {
    tr.ev(json!({"e":"reset","case":id,"variant":variant,"R":n}));
    let mut bs = backends(variant, n);
    let mut all = Vec::new();
    for op in ops {
        let obs: Vec<Value> = match op {
            Op::From { a } if variant == "set" => conversions!(SetRep, a),
            Op::From { a } => conversions!(MapRep, a),
            Op::NLaw { ty, a, b, c } if ty == "mapunion" => vec![
                nlaw_obs::<MapUnionHashMap<u8, Inner<HashSet<u64>>>>("hash", a, b, c),
                nlaw_obs::<MapUnionHashMap<u8, Inner<RoaringTombstoneSet>>>("roaring", a, b, c),
            ],
            Op::NLaw { a, b, c, .. } => vec![
                nlaw_obs::<WithBot<Inner<HashSet<u64>>>>("hash", a, b, c),
                nlaw_obs::<WithBot<Inner<RoaringTombstoneSet>>>("roaring", a, b, c),
            ],
            _ => bs.iter_mut().map(|b| b.apply(op)).collect(),
        };
        let mut ev = op.event();
        ev.as_object_mut().unwrap().insert("obs".into(), Value::Array(obs.clone()));
        tr.ev(ev);
        all.push(obs);
    }
    let _ = bs.iter().map(|b| b.name()).count();
    all
}

fn parse_aval(v: &Value) -> AVal {
    (serde_json::from_value(v["live"].clone()).unwrap(), serde_json::from_value(v["tomb"].clone()).unwrap())
}
fn parse_op(o: &Value) -> Op {
    match o["op"].as_str().unwrap() {
        "law" => return Op::Law { a: parse_aval(&o["a"]), b: parse_aval(&o["b"]), c: parse_aval(&o["c"]) },
        "ord" => return Op::Ord { a: parse_aval(&o["a"]), b: parse_aval(&o["b"]) },
        "from" => return Op::From { a: parse_aval(&o["a"]) },
        "nlaw" => {
            let nv = |v: &Value| -> NVal {
                v.as_array()
                    .unwrap()
                    .iter()
                    .map(|e| match e.as_array() {
                        Some(p) => (p[0].as_u64().unwrap() as u8, parse_aval(&p[1])), // [key, value] (TLC tuples)
                        None => (e["k"].as_u64().unwrap() as u8, parse_aval(&e["v"])),
                    })
                    .collect()
            };
            return Op::NLaw { ty: o["ty"].as_str().unwrap().to_string(), a: nv(&o["a"]), b: nv(&o["b"]), c: nv(&o["c"]) };
        }
        _ => {}
    }
    let r = o["r"].as_u64().unwrap() as usize;
    let k = o["k"].as_u64().unwrap_or(0) as u8;
    match o["op"].as_str().unwrap() {
        "load" => Op::Load {
            r,
            live: serde_json::from_value(o["live"].clone()).unwrap(),
            tomb: serde_json::from_value(o["tomb"].clone()).unwrap(),
        },
        "ins" => Op::Ins { r, k, v: o["v"].as_u64().unwrap() as u8 },
        "insbot" => Op::InsBot { r, k },
        "del" => Op::Del { r, k },
        "merge" => Op::Merge { r, s: o["s"].as_u64().unwrap() as usize },
        other => panic!("unknown op {other}"),
    }
}

fn main() {
    let args: Vec<String> = std::env::args().collect();
    let mut drift: Vec<Value> = Vec::new();
    let mut cases = 0usize;
    match args.get(1).map(|s| s.as_str()) {
        Some("replay") => {
            let input = hv_common::read_ndjson(&args[2]);
            let mut tr = Trace::create(&args[3]);
            for c in &input {
                let id = c["id"].as_u64().unwrap() as usize;
                let variant = c["variant"].as_str().unwrap();
                let n = c["R"].as_u64().unwrap() as usize;
                let steps = c["steps"].as_array().unwrap();
                let ops: Vec<Op> = steps.iter().map(|s| parse_op(&s["o"])).collect();
                let got = run_case(id, variant, n, &ops, &mut tr);
                cases += 1;
                // model prediction vs every backend, step by step (reported, not judged here)
                for (i, (s, obs)) in steps.iter().zip(got.iter()).enumerate() {
                    for o in obs {
                        if matches!(s["o"]["op"].as_str(), Some("law") | Some("ord") | Some("from") | Some("nlaw")) {
                            continue;
                        }
                        if (o["live"] != s["live"] || o["tomb"] != s["tomb"]) && drift.len() < 30 {
                            drift.push(json!({"case":id,"step":i,"backend":o["b"],"model":{"live":s["live"],"tomb":s["tomb"]},
                                "impl":{"live":o["live"],"tomb":o["tomb"],"panic":o["panic"]}}));
                        }
                    }
                }
            }
            tr.ev(json!({"e":"eof"}));
            let events = tr.lines;
            tr.finish();
            println!("{}", json!({"cases":cases,"events":events,"drift":drift}));
        }
        Some("random") => {
            let count: usize = args[2].parse().unwrap();
            let steps: u64 = args[3].parse().unwrap();
            let nkeys: u64 = args[4].parse().unwrap();
            let mut tr = Trace::create(&args[5]);
            let mut rng = Rng::new(hv_common::seed() ^ 0x70b5);
            for i in 0..count {
                let variant = if i % 2 == 0 { "set" } else { "map" };
                let n = 2 + rng.below(2) as usize;
                let len = 1 + rng.below(steps);
                let ops: Vec<Op> = (0..len)
                    .map(|_| {
                        let r = 1 + rng.below(n as u64) as usize;
                        let k = rng.below(nkeys) as u8;
                        match rng.below(20) {
                            0..=6 => Op::Ins { r, k, v: if variant == "map" { rng.below(3) as u8 } else { 0 } },
                            7..=10 => Op::Del { r, k },
                            11 if variant == "map" => Op::InsBot { r, k },
                            _ => {
                                let mut s = 1 + rng.below(n as u64) as usize;
                                if s == r {
                                    s = s % n + 1;
                                }
                                Op::Merge { r, s }
                            }
                        }
                    })
                    .collect();
                run_case(i + 1, variant, n, &ops, &mut tr);
                cases += 1;
            }
            tr.ev(json!({"e":"eof"}));
            let events = tr.lines;
            tr.finish();
            println!("{}", json!({"cases":cases,"events":events,"drift":drift}));
        }
        _ => {
            eprintln!("usage: tombstone replay|random ...");
            std::process::exit(2);
        }
    }
}
