fn main() {}
