//! C27 harness: a controlled scheduler around the REAL `Dfir::run()`.
//!
//! Thread 0 (runner) builds a real dataflow `source_stream(rx) -> for_each(..)` over a tokio
//! unbounded channel and polls the real `df.run()` future by hand (flag-setting task waker);
//! threads 1..nw (wakers) each push items into the channel from their own OS thread, which
//! fires the dataflow's Waker (`WakeState::wake_by_ref`) on that thread. Hook H2
//! (`dfir_rs::scheduled::context::verif_hooks`) blocks every thread at every named yield point
//! until the controller (main thread) releases it, so exactly one thread runs at a time and
//! the interleaving is the controller's schedule: a TLC-generated one (replay) or a seeded
//! random one. One event is logged per executed segment, in the controller's order.
//! Nothing is judged here: TLC validates the trace against spec/Wake.
//!
//!   wake replay <cases.ndjson> <trace_out.ndjson>
//!       case: {"nw":2,"sends":1,"steps":[{"thr":0,"e":"run","to":"avail_begin","tw":false,..},..]}
//!   wake random <count> <max_wakers> <max_sends> <trace_out.ndjson>
//!
//! stdout: one JSON summary. Exit code 3: the controller lost a thread (harness failure).
use std::cell::Cell;
use std::future::Future;
use std::panic::{AssertUnwindSafe, catch_unwind, resume_unwind};
use std::sync::atomic::{AtomicBool, Ordering};
use std::sync::{Arc, Condvar, Mutex, RwLock};
use std::task::{Context, Wake, Waker};
use std::time::Duration;

use dfir_rs::dfir_syntax;
use dfir_rs::scheduled::context::verif_hooks;
use hv_common::{Rng, Trace, Value, json};

struct CtlState {
    at: Vec<Option<&'static str>>,
    arrivals: Vec<u64>,
    go: Vec<bool>,
    exited: Vec<bool>,
    panicked: Vec<Option<String>>,
    stop: bool,
}
struct Ctl {
    m: Mutex<CtlState>,
    cv: Condvar,
}
struct StopToken;

thread_local! { static TID: Cell<Option<usize>> = const { Cell::new(None) }; }
static CTL: RwLock<Option<Arc<Ctl>>> = RwLock::new(None);

fn ctl() -> Option<Arc<Ctl>> {
    CTL.read().unwrap().clone()
}

/// The yield point: announce arrival, block until released (or the case is being torn down).
fn hook(point: &'static str) {
    let Some(tid) = TID.with(|t| t.get()) else { return };
    let Some(c) = ctl() else { return };
    let mut s = c.m.lock().unwrap();
    s.at[tid] = Some(point);
    s.arrivals[tid] += 1;
    c.cv.notify_all();
    while !s.go[tid] && !s.stop {
        s = c.cv.wait(s).unwrap();
    }
    let stopping = s.stop && !s.go[tid];
    s.go[tid] = false;
    s.at[tid] = None;
    drop(s);
    if stopping && tid == 0 && point != "rt_idle" {
        // tear-down while the runner is inside a poll: unwind out of the dataflow
        resume_unwind(Box::new(StopToken));
    }
}

fn stopped() -> bool {
    ctl().map(|c| c.m.lock().unwrap().stop).unwrap_or(true)
}

fn mark_exit(tid: usize, panic: Option<String>) {
    if let Some(c) = ctl() {
        let mut s = c.m.lock().unwrap();
        s.exited[tid] = true;
        s.at[tid] = None;
        s.panicked[tid] = panic;
        c.cv.notify_all();
    }
}

struct FlagWaker(Arc<AtomicBool>);
impl Wake for FlagWaker {
    fn wake(self: Arc<Self>) {
        self.0.store(true, Ordering::SeqCst);
    }
    fn wake_by_ref(self: &Arc<Self>) {
        self.0.store(true, Ordering::SeqCst);
    }
}

fn runner_thread(
    rx: dfir_rs::tokio_stream::wrappers::UnboundedReceiverStream<i64>,
    served: Arc<Mutex<Vec<i64>>>,
    tw: Arc<AtomicBool>,
) {
    TID.with(|t| t.set(Some(0)));
    let r = catch_unwind(AssertUnwindSafe(|| {
        let served2 = served.clone();
        let mut df = dfir_syntax! {
            source_stream(rx) -> for_each(|x: i64| served2.lock().unwrap().push(x));
        };
        let waker = Waker::from(Arc::new(FlagWaker(tw.clone())));
        let mut cx = Context::from_waker(&waker);
        let mut fut = Box::pin(df.run());
        loop {
            hook("rt_idle");
            if stopped() {
                break;
            }
            tw.store(false, Ordering::SeqCst);
            let _ = fut.as_mut().poll(&mut cx);
        }
    }));
    let panic = match r {
        Ok(()) => None,
        Err(e) if e.is::<StopToken>() => None,
        Err(e) => Some(
            e.downcast_ref::<&str>()
                .map(|s| s.to_string())
                .or_else(|| e.downcast_ref::<String>().cloned())
                .unwrap_or_else(|| "panic".into()),
        ),
    };
    mark_exit(0, panic);
}

fn waker_thread(w: usize, sends: usize, tx: dfir_rs::tokio::sync::mpsc::UnboundedSender<i64>) {
    TID.with(|t| t.set(Some(w)));
    for k in 1..=sends {
        hook("w_idle");
        if stopped() {
            break;
        }
        let _ = tx.send((w * 10 + k) as i64);
    }
    mark_exit(w, None);
}

struct Case {
    c: Arc<Ctl>,
    n: usize, // threads = 1 + nw
    tw: Arc<AtomicBool>,
    served: Arc<Mutex<Vec<i64>>>,
    sent: Vec<usize>,
    handles: Vec<std::thread::JoinHandle<()>>,
}

fn lost(what: &str) -> ! {
    eprintln!("wake harness: controller lost a thread: {what}");
    std::process::exit(3);
}

impl Case {
    fn start(nw: usize, sends: usize) -> Case {
        let n = nw + 1;
        let c = Arc::new(Ctl {
            m: Mutex::new(CtlState {
                at: vec![None; n],
                arrivals: vec![0; n],
                go: vec![false; n],
                exited: vec![false; n],
                panicked: vec![None; n],
                stop: false,
            }),
            cv: Condvar::new(),
        });
        *CTL.write().unwrap() = Some(c.clone());
        let (tx, rx) = dfir_rs::util::unbounded_channel::<i64>();
        let tw = Arc::new(AtomicBool::new(true));
        let served = Arc::new(Mutex::new(Vec::new()));
        let mut handles = Vec::new();
        {
            let (served, tw) = (served.clone(), tw.clone());
            handles.push(std::thread::spawn(move || runner_thread(rx, served, tw)));
        }
        for w in 1..=nw {
            let tx = tx.clone();
            handles.push(std::thread::spawn(move || waker_thread(w, sends, tx)));
        }
        drop(tx);
        // wait until every thread stands at its first yield point
        let mut s = c.m.lock().unwrap();
        while !(0..n).all(|t| s.at[t].is_some() || s.exited[t]) {
            let (g, to) = c.cv.wait_timeout(s, Duration::from_secs(60)).unwrap();
            s = g;
            if to.timed_out() {
                lost("start");
            }
        }
        drop(s);
        Case { c, n, tw, served, sent: vec![0; n], handles }
    }

    fn at(&self, t: usize) -> Option<&'static str> {
        let s = self.c.m.lock().unwrap();
        if s.exited[t] { None } else { s.at[t] }
    }
    fn tw(&self) -> bool {
        self.tw.load(Ordering::SeqCst)
    }
    fn runner_due(&self) -> bool {
        match self.at(0) {
            Some("rt_idle") => self.tw(),
            Some(_) => true,
            None => false,
        }
    }

    /// Release thread t and wait until it stands at its next yield point (or exited).
    /// Returns (from, to) with to = "exit" for a finished thread.
    fn step(&mut self, t: usize) -> (&'static str, &'static str) {
        let mut s = self.c.m.lock().unwrap();
        let from = s.at[t].expect("stepping a thread that is not at a yield point");
        let n0 = s.arrivals[t];
        s.go[t] = true;
        self.c.cv.notify_all();
        while !(s.arrivals[t] > n0 && s.at[t].is_some()) && !s.exited[t] {
            let (g, to) = self.c.cv.wait_timeout(s, Duration::from_secs(60)).unwrap();
            s = g;
            if to.timed_out() {
                lost("step");
            }
        }
        let to = if s.exited[t] { "exit" } else { s.at[t].unwrap() };
        (from, to)
    }

    /// Steps thread t and builds the trace event.
    fn step_event(&mut self, t: usize) -> Value {
        let (from, to) = self.step(t);
        let tw = self.tw();
        if t == 0 {
            let items: Vec<i64> = std::mem::take(&mut *self.served.lock().unwrap());
            let panic = self.c.m.lock().unwrap().panicked[0].clone();
            if let Some(msg) = panic {
                return json!({"e":"panic","msg":msg});
            }
            if from == "tick_swapped" || !items.is_empty() {
                json!({"e":"tick","thr":0,"items":items,"to":to,"tw":tw})
            } else {
                json!({"e":"run","thr":0,"to":to,"tw":tw})
            }
        } else if from == "w_idle" {
            self.sent[t] += 1;
            let item = (t * 10 + self.sent[t]) as i64;
            json!({"e":"arrive","thr":t,"w":t,"item":item,"fired":to == "wake_begin","to":to,"tw":tw})
        } else {
            let to2 = if from == "wake_done" { "done" } else { to };
            json!({"e":"wseg","thr":t,"w":t,"to":to2,"tw":tw})
        }
    }

    fn finish(self) {
        {
            let mut s = self.c.m.lock().unwrap();
            s.stop = true;
            self.c.cv.notify_all();
        }
        for h in self.handles {
            let _ = h.join();
        }
        *CTL.write().unwrap() = None;
    }
}

fn same(model: &Value, ev: &Value) -> bool {
    let set = |v: &Value| {
        let mut a: Vec<i64> = serde_json::from_value(v.clone()).unwrap_or_default();
        a.sort();
        a
    };
    if model["e"] != ev["e"] || model["thr"] != ev["thr"] || model["tw"] != ev["tw"] {
        return false;
    }
    match ev["e"].as_str().unwrap_or("") {
        "tick" => set(&model["items"]) == set(&ev["items"]) && model["to"] == ev["to"],
        "arrive" => model["item"] == ev["item"] && model["fired"] == ev["fired"],
        _ => model["to"] == ev["to"],
    }
}

struct Out {
    steps: usize,
    ticks: usize,
    drift: Option<Value>,
}

fn run_case(
    case_id: usize,
    nw: usize,
    sends: usize,
    sched: &mut dyn FnMut(&Case) -> Option<(usize, bool)>,
    expect: Option<&Vec<Value>>,
    terminal: bool,
    tr: &mut Trace,
) -> Out {
    tr.ev(json!({"e":"reset","case":case_id,"nw":nw,"sends":sends}));
    let mut case = Case::start(nw, sends);
    let budget = 60 * (1 + nw * sends) + expect.map(|e| e.len()).unwrap_or(0);
    let (mut steps, mut ticks) = (0usize, 0usize);
    let mut drift: Option<Value> = None;
    let mut dead = false;
    let mut skipped = 0usize;
    let mut exec = |case: &mut Case, t: usize, tr: &mut Trace, steps: &mut usize, ticks: &mut usize| -> bool {
        let ev = case.step_event(t);
        if ev["e"] == "panic" {
            tr.ev(ev);
            return false;
        }
        if ev["e"] == "tick" {
            *ticks += 1;
        }
        if let Some(exp) = expect {
            if drift.is_none() {
                match exp.get(*steps) {
                    Some(m) if same(m, &ev) => {}
                    Some(m) => drift = Some(json!({"case":case_id,"step":*steps,"model":m,"impl":ev})),
                    // a schedule that ends in a non-terminal model state is a prefix: the run
                    // to quiescence after it is not predicted
                    None if terminal => {
                        drift = Some(json!({"case":case_id,"step":*steps,"model":"terminal","impl":ev}))
                    }
                    None => {}
                }
            }
        }
        tr.ev(ev);
        *steps += 1;
        true
    };
    // scheduled part
    while !dead && steps < budget {
        match sched(&case) {
            Some((t, spurious_ok)) => {
                if t >= case.n || case.at(t).is_none() {
                    continue; // thread already finished: entry skipped
                }
                // the model considers this poll of the runner due, but the real runner task has
                // not been woken: an executor would not poll it -- skip, so that a lost wake-up
                // is not masked by the replay
                if t == 0 && !spurious_ok && !case.runner_due() {
                    skipped += 1;
                    continue;
                }
                dead = !exec(&mut case, t, tr, &mut steps, &mut ticks);
            }
            None => break,
        }
    }

    // run to quiescence: only due steps, wakers first (round robin), then the runner
    let mut next = 1usize;
    while !dead {
        let pick = (0..case.n)
            .map(|k| (next + k) % case.n)
            .find(|&t| if t == 0 { case.runner_due() } else { case.at(t).is_some() });
        match pick {
            Some(t) => {
                if steps >= budget {
                    tr.ev(json!({"e":"stall"}));
                    break;
                }
                dead = !exec(&mut case, t, tr, &mut steps, &mut ticks);
                next = t + 1;
            }
            None => break,
        }
    }
    if skipped > 0 && drift.is_none() {
        drift = Some(json!({"case":case_id,"skipped_runner_polls_not_due_in_the_real_code":skipped}));
    }
    case.finish();
    Out { steps, ticks, drift }
}

fn main() {
    let args: Vec<String> = std::env::args().collect();
    verif_hooks::set(Some(Arc::new(hook)));
    let mut drift: Vec<Value> = Vec::new();
    let (mut cases, mut steps, mut ticks, mut ndrift) = (0usize, 0usize, 0usize, 0usize);
    match args.get(1).map(|s| s.as_str()) {
        Some("replay") => {
            let input = hv_common::read_ndjson(&args[2]);
            let mut tr = Trace::create(&args[3]);
            for (i, c) in input.iter().enumerate() {
                let nw = c["nw"].as_u64().unwrap() as usize;
                let sends = c["sends"].as_u64().unwrap() as usize;
                let exp: Vec<Value> = c["steps"].as_array().cloned().unwrap_or_default();
                let order: Vec<(usize, bool)> = exp
                    .iter()
                    .map(|s| (s["thr"].as_u64().unwrap() as usize, s["sp"].as_bool().unwrap_or(true)))
                    .collect();
                let mut k = 0usize;
                let mut sched = |_c: &Case| {
                    let r = order.get(k).copied();
                    k += 1;
                    r
                };
                let terminal = c["terminal"].as_bool().unwrap_or(false);
                let o = run_case(i + 1, nw, sends, &mut sched, Some(&exp), terminal, &mut tr);
                cases += 1;
                steps += o.steps;
                ticks += o.ticks;
                if let Some(d) = o.drift {
                    ndrift += 1;
                    if drift.len() < 20 {
                        drift.push(d);
                    }
                }
            }
            tr.ev(json!({"e":"eof"}));
            let events = tr.lines;
            tr.finish();
            println!("{}", json!({"cases":cases,"events":events,"steps":steps,"ticks":ticks,"ndrift":ndrift,"drift":drift}));
        }
        Some("random") => {
            let count: usize = args[2].parse().unwrap();
            let max_w: u64 = args[3].parse().unwrap();
            let max_s: u64 = args[4].parse().unwrap();
            let mut tr = Trace::create(&args[5]);
            let mut rng = Rng::new(hv_common::seed());
            for i in 0..count {
                let nw = 1 + rng.below(max_w) as usize;
                let sends = 1 + rng.below(max_s) as usize;
                let spur_pct = if i % 2 == 0 { 0 } else { 5 + rng.below(20) };
                // bias: how eagerly the runner is scheduled relative to the wakers
                let runner_pct = 20 + rng.below(70);
                let mut left = 40 * (1 + nw * sends);
                let mut r2 = Rng::new(rng.next());
                let mut sched = |c: &Case| {
                    if left == 0 {
                        return None;
                    }
                    left -= 1;
                    let wk: Vec<usize> = (1..c.n).filter(|&t| c.at(t).is_some()).collect();
                    let due = c.runner_due();
                    let parked = !due && c.at(0) == Some("rt_idle");
                    if parked && r2.below(100) < spur_pct {
                        return Some((0, true));
                    }
                    if due && (wk.is_empty() || r2.below(100) < runner_pct) {
                        return Some((0, false));
                    }
                    if wk.is_empty() {
                        return None;
                    }
                    Some((wk[r2.below(wk.len() as u64) as usize], false))
                };
                let o = run_case(i + 1, nw, sends, &mut sched, None, false, &mut tr);
                cases += 1;
                steps += o.steps;
                ticks += o.ticks;
            }
            tr.ev(json!({"e":"eof"}));
            let events = tr.lines;
            tr.finish();
            println!("{}", json!({"cases":cases,"events":events,"steps":steps,"ticks":ticks,"ndrift":0,"drift":drift}));
        }
        _ => {
            eprintln!("usage: wake replay|random ...");
            std::process::exit(2);
        }
    }
}
