//! C16 harness: drives the real dfir_rs::util::unsync::mpsc channel.
//!
//! Every task (one receiver, n senders) is a real `async` block that awaits the real futures
//! (`Sender::send`, `SinkExt::feed` over the `Sink` impl, `Receiver::recv` / `Stream::next`);
//! the harness is the executor: it polls the task futures by hand, one op-poll per step,
//! with wakers that only set a per-task flag, following a given schedule (from TLC) or a seeded
//! random one, and logs one event per step. Nothing is judged here: TLC validates the trace.
//!
//!   mpsc replay <cases.ndjson> <trace_out.ndjson>
//!       case: {"cap":c,"progs":[[["send",11],["drop",0]],..],"rclose":-1,
//!              "steps":[{"t":1,"op":"send","item":11,"r":"ok","v":0,"w":[0]},..]}
//!   mpsc random <count> <max_senders> <max_ops> <trace_out.ndjson>
//!
//! stdout: one JSON summary {cases, events, steps, drift:[..]}.
use std::cell::RefCell;
use std::future::Future;
use std::num::NonZeroUsize;
use std::pin::Pin;
use std::rc::Rc;
use std::sync::Arc;
use std::sync::atomic::{AtomicBool, Ordering};
use std::task::{Context, Poll, Wake, Waker};

use dfir_rs::util::unsync::mpsc::{Receiver, Sender, TrySendError, channel};
use futures::{SinkExt, StreamExt};
use hv_common::{Rng, Trace, Value, json};

struct FlagWaker(Arc<Vec<AtomicBool>>, usize);
impl Wake for FlagWaker {
    fn wake(self: Arc<Self>) {
        self.0[self.1].store(true, Ordering::SeqCst);
    }
    fn wake_by_ref(self: &Arc<Self>) {
        self.0[self.1].store(true, Ordering::SeqCst);
    }
}

/// Returns Pending exactly once without registering a waker (the harness knows the task is
/// runnable): separates two ops of a task into two scheduler steps.
struct YieldOnce(bool);
impl Future for YieldOnce {
    type Output = ();
    fn poll(mut self: Pin<&mut Self>, _cx: &mut Context<'_>) -> Poll<()> {
        if self.0 {
            Poll::Ready(())
        } else {
            self.0 = true;
            Poll::Pending
        }
    }
}

/// What a task is doing / has just done, shared with the executor.
#[derive(Default)]
struct Cell {
    /// (op, item) currently being awaited
    inop: Option<(String, i64)>,
    /// (op, item, result, value) completed during the current poll
    done: Option<(String, i64, String, i64)>,
}
type Shared = Rc<RefCell<Cell>>;

#[derive(Clone, Copy, PartialEq, Debug)]
enum St {
    Run,
    Wait,
    Done,
}

enum Kept {
    S(#[allow(dead_code)] Option<Sender<i64>>),
    R(#[allow(dead_code)] Receiver<i64>),
}
type TaskFut = Pin<Box<dyn Future<Output = Kept>>>;

fn sender_task(tx: Sender<i64>, prog: Vec<(String, i64)>, cell: Shared) -> TaskFut {
    Box::pin(async move {
        let mut tx = Some(tx);
        let n = prog.len();
        for (i, (op, item)) in prog.into_iter().enumerate() {
            cell.borrow_mut().inop = Some((op.clone(), item));
            let r: &str = match op.as_str() {
                "send" => match tx.as_ref().unwrap().send(item).await {
                    Ok(()) => "ok",
                    Err(_) => "closed",
                },
                "feed" => match tx.as_mut().unwrap().feed(item).await {
                    Ok(()) => "ok",
                    Err(TrySendError::Closed(_)) => "closed",
                    Err(TrySendError::Full(_)) => "full",
                },
                "try" => match tx.as_ref().unwrap().try_send(item) {
                    Ok(()) => "ok",
                    Err(TrySendError::Closed(_)) => "closed",
                    Err(TrySendError::Full(_)) => "full",
                },
                "close" => {
                    tx.as_mut().unwrap().close_this_sender();
                    "ok"
                }
                "drop" => {
                    drop(tx.take());
                    "ok"
                }
                other => panic!("unknown op {other}"),
            };
            {
                let mut c = cell.borrow_mut();
                c.inop = None;
                c.done = Some((op.clone(), item, r.to_string(), 0));
            }
            if tx.is_none() {
                break;
            }
            if i + 1 < n {
                YieldOnce(false).await;
            }
        }
        Kept::S(tx)
    })
}

fn receiver_task(rx: Receiver<i64>, rclose: i64, use_stream: bool, cell: Shared) -> TaskFut {
    Box::pin(async move {
        let mut rx = rx;
        let mut got = 0i64;
        let mut closed = false;
        loop {
            if rclose >= 0 && !closed && got == rclose {
                rx.close();
                closed = true;
                cell.borrow_mut().done = Some(("rclose".into(), 0, "ok".into(), 0));
                YieldOnce(false).await;
                continue;
            }
            cell.borrow_mut().inop = Some(("recv".into(), 0));
            let x = if use_stream { rx.next().await } else { rx.recv().await };
            let mut c = cell.borrow_mut();
            c.inop = None;
            match x {
                Some(v) => {
                    got += 1;
                    c.done = Some(("recv".into(), 0, "item".into(), v));
                    drop(c);
                    YieldOnce(false).await;
                }
                None => {
                    c.done = Some(("recv".into(), 0, "none".into(), 0));
                    break;
                }
            }
        }
        Kept::R(rx)
    })
}

struct Sys {
    flags: Arc<Vec<AtomicBool>>,
    wakers: Vec<Waker>,
    futs: Vec<Option<TaskFut>>,
    cells: Vec<Shared>,
    st: Vec<St>,
    kept: Vec<Kept>,
}

struct StepOut {
    op: String,
    item: i64,
    r: String,
    v: i64,
    w: Vec<usize>,
}

impl Sys {
    fn new(cap: usize, progs: &[Vec<(String, i64)>], rclose: i64, use_stream: bool) -> Sys {
        let n = progs.len();
        let (tx, rx) = channel::<i64>(NonZeroUsize::new(cap));
        let flags: Arc<Vec<AtomicBool>> = Arc::new((0..=n).map(|_| AtomicBool::new(false)).collect());
        let wakers = (0..=n)
            .map(|i| Waker::from(Arc::new(FlagWaker(flags.clone(), i))))
            .collect();
        let cells: Vec<Shared> = (0..=n).map(|_| Shared::default()).collect();
        let mut futs: Vec<Option<TaskFut>> = Vec::new();
        let mut st = vec![St::Run; n + 1];
        let mut kept = Vec::new();
        // one handle per sender task; the original `tx` goes to sender 1
        let mut handles: Vec<Sender<i64>> = (1..n).map(|_| tx.clone()).collect();
        handles.insert(0, tx);
        if n == 0 {
            // no sender task: the only handle is dropped at once (cannot happen: n >= 1)
            handles.clear();
        }
        futs.push(Some(receiver_task(rx, rclose, use_stream, cells[0].clone())));
        for (i, (h, p)) in handles.into_iter().zip(progs.iter()).enumerate() {
            if p.is_empty() {
                st[i + 1] = St::Done;
                kept.push(Kept::S(Some(h)));
                futs.push(None);
            } else {
                futs.push(Some(sender_task(h, p.clone(), cells[i + 1].clone())));
            }
        }
        Sys { flags, wakers, futs, cells, st, kept }
    }

    fn flag(&self, t: usize) -> bool {
        self.flags[t].load(Ordering::SeqCst)
    }
    fn runnable(&self, t: usize) -> bool {
        self.st[t] == St::Run || (self.st[t] == St::Wait && self.flag(t))
    }

    /// One scheduler step of task t: clear its flag, poll it once. Err = panic message.
    fn step(&mut self, t: usize) -> Result<StepOut, String> {
        self.flags[t].store(false, Ordering::SeqCst);
        self.cells[t].borrow_mut().done = None;
        let waker = self.wakers[t].clone();
        let fut = self.futs[t].as_mut().expect("task finished");
        let res = hv_common::catch(|| {
            let mut cx = Context::from_waker(&waker);
            fut.as_mut().poll(&mut cx)
        })?;
        let done = self.cells[t].borrow_mut().done.take();
        let inop = self.cells[t].borrow().inop.clone();
        let (op, item, r, v) = match (&res, done) {
            (_, Some(d)) => d,
            (Poll::Pending, None) => {
                let (op, item) = inop.expect("pending outside an op");
                (op, item, "pending".to_string(), 0)
            }
            (Poll::Ready(_), None) => unreachable!("task finished without completing an op"),
        };
        match res {
            Poll::Ready(k) => {
                self.st[t] = St::Done;
                self.futs[t] = None;
                self.kept.push(k);
            }
            Poll::Pending => {
                self.st[t] = if r == "pending" { St::Wait } else { St::Run };
            }
        }
        let w = (0..self.st.len()).filter(|&i| self.flag(i)).collect();
        Ok(StepOut { op, item, r, v, w })
    }
}

struct Out {
    steps: usize,
    drift: Option<Value>,
}

/// Runs one case: follow `sched` (task ids; entries naming a finished task are skipped), then
/// keep polling runnable tasks round-robin until quiescence.
fn run_case(
    case_id: usize,
    cap: usize,
    progs: &[Vec<(String, i64)>],
    rclose: i64,
    sched: &mut dyn FnMut(&Sys) -> Option<(usize, bool)>,
    expect: Option<&Vec<Value>>,
    tr: &mut Trace,
) -> Out {
    let jprogs: Vec<Vec<Value>> = progs
        .iter()
        .map(|p| p.iter().map(|(o, i)| json!([o, i])).collect())
        .collect();
    tr.ev(json!({"e":"reset","case":case_id,"cap":cap,"progs":jprogs,"rclose":rclose}));
    let mut sys = Sys::new(cap, progs, rclose, case_id % 2 == 0);
    let total_ops: usize = progs.iter().map(|p| p.len()).sum();
    let budget = 8 * (total_ops + progs.len() + 4) + expect.map(|e| e.len()).unwrap_or(0);
    let mut steps = 0usize;
    let mut drift: Option<Value> = None;
    let mut do_step = |sys: &mut Sys, t: usize, tr: &mut Trace, steps: &mut usize| -> bool {
        match sys.step(t) {
            Ok(o) => {
                let ev = json!({"e":"step","t":t,"op":o.op,"item":o.item,"r":o.r,"v":o.v,"w":o.w});
                if let Some(exp) = expect {
                    if drift.is_none() {
                        match exp.get(*steps) {
                            Some(x) => {
                                let same = x["t"] == ev["t"] && x["op"] == ev["op"] && x["item"] == ev["item"]
                                    && x["r"] == ev["r"] && x["v"] == ev["v"] && {
                                        let mut a: Vec<i64> = serde_json::from_value(x["w"].clone()).unwrap_or_default();
                                        let mut b: Vec<i64> = serde_json::from_value(ev["w"].clone()).unwrap_or_default();
                                        a.sort();
                                        b.sort();
                                        a == b
                                    };
                                if !same {
                                    drift = Some(json!({"case":case_id,"step":*steps,"model":x,"impl":ev}));
                                }
                            }
                            None => {
                                drift = Some(json!({"case":case_id,"step":*steps,"model":"terminal","impl":ev}));
                            }
                        }
                    }
                }
                tr.ev(ev);
                *steps += 1;
                true
            }
            Err(msg) => {
                tr.ev(json!({"e":"panic","msg":msg,"t":t}));
                false
            }
        }
    };
    // scheduled part
    let mut alive = true;
    let mut skipped = 0usize;
    while alive && steps < budget {
        match sched(&sys) {
            Some((t, spurious_ok)) => {
                if t >= sys.st.len() || sys.st[t] == St::Done {
                    continue;
                }
                // a poll the schedule's author (the model) considers due, but for which the real
                // channel has not woken the task: an executor would not make it -- skip it, so
                // that a lost wake-up is not masked by the replay
                if !spurious_ok && !sys.runnable(t) {
                    skipped += 1;
                    continue;
                }
                alive = do_step(&mut sys, t, tr, &mut steps);
            }
            None => break,
        }
    }
    // run to quiescence: only the polls an executor is obliged to make
    let mut next = 0usize;
    while alive && steps < budget {
        let nt = sys.st.len();
        let pick = (0..nt).map(|k| (next + k) % nt).find(|&t| sys.runnable(t));
        match pick {
            Some(t) => {
                alive = do_step(&mut sys, t, tr, &mut steps);
                next = t + 1;
            }
            None => break,
        }
    }
    if skipped > 0 && drift.is_none() {
        drift = Some(json!({"case":case_id,"skipped_polls_not_due_in_the_real_channel":skipped}));
    }
    if let (Some(exp), None) = (expect, &drift) {
        if steps != exp.len() {
            drift = Some(json!({"case":case_id,"step":steps,"model_steps":exp.len(),"impl_steps":steps}));
        }
    }
    Out { steps, drift }
}

fn parse_progs(v: &Value) -> Vec<Vec<(String, i64)>> {
    v.as_array()
        .unwrap()
        .iter()
        .map(|p| {
            p.as_array()
                .unwrap()
                .iter()
                .map(|o| (o[0].as_str().unwrap().to_string(), o[1].as_i64().unwrap()))
                .collect()
        })
        .collect()
}

fn main() {
    let args: Vec<String> = std::env::args().collect();
    let mut drift: Vec<Value> = Vec::new();
    let mut ndrift = 0usize;
    let mut cases = 0usize;
    let mut steps = 0usize;
    match args.get(1).map(|s| s.as_str()) {
        Some("replay") => {
            let input = hv_common::read_ndjson(&args[2]);
            let mut tr = Trace::create(&args[3]);
            for (i, c) in input.iter().enumerate() {
                let progs = parse_progs(&c["progs"]);
                let cap = c["cap"].as_u64().unwrap() as usize;
                let rclose = c["rclose"].as_i64().unwrap();
                let exp: Vec<Value> = c["steps"].as_array().cloned().unwrap_or_default();
                let order: Vec<(usize, bool)> = exp
                    .iter()
                    .map(|s| (s["t"].as_u64().unwrap() as usize, s["sp"].as_bool().unwrap_or(true)))
                    .collect();
                let mut k = 0usize;
                let mut sched = |_s: &Sys| {
                    let r = order.get(k).copied();
                    k += 1;
                    r
                };
                let o = run_case(i + 1, cap, &progs, rclose, &mut sched, Some(&exp), &mut tr);
                cases += 1;
                steps += o.steps;
                if let Some(d) = o.drift {
                    ndrift += 1;
                    if drift.len() < 20 {
                        drift.push(d);
                    }
                }
            }
            tr.ev(json!({"e":"eof"}));
            let events = tr.lines;
            tr.finish();
            println!("{}", json!({"cases":cases,"events":events,"steps":steps,"ndrift":ndrift,"drift":drift}));
        }
        Some("random") => {
            let count: usize = args[2].parse().unwrap();
            let max_n: u64 = args[3].parse().unwrap();
            let max_ops: u64 = args[4].parse().unwrap();
            let mut tr = Trace::create(&args[5]);
            let mut rng = Rng::new(hv_common::seed());
            for i in 0..count {
                let n = 1 + rng.below(max_n) as usize;
                let cap = [1usize, 1, 2, 2, 3, 0][rng.below(6) as usize];
                // every third case never polls spuriously and never uses close_this_sender
                let plain = i % 3 == 0;
                let progs: Vec<Vec<(String, i64)>> = (1..=n)
                    .map(|t| {
                        let len = rng.below(max_ops + 1) as usize;
                        let mut p: Vec<(String, i64)> = (1..=len)
                            .map(|k| {
                                let kind = ["send", "send", "feed", "try"][rng.below(4) as usize];
                                (kind.to_string(), (t * 10 + k) as i64)
                            })
                            .collect();
                        match rng.below(10) {
                            0..=5 => p.push(("drop".into(), 0)),
                            6 if !plain => p.push(("close".into(), 0)),
                            6 => p.push(("drop".into(), 0)),
                            _ => {}
                        }
                        p
                    })
                    .collect();
                let total: usize = progs.iter().map(|p| p.len()).sum();
                let rclose = if rng.chance(1, 4) { rng.below(total as u64 + 1) as i64 } else { -1 };
                let spur_pct = if plain { 0 } else { 10 + rng.below(30) };
                let mut left = 3 * total + 6;
                let mut r2 = Rng::new(rng.next());
                let mut sched = |s: &Sys| {
                    if left == 0 {
                        return None;
                    }
                    left -= 1;
                    let nt = s.st.len();
                    let runnable: Vec<usize> = (0..nt).filter(|&t| s.runnable(t)).collect();
                    let waiting: Vec<usize> =
                        (0..nt).filter(|&t| s.st[t] == St::Wait && !s.flag(t)).collect();
                    if !waiting.is_empty() && r2.below(100) < spur_pct {
                        return Some((waiting[r2.below(waiting.len() as u64) as usize], true));
                    }
                    if runnable.is_empty() {
                        return None;
                    }
                    Some((runnable[r2.below(runnable.len() as u64) as usize], false))
                };
                let o = run_case(i + 1, cap, &progs, rclose, &mut sched, None, &mut tr);
                cases += 1;
                steps += o.steps;
            }
            tr.ev(json!({"e":"eof"}));
            let events = tr.lines;
            tr.finish();
            println!("{}", json!({"cases":cases,"events":events,"steps":steps,"ndrift":0,"drift":drift}));
        }
        _ => {
            eprintln!("usage: mpsc replay|random ...");
            std::process::exit(2);
        }
    }
}
