//! C13 harness: drives the real dfir_pipes symmetric hash join (both the incremental
//! `SymmetricHashJoin` pull and the `symmetric_hash_join(.., is_new_tick = true)` drain-then-
//! enumerate path) over scripted fused inputs, with `HalfSetJoinState` / `HalfMultisetJoinState`
//! half states that persist across ticks or are cleared at tick end.
//!
//!   sym_join replay <cases.ndjson> <trace_out.ndjson>
//!        cases: {"lk","rk","mode","pers":[b,b],"ticks":[{"l":[..],"r":[..]}..],"calls":[[..]..],"lens":[[l,r]..]}
//!   sym_join random <count> <max_items> <max_pend> <trace_out.ndjson>
//!
//! Events: reset, tick, call (one per poll of the async fn / pull of the returned pull), tickend, eof.
use std::cell::RefCell;
use std::future::Future;
use std::rc::Rc;
use std::task::{Context, Poll};

use dfir_pipes::pull::{self, HalfJoinState, HalfMultisetJoinState, HalfSetJoinState, Pull};
use hv_common::{Rng, Trace, Value, json};
use hv_pull::{DynPull, Log, Src, Step, V};
use serde::{Deserialize, Serialize};

#[derive(Clone, Debug, Serialize, Deserialize)]
struct Tick {
    l: Vec<V>,
    r: Vec<V>,
}

#[derive(Clone, Debug, Serialize, Deserialize)]
struct Case {
    lk: String,
    rk: String,
    mode: String,
    pers: (bool, bool),
    ticks: Vec<Tick>,
}

fn drain_polls(log: &Log) -> Vec<Value> {
    log.borrow_mut().drain(..).map(|(s, a)| json!([s, a])).collect()
}

/// Runs one case; returns (calls per tick, lens per tick).
fn run_case<LS, RS>(case_id: usize, c: &Case, tr: &mut Trace) -> (Vec<Vec<Value>>, Vec<Value>)
where
    LS: HalfJoinState<i64, i64, i64> + Default,
    RS: HalfJoinState<i64, i64, i64> + Default,
{
    tr.ev(json!({"e":"reset","case":case_id,"lk":c.lk,"rk":c.rk,"mode":c.mode,"pers":[c.pers.0, c.pers.1]}));
    let mut ls = LS::default();
    let mut rs = RS::default();
    let (_cnt, waker) = hv_common::count_waker();
    let mut cx = Context::from_waker(&waker);
    let mut all_calls = Vec::new();
    let mut lens = Vec::new();
    'ticks: for tick in &c.ticks {
        tr.ev(json!({"e":"tick","l":tick.l,"r":tick.r}));
        let log: Log = Rc::new(RefCell::new(Vec::new()));
        let mut calls = Vec::new();
        let budget = 4 * (tick.l.len() + tick.r.len()) + 4 * (ls.len() + 1) * (rs.len() + 1) + 64;
        let mut ended = false;
        {
            let lhs = Src::<true>::new(1, &tick.l, 0, &log).map(|v: V| (v[0], v[1]));
            let rhs = Src::<true>::new(2, &tick.r, 0, &log).map(|v: V| (v[0], v[1]));
            let mut fut = Box::pin(pull::symmetric_hash_join(lhs, rhs, &mut ls, &mut rs, c.mode == "newtick"));
            let mut joined = None;
            for _ in 0..budget {
                let r = hv_common::catch(|| fut.as_mut().poll(&mut cx));
                let polls = drain_polls(&log);
                match r {
                    Err(msg) => {
                        tr.ev(json!({"e":"panic","msg":msg,"p":polls}));
                        break 'ticks;
                    }
                    Ok(Poll::Pending) => {
                        let call = json!({"p":polls,"s":"P","i":[]});
                        let mut ev = call.clone();
                        ev["e"] = json!("call");
                        tr.ev(ev);
                        calls.push(call);
                    }
                    Ok(Poll::Ready(j)) => {
                        let call = json!({"p":polls,"s":"D","i":[]});
                        let mut ev = call.clone();
                        ev["e"] = json!("call");
                        tr.ev(ev);
                        calls.push(call);
                        joined = Some(j);
                        break;
                    }
                }
            }
            if let Some(j) = joined {
                let mut j = Box::pin(j.map(|(k, (a, b)): (i64, (i64, i64))| vec![k, a, b]));
                for _ in 0..budget {
                    let r = hv_common::catch(|| j.as_mut().pull_dyn(&mut cx));
                    let polls = drain_polls(&log);
                    let (st, items): (&str, Vec<V>) = match r {
                        Err(msg) => {
                            tr.ev(json!({"e":"panic","msg":msg,"p":polls}));
                            break 'ticks;
                        }
                        Ok(Step::Ready(v)) => ("R", vec![v]),
                        Ok(Step::Pending) => ("P", vec![]),
                        Ok(Step::Ended) => ("E", vec![]),
                    };
                    let call = json!({"p":polls,"s":st,"i":items});
                    let mut ev = call.clone();
                    ev["e"] = json!("call");
                    tr.ev(ev);
                    calls.push(call);
                    if st == "E" {
                        ended = true;
                        break;
                    }
                }
            }
        }
        all_calls.push(calls);
        if !ended {
            tr.ev(json!({"e":"stall"}));
            break;
        }
        tr.ev(json!({"e":"tickend","llen":ls.len(),"rlen":rs.len()}));
        lens.push(json!([ls.len(), rs.len()]));
        // 'tick persistence: the join operator clears the state at tick end
        if !c.pers.0 {
            ls.clear();
        }
        if !c.pers.1 {
            rs.clear();
        }
    }
    (all_calls, lens)
}

fn dispatch(case_id: usize, c: &Case, tr: &mut Trace) -> (Vec<Vec<Value>>, Vec<Value>) {
    type S = HalfSetJoinState<i64, i64, i64>;
    type M = HalfMultisetJoinState<i64, i64, i64>;
    match (c.lk.as_str(), c.rk.as_str()) {
        ("set", "set") => run_case::<S, S>(case_id, c, tr),
        ("multi", "multi") => run_case::<M, M>(case_id, c, tr),
        ("set", "multi") => run_case::<S, M>(case_id, c, tr),
        ("multi", "set") => run_case::<M, S>(case_id, c, tr),
        _ => panic!("unknown flavours"),
    }
}

/// newtick: the order of the enumerated pairs is the hash map's -> compare the items of a tick as a bag
fn normalise(mode: &str, ticks: &[Vec<Value>]) -> Value {
    if mode != "newtick" {
        return json!(ticks);
    }
    let out: Vec<Value> = ticks
        .iter()
        .map(|calls| {
            let shape: Vec<Value> = calls.iter().map(|c| json!([c["p"], c["s"]])).collect();
            let mut items: Vec<String> = calls.iter().flat_map(|c| c["i"].as_array().unwrap().iter().map(|x| x.to_string())).collect();
            items.sort();
            json!([shape, items])
        })
        .collect();
    json!(out)
}

fn script(rng: &mut Rng, max_items: u64, max_pend: u64, nk: u64, nv: u64) -> Vec<V> {
    let (mut i, mut p) = (rng.below(max_items + 1), rng.below(max_pend + 1));
    let mut s = Vec::new();
    while i + p > 0 {
        if rng.below(i + p) < i {
            s.push(vec![rng.below(nk) as i64, rng.below(nv) as i64]);
            i -= 1;
        } else {
            s.push(vec![-1]);
            p -= 1;
        }
    }
    s
}

fn main() {
    let args: Vec<String> = std::env::args().collect();
    let mut drift: Vec<Value> = Vec::new();
    let mut ndrift = 0usize;
    let mut cases = 0usize;
    match args.get(1).map(|s| s.as_str()) {
        Some("replay") => {
            let input = hv_common::read_ndjson(&args[2]);
            let mut tr = Trace::create(&args[3]);
            for (i, cj) in input.iter().enumerate() {
                let c: Case = serde_json::from_value(cj.clone()).expect("case");
                let (calls, lens) = dispatch(i + 1, &c, &mut tr);
                cases += 1;
                if let Some(want) = cj.get("calls").and_then(|w| w.as_array()) {
                    let want: Vec<Vec<Value>> = want.iter().map(|t| t.as_array().cloned().unwrap_or_default()).collect();
                    if normalise(&c.mode, &calls) != normalise(&c.mode, &want) || json!(lens) != cj["lens"] {
                        ndrift += 1;
                        if drift.len() < 20 {
                            drift.push(json!({"case":i+1,"input":cj,"impl_calls":calls,"impl_lens":lens}));
                        }
                    }
                }
            }
            tr.ev(json!({"e":"eof"}));
            let events = tr.lines;
            tr.finish();
            println!("{}", json!({"cases":cases,"events":events,"ndrift":ndrift,"drift":drift}));
        }
        Some("random") => {
            let count: usize = args[2].parse().unwrap();
            let max_items: u64 = args[3].parse().unwrap();
            let max_pend: u64 = args[4].parse().unwrap();
            let mut tr = Trace::create(&args[5]);
            let mut rng = Rng::new(hv_common::seed());
            for i in 0..count {
                let fl = ["set", "multi"];
                let nk = 1 + rng.below(3);
                let nv = 1 + rng.below(3);
                let nt = 1 + rng.below(3);
                let c = Case {
                    lk: fl[rng.below(2) as usize].into(),
                    rk: fl[rng.below(2) as usize].into(),
                    mode: if rng.chance(1, 2) { "incr".into() } else { "newtick".into() },
                    pers: (rng.chance(1, 2), rng.chance(1, 2)),
                    ticks: (0..nt)
                        .map(|_| Tick { l: script(&mut rng, max_items, max_pend, nk, nv), r: script(&mut rng, max_items, max_pend, nk, nv) })
                        .collect(),
                };
                dispatch(i + 1, &c, &mut tr);
                cases += 1;
            }
            tr.ev(json!({"e":"eof"}));
            let events = tr.lines;
            tr.finish();
            println!("{}", json!({"cases":cases,"events":events,"ndrift":0,"drift":drift}));
        }
        _ => {
            eprintln!("usage: sym_join replay|random ...");
            std::process::exit(2);
        }
    }
}
