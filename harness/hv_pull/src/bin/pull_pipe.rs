//! C11 harness: drives trees of the real dfir_pipes pull combinators over scripted upstreams and
//! logs one event per call of the root (the upstream polls made during the call, the answer,
//! the items handed over, size_hint() afterwards).
//!
//!   pull_pipe replay <cases.ndjson> <trace_out.ndjson>
//!        cases: {"tree":..,"scripts":..,"hm":..,"h0":[lo,hi],"calls":[{"p":..,"s":..,"i":..,"h":..}..]}
//!   pull_pipe random <count> <max_items> <max_pend> <trace_out.ndjson>
//!
//! stdout: one JSON summary {cases, events, drift:[..]}.
use std::cell::RefCell;
use std::rc::Rc;
use std::task::{Context, Poll};

use dfir_pipes::pull::{Pull, PullStep};
use hv_common::{Rng, Trace, Value, json};
use hv_pull::{Log, Node, Root, V, build_root};

fn hint_json(h: (usize, Option<usize>)) -> Value {
    let clamp = |x: usize| -> i64 { if x > 1_000_000 { 1_000_000 } else { x as i64 } };
    json!([clamp(h.0), h.1.map(clamp).unwrap_or(-1)])
}

/// Runs one case; returns the recorded calls (for the drift comparison with the model).
fn run_case(case_id: usize, tree: &Node, scripts: &[Vec<V>], hm: u8, tr: &mut Trace) -> Result<(Value, Vec<Value>), String> {
    let log: Log = Rc::new(RefCell::new(Vec::new()));
    let mut root = build_root(tree, scripts, hm, &log)?;
    let fused = matches!(root, Root::Pull(_, true));
    tr.ev(json!({"e":"reset","case":case_id,"tree":tree,"scripts":scripts,"hm":hm,"fused":fused}));
    let h0 = match &root {
        Root::Pull(p, _) => hint_json(p.size_hint()),
        Root::Fut(..) => json!([0, -1]),
    };
    tr.ev(json!({"e":"hint0","h":h0}));
    let total: usize = scripts.iter().map(|s| s.len()).sum();
    let budget = 16 * total + 24;
    let (_cnt, waker) = hv_common::count_waker();
    let mut cx = Context::from_waker(&waker);
    let mut calls = Vec::new();
    let mut post = 0usize;
    let mut ended = false;
    let extra = if fused { 2 } else { 0 };
    for _ in 0..budget {
        // one call of the root
        let r = hv_common::catch(|| match &mut root {
            Root::Pull(p, _) => match std::pin::Pin::new(&mut *p).pull(&mut cx) {
                PullStep::Ready(v, ()) => ("R", vec![v]),
                PullStep::Pending(_) => ("P", vec![]),
                PullStep::Ended(_) => ("E", vec![]),
            },
            Root::Fut(f, got) => {
                let st = match f.as_mut().poll(&mut cx) {
                    Poll::Ready(()) => "E",
                    Poll::Pending => "P",
                };
                (st, got.borrow_mut().drain(..).collect())
            }
        });
        let polls: Vec<Value> = log.borrow_mut().drain(..).map(|(s, a)| json!([s, a])).collect();
        let (st, items) = match r {
            Ok(x) => x,
            Err(msg) => {
                tr.ev(json!({"e":"panic","msg":msg,"p":polls}));
                return Ok((h0, calls));
            }
        };
        let h = match &root {
            Root::Pull(p, _) => hint_json(p.size_hint()),
            Root::Fut(..) => json!([0, -1]),
        };
        let call = json!({"p":polls,"s":st,"i":items,"h":h});
        let mut ev = call.clone();
        ev["e"] = json!("call");
        tr.ev(ev);
        calls.push(call);
        if ended {
            post += 1;
        }
        if st == "E" || ended {
            ended = true;
            if post >= extra {
                break;
            }
        }
    }
    if !ended || post < extra {
        tr.ev(json!({"e":"stall"}));
    }
    Ok((h0, calls))
}

// ------------------------------------------------------------------------------------------
// random trees
// ------------------------------------------------------------------------------------------
fn leaf(s: i64, fl: &str) -> Node {
    Node { k: "src".into(), f: fl.into(), n: s, c: vec![] }
}
fn un(k: &str, f: &str, n: i64, c: Node) -> Node {
    Node { k: k.into(), f: f.into(), n, c: vec![c] }
}
fn bin(k: &str, a: Node, b: Node) -> Node {
    Node { k: k.into(), f: "".into(), n: 0, c: vec![a, b] }
}

const UNARY: &[(&str, &[&str])] = &[
    ("map", &["inc"]),
    ("filter", &["even", "nz"]),
    ("filter_map", &["fm"]),
    ("inspect", &[""]),
    ("enumerate", &[""]),
    ("skip", &[""]),
    ("skip_while", &["even", "lt2"]),
    ("take", &[""]),
    ("take_while", &["even", "lt2"]),
    ("fuse", &[""]),
    ("flat_map", &["dup", "rep"]),
    ("flatten", &["dup", "rep"]),
    ("flat_map_stream", &["sdup"]),
    ("flatten_stream", &["sdup"]),
    ("filter_map_async", &["afm", "afn"]),
    ("compat", &[""]),
];
const BINARY: &[&str] = &["chain", "zip", "zip_longest", "cross_singleton"];
const FUTURES: &[&str] = &["collect", "for_each", "send_push", "send_sink", "next", "fold", "fold_from", "reduce"];

struct Gen {
    rng: Rng,
    nsrc: i64,
    scripts: Vec<Vec<V>>,
    max_items: u64,
    max_pend: u64,
}
impl Gen {
    fn script(&mut self, allow_pend: bool, allow_nonfused: bool) -> Vec<V> {
        let items = self.rng.below(self.max_items + 1);
        let pends = if allow_pend { self.rng.below(self.max_pend + 1) } else { 0 };
        let mut s: Vec<V> = Vec::new();
        let (mut i, mut p) = (items, pends);
        while i + p > 0 {
            if self.rng.below(i + p) < i {
                s.push(vec![self.rng.below(6) as i64]);
                i -= 1;
            } else {
                s.push(vec![-1]);
                p -= 1;
            }
        }
        if allow_nonfused && !s.is_empty() && self.rng.chance(1, 8) {
            let at = self.rng.below(s.len() as u64) as usize;
            s.insert(at, vec![-2]);
        }
        s
    }
    /// Returns a tree; `need_fused`: the caller needs a FusedPull (chain first / zip_longest).
    fn tree(&mut self, depth: u32, need_fused: bool) -> Node {
        let r = self.rng.below(10);
        let nd = if depth == 0 || r < 2 {
            let fl = match self.rng.below(12) {
                0 => "stream",
                1 => "poll_fn",
                2 => "iter",
                3 => "from_fn",
                4 => "once",
                5 => "empty",
                _ => "src",
            };
            let sc = match fl {
                "once" => vec![vec![self.rng.below(6) as i64]],
                "empty" => vec![],
                _ => self.script(fl != "iter" && fl != "from_fn", fl == "src" && !need_fused),
            };
            self.nsrc += 1;
            self.scripts.push(sc);
            leaf(self.nsrc, fl)
        } else if r < 7 {
            let (k, fs) = UNARY[self.rng.below(UNARY.len() as u64) as usize];
            let f = fs[self.rng.below(fs.len() as u64) as usize];
            let n = if k == "skip" || k == "take" { self.rng.below(5) as i64 } else { 0 };
            let c = self.tree(depth - 1, false);
            un(k, f, n, c)
        } else {
            let k = BINARY[self.rng.below(BINARY.len() as u64) as usize];
            let a = self.tree(depth - 1, k == "chain" || k == "zip_longest");
            let b = self.tree(depth - 1, k == "zip_longest");
            bin(k, a, b)
        };
        if need_fused && !hv_pull::fused_of(&nd, &self.scripts) { un("fuse", "", 0, nd) } else { nd }
    }
}

fn main() {
    let args: Vec<String> = std::env::args().collect();
    let mut drift: Vec<Value> = Vec::new();
    let mut ndrift = 0usize;
    let mut cases = 0usize;
    match args.get(1).map(|s| s.as_str()) {
        Some("replay") => {
            let input = hv_common::read_ndjson(&args[2]);
            let mut tr = Trace::create(&args[3]);
            for (i, c) in input.iter().enumerate() {
                let tree: Node = serde_json::from_value(c["tree"].clone()).expect("tree");
                let scripts: Vec<Vec<V>> = serde_json::from_value(c["scripts"].clone()).expect("scripts");
                let hm = c["hm"].as_u64().unwrap_or(0) as u8;
                let (h0, got) = match run_case(i + 1, &tree, &scripts, hm, &mut tr) {
                    Ok(x) => x,
                    Err(e) => {
                        eprintln!("case {}: cannot build: {}", i + 1, e);
                        std::process::exit(3);
                    }
                };
                cases += 1;
                let want: Vec<Value> = c["calls"].as_array().cloned().unwrap_or_default();
                if got != want || h0 != c["h0"] {
                    ndrift += 1;
                    if drift.len() < 20 {
                        drift.push(json!({"case":i+1,"tree":tree,"scripts":scripts,"hm":hm,
                                          "model_h0":c["h0"],"impl_h0":h0,"model":want,"impl":got}));
                    }
                }
            }
            tr.ev(json!({"e":"eof"}));
            let events = tr.lines;
            tr.finish();
            println!("{}", json!({"cases":cases,"events":events,"ndrift":ndrift,"drift":drift}));
        }
        Some("random") => {
            let count: usize = args[2].parse().unwrap();
            let max_items: u64 = args[3].parse().unwrap();
            let max_pend: u64 = args[4].parse().unwrap();
            let mut tr = Trace::create(&args[5]);
            let mut rng = Rng::new(hv_common::seed());
            let mut i = 0;
            while i < count {
                let mut g = Gen { rng: rng.clone(), nsrc: 0, scripts: vec![], max_items, max_pend };
                let depth = 1 + g.rng.below(3) as u32;
                let mut tree = g.tree(depth, false);
                if g.rng.chance(1, 6) {
                    let k = FUTURES[g.rng.below(FUTURES.len() as u64) as usize];
                    tree = un(k, "", 0, tree);
                }
                let hm = g.rng.below(3) as u8;
                rng = g.rng.clone();
                rng.next();
                match run_case(i + 1, &tree, &g.scripts, hm, &mut tr) {
                    Ok(_) => {
                        cases += 1;
                        i += 1;
                    }
                    Err(e) => {
                        eprintln!("random tree rejected by the builder: {e}: {:?}", tree);
                        std::process::exit(3);
                    }
                }
            }
            tr.ev(json!({"e":"eof"}));
            let events = tr.lines;
            tr.finish();
            println!("{}", json!({"cases":cases,"events":events,"ndrift":0,"drift":drift}));
        }
        _ => {
            eprintln!("usage: pull_pipe replay|random ...");
            std::process::exit(2);
        }
    }
}
