//! C11 / C13 harness support: scripted `Pull` / `Stream` / `Future` doubles, the closure
//! vocabulary shared with spec/PullPipe/PullPipe.tla, and a runtime builder that assembles the
//! REAL dfir_pipes combinators into the tree described by a case.
//!
//! Values are flat `Vec<i64>` (see PullPipe.tla): item `[x]`, Pending `[-1]`, Ended `[-2]`.
//! Between two levels of a tree the combinator is boxed behind `BoxPull` (a trusted adapter that
//! only forwards `pull`/`size_hint`), so arbitrary trees can be built at run time while every
//! node is the real, statically typed combinator over its boxed upstream(s).
use std::cell::RefCell;
use std::collections::VecDeque;
use std::future::Future;
use std::pin::Pin;
use std::rc::Rc;
use std::task::{Context, Poll};

use dfir_pipes::pull::{self, FusedPull, Pull, PullStep};
use dfir_pipes::{EitherOrBoth, Yes};
use serde::{Deserialize, Serialize};

pub type V = Vec<i64>;
/// Poll log shared by all doubles of a case: (source id, answer).
/// id >= 1 scripted upstream, 0 inner stream made by a closure, -j the j-th future made by a
/// closure in the current case.
pub type Log = Rc<RefCell<Vec<(i64, V)>>>;

pub fn pend() -> V {
    vec![-1]
}
pub fn endv() -> V {
    vec![-2]
}
pub fn is_item(v: &V) -> bool {
    v[0] >= 0
}

// ------------------------------------------------------------------------------------------
// closure vocabulary (identical to PullPipe.tla)
// ------------------------------------------------------------------------------------------
pub fn add10(mut v: V) -> V {
    v[0] += 10;
    v
}
pub fn fn_apply(f: &str, mut v: V) -> V {
    match f {
        "inc" => {
            v[0] += 1;
            v
        }
        _ => panic!("unknown fn {f}"),
    }
}
pub fn pred(f: &str, v: &V) -> bool {
    match f {
        "even" => v[0] % 2 == 0,
        "lt2" => v[0] < 2,
        "nz" => v[0] != 0,
        _ => panic!("unknown pred {f}"),
    }
}
pub fn opt(f: &str, v: V) -> Option<V> {
    match f {
        "fm" => {
            if v[0] % 3 == 1 {
                None
            } else {
                Some(add10(v))
            }
        }
        _ => panic!("unknown opt {f}"),
    }
}
pub fn iter_of(f: &str, v: V) -> Vec<V> {
    match f {
        "dup" => vec![v.clone(), add10(v)],
        "rep" => {
            let k = (v[0] % 3) as usize;
            vec![v; k]
        }
        _ => panic!("unknown iter {f}"),
    }
}
pub fn stream_of(f: &str, v: V) -> Vec<V> {
    match f {
        "sdup" => match v[0] % 3 {
            0 => vec![pend(), v.clone(), add10(v)],
            1 => vec![v.clone(), pend(), add10(v)],
            _ => vec![],
        },
        _ => panic!("unknown stream {f}"),
    }
}
pub fn fut_of(f: &str, v: V) -> (usize, Option<V>) {
    match f {
        "afm" => match v[0] % 3 {
            0 => (1, Some(add10(v))),
            1 => (0, None),
            _ => (2, Some(add10(v))),
        },
        "afn" => match v[0] % 3 {
            0 => (0, Some(v)),
            1 => (1, None),
            _ => (1, Some(v)),
        },
        _ => panic!("unknown fut {f}"),
    }
}

// ------------------------------------------------------------------------------------------
// scripted doubles
// ------------------------------------------------------------------------------------------
fn hint_of(script: &VecDeque<V>, ended_once: bool, hm: u8) -> (usize, Option<usize>) {
    if ended_once {
        return (0, Some(0));
    }
    let c = script.iter().take_while(|e| e[0] != -2).filter(|e| is_item(e)).count();
    match hm {
        0 => (c, Some(c)),
        1 => (c.saturating_sub(1), Some(c + 1)),
        _ => (0, None),
    }
}

/// Common script stepping: pops the next entry, logs it, returns it (`[-2]` when exhausted).
struct Script {
    id: i64,
    script: VecDeque<V>,
    hm: u8,
    log: Log,
    ended_once: bool,
}
impl Script {
    fn new(id: i64, script: &[V], hm: u8, log: &Log) -> Self {
        Script { id, script: script.iter().cloned().collect(), hm, log: log.clone(), ended_once: false }
    }
    fn step(&mut self) -> V {
        let a = self.script.pop_front().unwrap_or_else(endv);
        if a[0] == -2 {
            self.ended_once = true;
        }
        self.log.borrow_mut().push((self.id, a.clone()));
        a
    }
    fn hint(&self) -> (usize, Option<usize>) {
        hint_of(&self.script, self.ended_once, self.hm)
    }
}

/// Scripted `Pull`. `FUSED = true` (script without `[-2]` entries) implements `FusedPull`.
pub struct Src<const FUSED: bool>(Script);
impl<const FUSED: bool> Src<FUSED> {
    pub fn new(id: i64, script: &[V], hm: u8, log: &Log) -> Self {
        Src(Script::new(id, script, hm, log))
    }
}
impl<const FUSED: bool> Pull for Src<FUSED> {
    type Ctx<'ctx> = Context<'ctx>;
    type Item = V;
    type Meta = ();
    type CanPend = Yes;
    type CanEnd = Yes;
    fn pull(self: Pin<&mut Self>, ctx: &mut Self::Ctx<'_>) -> PullStep<V, (), Yes, Yes> {
        let a = self.get_mut().0.step();
        match a[0] {
            -1 => {
                ctx.waker().wake_by_ref();
                PullStep::Pending(Yes)
            }
            -2 => PullStep::Ended(Yes),
            _ => PullStep::Ready(a, ()),
        }
    }
    fn size_hint(&self) -> (usize, Option<usize>) {
        self.0.hint()
    }
}
impl FusedPull for Src<true> {}

/// Scripted `futures::Stream` (+ `FusedStream`), used under `pull::stream`, and as the inner
/// stream made by the `sdup` closure (id 0).
pub struct SStream(Script);
impl SStream {
    pub fn new(id: i64, script: &[V], hm: u8, log: &Log) -> Self {
        SStream(Script::new(id, script, hm, log))
    }
}
impl futures::Stream for SStream {
    type Item = V;
    fn poll_next(self: Pin<&mut Self>, cx: &mut Context<'_>) -> Poll<Option<V>> {
        let a = self.get_mut().0.step();
        match a[0] {
            -1 => {
                cx.waker().wake_by_ref();
                Poll::Pending
            }
            -2 => Poll::Ready(None),
            _ => Poll::Ready(Some(a)),
        }
    }
    fn size_hint(&self) -> (usize, Option<usize>) {
        self.0.hint()
    }
}
impl futures::stream::FusedStream for SStream {
    fn is_terminated(&self) -> bool {
        self.0.ended_once
    }
}

/// Scripted iterator (no Pending entries), used under `pull::iter`.
pub struct SIter(Script);
impl Iterator for SIter {
    type Item = V;
    fn next(&mut self) -> Option<V> {
        let a = self.0.step();
        match a[0] {
            -1 => panic!("harness: iter flavour cannot pend"),
            -2 => None,
            _ => Some(a),
        }
    }
    fn size_hint(&self) -> (usize, Option<usize>) {
        self.0.hint()
    }
}
impl std::iter::FusedIterator for SIter {}

// Scripted future made by the `afm` / `afn` closures (id -j): `pends` Pending answers, then `out`.
thread_local! {
    /// futures made by closures so far in the current case (reset by `build_root`)
    static FUTURES_MADE: std::cell::Cell<i64> = const { std::cell::Cell::new(0) };
}

pub struct SFut {
    id: i64,
    pends: usize,
    out: Option<Option<V>>,
    log: Log,
}
impl Future for SFut {
    type Output = Option<V>;
    fn poll(self: Pin<&mut Self>, cx: &mut Context<'_>) -> Poll<Option<V>> {
        let me = self.get_mut();
        if me.pends > 0 {
            me.pends -= 1;
            me.log.borrow_mut().push((-me.id, pend()));
            cx.waker().wake_by_ref();
            return Poll::Pending;
        }
        let o = me.out.take().expect("harness: future polled after completion");
        me.log.borrow_mut().push((-me.id, o.clone().unwrap_or_else(|| vec![-3])));
        Poll::Ready(o)
    }
}

// ------------------------------------------------------------------------------------------
// boxing between levels
// ------------------------------------------------------------------------------------------
pub enum Step {
    Ready(V),
    Pending,
    Ended,
}

pub trait DynPull {
    fn pull_dyn(self: Pin<&mut Self>, cx: &mut Context<'_>) -> Step;
    fn hint_dyn(&self) -> (usize, Option<usize>);
}
impl<P> DynPull for P
where
    P: Pull<Item = V>,
{
    fn pull_dyn(self: Pin<&mut Self>, cx: &mut Context<'_>) -> Step {
        fn go<'c, P: Pull<Item = V>>(p: Pin<&mut P>, cx: &mut Context<'c>) -> Step {
            let ctx = <P::Ctx<'c> as dfir_pipes::Context<'c>>::from_task(cx);
            match p.pull(ctx) {
                PullStep::Ready(v, _) => Step::Ready(v),
                PullStep::Pending(_) => Step::Pending,
                PullStep::Ended(_) => Step::Ended,
            }
        }
        go(self, cx)
    }
    fn hint_dyn(&self) -> (usize, Option<usize>) {
        self.size_hint()
    }
}

/// Type-erased pull. `FUSED` records (at the type level) whether the erased type is a
/// `FusedPull`; `BoxPull<true>` can only be made from a `FusedPull` (see `bxf`).
pub struct BoxPull<const FUSED: bool>(Pin<Box<dyn DynPull>>);
impl<const FUSED: bool> Pull for BoxPull<FUSED> {
    type Ctx<'ctx> = Context<'ctx>;
    type Item = V;
    type Meta = ();
    type CanPend = Yes;
    type CanEnd = Yes;
    fn pull(self: Pin<&mut Self>, ctx: &mut Self::Ctx<'_>) -> PullStep<V, (), Yes, Yes> {
        match self.get_mut().0.as_mut().pull_dyn(ctx) {
            Step::Ready(v) => PullStep::Ready(v, ()),
            Step::Pending => PullStep::Pending(Yes),
            Step::Ended => PullStep::Ended(Yes),
        }
    }
    fn size_hint(&self) -> (usize, Option<usize>) {
        self.0.hint_dyn()
    }
}
impl FusedPull for BoxPull<true> {}

pub fn bx<P: Pull<Item = V> + 'static>(p: P) -> BoxPull<false> {
    BoxPull(Box::pin(p))
}
/// Compiles only if the real type implements `FusedPull`.
pub fn bxf<P: FusedPull<Item = V> + 'static>(p: P) -> BoxPull<true> {
    BoxPull(Box::pin(p))
}
fn weaken(p: BoxPull<true>) -> BoxPull<false> {
    BoxPull(p.0)
}

pub enum Any {
    F(BoxPull<true>),
    N(BoxPull<false>),
}
impl Any {
    pub fn is_fused(&self) -> bool {
        matches!(self, Any::F(_))
    }
    pub fn weak(self) -> BoxPull<false> {
        match self {
            Any::F(p) => weaken(p),
            Any::N(p) => p,
        }
    }
}

// ------------------------------------------------------------------------------------------
// trees
// ------------------------------------------------------------------------------------------
#[derive(Clone, Debug, Serialize, Deserialize, PartialEq)]
pub struct Node {
    pub k: String,
    pub f: String,
    pub n: i64,
    pub c: Vec<Node>,
}

pub fn is_future(k: &str) -> bool {
    matches!(k, "collect" | "for_each" | "send_push" | "send_sink" | "next" | "fold" | "fold_from" | "reduce")
}

fn cat(mut a: V, b: V) -> V {
    a.extend(b);
    a
}

macro_rules! un {
    ($ch:expr, |$c:ident| $e:expr) => {
        match $ch {
            Any::F($c) => Any::F(bxf($e)),
            Any::N($c) => Any::N(bx($e)),
        }
    };
}

/// Builds the real combinators for `nd`. Errors describe trees that do not type-check
/// (chain / zip_longest over a non-fused input) or are outside the vocabulary.
pub fn build(nd: &Node, scripts: &[Vec<V>], hm: u8, log: &Log) -> Result<Any, String> {
    let f = nd.f.clone();
    let n = nd.n;
    let k = nd.k.as_str();
    if k == "src" {
        let s = scripts.get((n - 1) as usize).ok_or("source index out of range")?;
        let nonfused = s.iter().any(|e| e[0] == -2);
        return match f.as_str() {
            "src" if nonfused => Ok(Any::N(bx(Src::<false>::new(n, s, hm, log)))),
            "src" => Ok(Any::F(bxf(Src::<true>::new(n, s, hm, log)))),
            _ if nonfused => Err("non-fused script needs flavour src".into()),
            "stream" => Ok(Any::F(bxf(pull::stream(SStream::new(n, s, hm, log))))),
            "iter" => {
                if s.iter().any(|e| e[0] == -1) {
                    return Err("iter flavour cannot pend".into());
                }
                Ok(Any::F(bxf(pull::iter(SIter(Script::new(n, s, hm, log))))))
            }
            "once" => {
                if s.len() != 1 || !is_item(&s[0]) {
                    return Err("once flavour needs a one-item script".into());
                }
                Ok(Any::F(bxf(pull::once(s[0].clone()))))
            }
            "empty" => {
                if !s.is_empty() {
                    return Err("empty flavour needs an empty script".into());
                }
                Ok(Any::F(bxf(pull::empty::<V>())))
            }
            "from_fn" => {
                if s.iter().any(|e| e[0] == -1) {
                    return Err("from_fn flavour cannot pend".into());
                }
                let mut sc = Script::new(n, s, hm, log);
                Ok(Any::N(bx(pull::from_fn(move || -> PullStep<V, (), dfir_pipes::No, Yes> {
                    let a = sc.step();
                    match a[0] {
                        -2 => PullStep::Ended(Yes),
                        _ => PullStep::Ready(a, ()),
                    }
                }))))
            }
            "poll_fn" => {
                let mut sc = Script::new(n, s, hm, log);
                Ok(Any::N(bx(pull::poll_fn(move |cx: &mut Context<'_>| -> PullStep<V, (), Yes, Yes> {
                    let a = sc.step();
                    match a[0] {
                        -1 => {
                            cx.waker().wake_by_ref();
                            PullStep::Pending(Yes)
                        }
                        -2 => PullStep::Ended(Yes),
                        _ => PullStep::Ready(a, ()),
                    }
                }))))
            }
            other => Err(format!("unknown leaf flavour {other}")),
        };
    }
    let mut kids = Vec::new();
    for c in &nd.c {
        kids.push(build(c, scripts, hm, log)?);
    }
    let arity = if matches!(k, "chain" | "zip" | "zip_longest" | "cross_singleton") { 2 } else { 1 };
    if kids.len() != arity {
        return Err(format!("{k}: expected {arity} children"));
    }
    if arity == 2 {
        let b = kids.pop().unwrap();
        let a = kids.pop().unwrap();
        return match k {
            "chain" => match (a, b) {
                (Any::F(a), Any::F(b)) => Ok(Any::F(bxf(a.chain(b)))),
                (Any::F(a), Any::N(b)) => Ok(Any::N(bx(a.chain(b)))),
                _ => Err("chain: first input must be fused".into()),
            },
            "zip" => Ok(Any::N(bx(a.weak().zip(b.weak()).map(|(x, y)| cat(x, y))))),
            "zip_longest" => match (a, b) {
                (Any::F(a), Any::F(b)) => Ok(Any::F(bxf(a.zip_longest(b).map(|e| match e {
                    EitherOrBoth::Left(x) => cat(vec![0], x),
                    EitherOrBoth::Right(y) => cat(vec![1], y),
                    EitherOrBoth::Both(x, y) => cat(cat(vec![2], x), y),
                })))),
                _ => Err("zip_longest: both inputs must be fused".into()),
            },
            "cross_singleton" => match (a, b) {
                (Any::F(a), Any::F(b)) => Ok(Any::F(bxf(a.cross_singleton(b).map(|(x, y)| cat(x, y))))),
                (a, b) => Ok(Any::N(bx(a.weak().cross_singleton(b.weak()).map(|(x, y)| cat(x, y))))),
            },
            _ => unreachable!(),
        };
    }
    let ch = kids.pop().unwrap();
    let lg = log.clone();
    Ok(match k {
        "map" => un!(ch, |c| c.map(move |v| fn_apply(&f, v))),
        "filter" => un!(ch, |c| c.filter(move |v: &V| pred(&f, v))),
        "filter_map" => un!(ch, |c| c.filter_map(move |v| opt(&f, v))),
        "inspect" => un!(ch, |c| c.inspect(|_v: &V| {})),
        "enumerate" => un!(ch, |c| c.enumerate().map(|(i, v): (usize, V)| cat(vec![i as i64], v))),
        "skip" => un!(ch, |c| c.skip(n as usize)),
        "skip_while" => un!(ch, |c| c.skip_while(move |v: &V| pred(&f, v))),
        "take" => match ch {
            Any::F(c) => Any::F(bxf(c.take(n as usize))),
            Any::N(c) => Any::F(bxf(c.take(n as usize))),
        },
        "take_while" => Any::N(bx(ch.weak().take_while(move |v: &V| pred(&f, v)))),
        "fuse" => match ch {
            Any::F(c) => Any::F(bxf(c.fuse())),
            Any::N(c) => Any::F(bxf(c.fuse())),
        },
        "flat_map" => un!(ch, |c| c.flat_map(move |v| iter_of(&f, v))),
        "flatten" => un!(ch, |c| c.map(move |v| iter_of(&f, v)).flatten()),
        "flat_map_stream" => {
            un!(ch, |c| c.flat_map_stream(move |v| SStream::new(0, &stream_of(&f, v), 0, &lg)))
        }
        "flatten_stream" => {
            un!(ch, |c| c.map(move |v| SStream::new(0, &stream_of(&f, v), 0, &lg)).flatten_stream())
        }
        "filter_map_async" => un!(ch, |c| c.filter_map_async(move |v| {
            let (pends, out) = fut_of(&f, v);
            let id = FUTURES_MADE.with(|c| {
                c.set(c.get() + 1);
                c.get()
            });
            SFut { id, pends, out: Some(out), log: lg.clone() }
        })),
        "compat" => Any::N(bx(pull::stream(pull::stream_compat(ch.weak())))),
        other => return Err(format!("unknown kind {other}")),
    })
}

/// FusedN of PullPipe.tla, mirrored; `build` must agree (checked by the driver).
pub fn fused_of(nd: &Node, scripts: &[Vec<V>]) -> bool {
    match nd.k.as_str() {
        "src" => nd.f != "poll_fn" && nd.f != "from_fn" && !scripts[(nd.n - 1) as usize].iter().any(|e| e[0] == -2),
        "map" | "filter" | "filter_map" | "filter_map_async" | "inspect" | "enumerate" | "skip" | "skip_while"
        | "flat_map" | "flatten" | "flat_map_stream" | "flatten_stream" => fused_of(&nd.c[0], scripts),
        "take" | "fuse" | "zip_longest" => true,
        "chain" => fused_of(&nd.c[1], scripts),
        "cross_singleton" => fused_of(&nd.c[0], scripts) && fused_of(&nd.c[1], scripts),
        _ => false,
    }
}

// ------------------------------------------------------------------------------------------
// consuming futures (root only)
// ------------------------------------------------------------------------------------------
struct RecPush(Rc<RefCell<Vec<V>>>);
impl dfir_pipes::push::Push<V, ()> for RecPush {
    type Ctx<'ctx> = ();
    type CanPend = dfir_pipes::No;
    fn poll_ready(self: Pin<&mut Self>, _ctx: &mut ()) -> dfir_pipes::push::PushStep<dfir_pipes::No> {
        dfir_pipes::push::PushStep::Done
    }
    fn start_send(self: Pin<&mut Self>, item: V, _meta: ()) {
        self.0.borrow_mut().push(item);
    }
    fn poll_finalize(self: Pin<&mut Self>, _ctx: &mut ()) -> dfir_pipes::push::PushStep<dfir_pipes::No> {
        dfir_pipes::push::PushStep::Done
    }
    fn size_hint(self: Pin<&mut Self>, _hint: (usize, Option<usize>)) {}
}

struct RecSink(Rc<RefCell<Vec<V>>>);
impl futures::Sink<V> for RecSink {
    type Error = std::convert::Infallible;
    fn poll_ready(self: Pin<&mut Self>, _cx: &mut Context<'_>) -> Poll<Result<(), Self::Error>> {
        Poll::Ready(Ok(()))
    }
    fn start_send(self: Pin<&mut Self>, item: V) -> Result<(), Self::Error> {
        self.0.borrow_mut().push(item);
        Ok(())
    }
    fn poll_flush(self: Pin<&mut Self>, _cx: &mut Context<'_>) -> Poll<Result<(), Self::Error>> {
        Poll::Ready(Ok(()))
    }
    fn poll_close(self: Pin<&mut Self>, _cx: &mut Context<'_>) -> Poll<Result<(), Self::Error>> {
        Poll::Ready(Ok(()))
    }
}

pub enum Root {
    /// a pull, and whether its real type is a FusedPull
    Pull(BoxPull<false>, bool),
    /// a consuming future; items it hands over appear in the shared vector
    Fut(Pin<Box<dyn Future<Output = ()>>>, Rc<RefCell<Vec<V>>>),
}

pub fn build_root(nd: &Node, scripts: &[Vec<V>], hm: u8, log: &Log) -> Result<Root, String> {
    FUTURES_MADE.with(|c| c.set(0));
    if !is_future(&nd.k) {
        let a = build(nd, scripts, hm, log)?;
        let fused = a.is_fused();
        if fused != fused_of(nd, scripts) {
            return Err(format!("harness/spec disagree on FusedPull for {:?}", nd));
        }
        return Ok(Root::Pull(a.weak(), fused));
    }
    if nd.c.len() != 1 {
        return Err("future: expected 1 child".into());
    }
    let c = build(&nd.c[0], scripts, hm, log)?.weak();
    let got: Rc<RefCell<Vec<V>>> = Rc::new(RefCell::new(Vec::new()));
    let g = got.clone();
    let fut: Pin<Box<dyn Future<Output = ()>>> = match nd.k.as_str() {
        "collect" => Box::pin(async move {
            let all: Vec<V> = c.collect::<Vec<V>>().await;
            g.borrow_mut().extend(all);
        }),
        "for_each" => Box::pin(c.for_each(move |v| g.borrow_mut().push(v))),
        "send_push" => Box::pin(c.send_push(RecPush(g))),
        "send_sink" => Box::pin(async move {
            c.send_sink(RecSink(g)).await.unwrap();
        }),
        "next" => Box::pin(async move {
            if let Some((v, ())) = c.next().await {
                g.borrow_mut().push(v);
            }
        }),
        kind @ ("fold" | "fold_from" | "reduce") => {
            // accumulate_all over (key, value) = (x % 2, x); see AccOut in PullPipe.tla
            let kind = kind.to_string();
            Box::pin(async move {
                let step = |a: &mut i64, x: i64| *a = (*a * 3 + x) % 10007;
                let mut map: std::collections::HashMap<i64, i64> = std::collections::HashMap::new();
                let kv = c.map(|v: V| (v[0] % 2, v[0]));
                match kind.as_str() {
                    "fold" => {
                        let mut acc = pull::Fold::new(|| 7i64, step);
                        pull::accumulate_all(&mut acc, &mut map, kv).await
                    }
                    "fold_from" => {
                        let mut acc = pull::FoldFrom::new(|x: i64| x + 1000, step);
                        pull::accumulate_all(&mut acc, &mut map, kv).await
                    }
                    _ => {
                        let mut acc = pull::Reduce::new(step);
                        pull::accumulate_all(&mut acc, &mut map, kv).await
                    }
                }
                let mut out: Vec<V> = map.into_iter().map(|(k, a)| vec![k, a]).collect();
                out.sort();
                g.borrow_mut().extend(out);
            })
        }
        _ => unreachable!(),
    };
    Ok(Root::Fut(fut, got))
}
