//! C14 harness: drives the REAL sinktools Sink adaptors, built into the catalogue shapes of
//! spec/SinkPipe/SinkPipeImpl.tla, over scripted checking Sink doubles; logs one event per call.
//!
//!   sink_pipe replay <cases.ndjson> <trace_out.ndjson>
//!       cases: {"shape","pipe","raw","src","rs","xs","cs","plan","evs"}
//!   sink_pipe random <count> <max_in> <max_script> <trace_out.ndjson> [shape,...]
//!   sink_pipe shapes
use std::collections::HashMap;
use std::convert::Infallible;
use std::pin::pin;
use std::task::{Context, Poll};

use futures::Stream;
use hv_push::*;
use sinktools::lazy::LazySink;
use sinktools::lazy_sink_source::LazySinkSource;
use variadics::var_expr;

fn n(k: &str, c: &[i64], p: &[i64]) -> Value {
    json!({"k":k,"c":c,"p":p})
}
fn l(d: i64) -> Value {
    n("leaf", &[], &[d, 1])
}
fn t(d: i64) -> Value {
    n("leaf", &[], &[d, 0])
}
fn one(k: &str, p: &[i64]) -> Value {
    json!([n(k, &[2], p), l(1)])
}
fn two(k: &str, p: &[i64]) -> Value {
    json!([n(k, &[2, 3], p), l(1), l(2)])
}

const SRC_ITEMS: [i64; 3] = [71, -1, 72];

/// Must equal `Cat` in spec/SinkPipe/SinkPipeImpl.tla (checked on replay).
fn catalogue() -> Vec<(&'static str, Value)> {
    vec![
        ("map", one("map", &[10])),
        ("filter", one("filter", &[])),
        ("filter_map", one("filter_map", &[])),
        ("inspect", one("inspect", &[])),
        ("flat_map", one("flat_map", &[])),
        ("flatten", one("flatten", &[])),
        ("unzip", two("unzip", &[])),
        ("for_each", json!([n("for_each", &[2], &[]), t(1)])),
        ("try_for_each", json!([n("try_for_each", &[2], &[]), t(1)])),
        ("send_iter", one("send_iter", &[])),
        ("send_stream", one("send_stream", &[])),
        ("demux_map", two("demux_map", &[])),
        ("demux_map_lazy", two("demux_map_lazy", &[])),
        ("demux_var", json!([n("demux_var", &[2, 3, 4], &[]), l(1), l(2), l(3)])),
        ("lazy0", one("lazy", &[0])),
        ("lazy2", one("lazy", &[2])),
        ("lss0", one("lazy_sink_source", &[0])),
        ("lss2", one("lazy_sink_source", &[2])),
        ("map_flat_map", json!([n("map", &[2], &[10]), n("flat_map", &[3], &[]), l(1)])),
        ("flat_map_unzip", json!([n("flat_map_pairs", &[2], &[]), n("unzip", &[3, 4], &[]), l(1), l(2)])),
        ("lazy_flat_map", json!([n("lazy", &[2], &[1]), n("flat_map", &[3], &[]), l(1)])),
        ("send_iter_filter", json!([n("send_iter", &[2], &[]), n("filter", &[3], &[]), l(1)])),
        ("demux_lazy_sinks", json!([n("demux_var", &[2, 3], &[]), n("lazy", &[4], &[1]), n("map", &[5], &[10]), l(1), l(2)])),
    ]
}
fn pipe_of(shape: &str) -> Option<Value> {
    catalogue().into_iter().find(|(s, _)| *s == shape).map(|(_, p)| p)
}
fn leaves_of(pipe: &Value) -> usize {
    pipe.as_array().unwrap().iter().filter(|nd| nd["k"] == "leaf").count()
}

#[derive(Clone)]
struct SCase {
    shape: String,
    raw: Vec<i64>,
    rs: Vec<Vec<u8>>,
    xs: Vec<Vec<u8>>,
    cs: Vec<Vec<u8>>,
    plan: Vec<String>,
}
impl SCase {
    fn inputs(&self) -> Vec<i64> {
        self.raw.iter().copied().filter(|x| *x >= 0).collect()
    }
    fn leaf<T>(&self, d: usize, enc: fn(&T) -> i64) -> SinkLeaf<T> {
        SinkLeaf::as_sink(d as i64, &self.rs[d - 1], &self.xs[d - 1], &self.cs[d - 1], enc)
    }
}

fn id(x: i64) -> i64 {
    x
}
fn pair(x: i64) -> (i64, i64) {
    (fst(x), snd(x))
}
fn idx(x: i64) -> (usize, i64) {
    (fst(x) as usize, snd(x))
}
fn flat_pairs_f(x: i64) -> Vec<(i64, i64)> {
    (0..(x % 3)).map(|j| (x + 10 * j, j + 1)).collect()
}

fn budget(c: &SCase) -> usize {
    let pend: usize = c.rs.iter().chain(c.xs.iter()).chain(c.cs.iter()).map(|s| s.len()).sum();
    4 * c.plan.len() + 2 * pend + 14 * (c.rs.len() + 1) + 40
}

type LazyFut<T> = Countdown<Result<SinkLeaf<T>, Infallible>>;

fn run_case(c: &SCase) -> Run {
    reset_case();
    let ins = c.inputs();
    let plan = &c.plan;
    let drv = Driver::new(budget(c));
    match c.shape.as_str() {
        "map" => drive_plan(pin!(sinktools::map(|x: i64| map_f(10, x), c.leaf(1, enc_i))), plan, &ins, id, None, drv),
        "filter" => drive_plan(pin!(sinktools::filter(filter_p, c.leaf(1, enc_i))), plan, &ins, id, None, drv),
        "filter_map" => drive_plan(pin!(sinktools::filter_map(filter_map_f, c.leaf(1, enc_i))), plan, &ins, id, None, drv),
        "inspect" => drive_plan(pin!(sinktools::inspect(|_x: &i64| {}, c.leaf(1, enc_i))), plan, &ins, id, None, drv),
        "flat_map" => drive_plan(pin!(sinktools::flat_map(flat_f, c.leaf(1, enc_i))), plan, &ins, id, None, drv),
        "flatten" => drive_plan(pin!(sinktools::flatten::<Vec<i64>, _>(c.leaf(1, enc_i))), plan, &ins, flat_f, None, drv),
        "unzip" => drive_plan(pin!(sinktools::unzip(c.leaf(1, enc_i), c.leaf(2, enc_i))), plan, &ins, pair, None, drv),
        "for_each" => drive_plan(pin!(sinktools::for_each(|x: i64| log(1, "s", x))), plan, &ins, id, None, drv),
        "try_for_each" => drive_plan(
            pin!(sinktools::try_for_each(|x: i64| {
                log(1, "s", x);
                Ok::<(), Infallible>(())
            })),
            plan, &ins, id, None, drv,
        ),
        "send_iter" => drive_future_op(pin!(sinktools::send_iter(ins.clone(), c.leaf(1, enc_i))), "x", drv),
        "send_stream" => {
            let st = InnerStream::new(c.raw.iter().copied().collect());
            drive_future_op(pin!(sinktools::send_stream(st, c.leaf(1, enc_i))), "x", drv)
        }
        "demux_map" => {
            let sinks: HashMap<i64, SinkLeaf<i64>> = HashMap::from([(0, c.leaf(1, enc_i)), (1, c.leaf(2, enc_i))]);
            drive_plan(pin!(sinktools::demux_map(sinks)), plan, &ins, pair, None, drv)
        }
        "demux_map_lazy" => {
            let cc = c.clone();
            let s = sinktools::demux_map_lazy(move |k: &i64| {
                log(0, "i", *k + 2); // node id of the child created for this key
                cc.leaf::<i64>((*k + 1) as usize, enc_i)
            });
            drive_plan(pin!(s), plan, &ins, pair, None, drv)
        }
        "demux_var" => drive_plan(
            pin!(sinktools::demux_var::<_, i64, Infallible>(var_expr!(c.leaf(1, enc_i), c.leaf(2, enc_i), c.leaf(3, enc_i)))),
            plan, &ins, idx, None, drv,
        ),
        "lazy0" | "lazy2" => {
            let k = if c.shape == "lazy0" { 0 } else { 2 };
            let leaf = c.leaf(1, enc_i);
            let s = LazySink::new(move || {
                log(0, "i", 1);
                let f: LazyFut<i64> = Countdown::new(k, Ok(leaf), true);
                f
            });
            drive_plan(pin!(s), plan, &ins, id, None, drv)
        }
        "lazy_flat_map" => {
            let inner = sinktools::flat_map(flat_f, c.leaf(1, enc_i));
            let s = LazySink::new(move || {
                log(0, "i", 1);
                Countdown::new(1, Ok::<_, Infallible>(inner), true)
            });
            drive_plan(pin!(s), plan, &ins, id, None, drv)
        }
        "demux_lazy_sinks" => {
            let leaf1 = c.leaf(1, enc_i);
            let lazy = LazySink::new(move || {
                log(0, "i", 2);
                let f: LazyFut<i64> = Countdown::new(1, Ok(leaf1), true);
                f
            });
            let s = sinktools::demux_var::<_, i64, Infallible>(var_expr!(lazy, sinktools::map(|x: i64| map_f(10, x), c.leaf(2, enc_i))));
            drive_plan(pin!(s), plan, &ins, idx, None, drv)
        }
        "lss0" | "lss2" => {
            let k = if c.shape == "lss0" { 0 } else { 2 };
            let leaf = c.leaf(1, enc_i);
            let stream = InnerStream::new(SRC_ITEMS.iter().copied().collect());
            let fut = FirstPoll { inner: Countdown::new(k, Ok::<_, Infallible>((stream, leaf)), true), polled: false, node: 1 };
            let (sink, source) = LazySinkSource::<_, InnerStream, SinkLeaf<i64>, i64, Infallible>::new(fut).split();
            let mut source = Box::pin(source);
            let mut poll_src = move |cx: &mut Context<'_>| source.as_mut().poll_next(cx);
            drive_plan(pin!(sink), plan, &ins, id, Some(&mut poll_src), drv)
        }
        "map_flat_map" => drive_plan(
            pin!(sinktools::map(|x: i64| map_f(10, x), sinktools::flat_map(flat_f, c.leaf(1, enc_i)))),
            plan, &ins, id, None, drv,
        ),
        "flat_map_unzip" => drive_plan(
            pin!(sinktools::flat_map(flat_pairs_f, sinktools::unzip(c.leaf(1, enc_i), c.leaf(2, enc_i)))),
            plan, &ins, id, None, drv,
        ),
        "send_iter_filter" => drive_future_op(
            pin!(sinktools::send_iter(ins.clone(), sinktools::filter(filter_p, c.leaf(1, enc_i)))),
            "x", drv,
        ),
        other => {
            eprintln!("unknown shape {other}");
            std::process::exit(3);
        }
    }
}

/// Logs the start of the initialisation (first poll of the init future) of lazy node `node`.
struct FirstPoll<F> {
    inner: F,
    polled: bool,
    node: i64,
}
impl<F: Future + Unpin> Future for FirstPoll<F> {
    type Output = F::Output;
    fn poll(self: std::pin::Pin<&mut Self>, cx: &mut Context<'_>) -> Poll<F::Output> {
        let me = self.get_mut();
        if !me.polled {
            me.polled = true;
            log(0, "i", me.node);
        }
        std::pin::Pin::new(&mut me.inner).poll(cx)
    }
}

fn rand_item(shape: &str, rng: &mut Rng) -> i64 {
    let v = 1 + rng.below(9) as i64;
    match shape {
        "unzip" => (1 + rng.below(9) as i64) * 100 + v,
        "demux_var" => (rng.below(3) as i64) * 100 + v,
        "demux_map" | "demux_map_lazy" | "demux_lazy_sinks" => (rng.below(2) as i64) * 100 + v,
        "send_stream" => if rng.chance(1, 4) { -1 } else { v },
        _ => v,
    }
}

fn rand_plan(shape: &str, nin: usize, rng: &mut Rng) -> Vec<String> {
    if shape.starts_with("send_") {
        return vec!["x".into()];
    }
    let mut base: Vec<String> = Vec::new();
    for i in 0..=nin {
        if rng.chance(1, 4) {
            base.push("x".into());
        }
        let cycles = if i < nin { 1 + rng.below(2) } else { rng.below(2) };
        for _ in 0..cycles {
            base.push("r".into());
        }
        base.push(if i < nin { "s".into() } else { "f".into() });
    }
    if !shape.starts_with("lss") {
        return base;
    }
    let mut out = Vec::new();
    let mut budget = 3;
    for a in base {
        if budget > 0 && rng.chance(1, 4) {
            out.push("p".to_string());
            budget -= 1;
        }
        out.push(a);
    }
    out.push("P".into());
    out
}

fn write_case(tr: &mut Trace, case_id: usize, c: &SCase, pipe: &Value, run: &Run) {
    let src: Vec<i64> = if c.shape.starts_with("lss") { SRC_ITEMS.iter().copied().filter(|x| *x >= 0).collect() } else { vec![] };
    tr.ev(json!({"e":"reset","case":case_id,"shape":c.shape,"pipe":pipe,"inputs":c.inputs(),"raw":c.raw,"src":src,
                 "rs":c.rs,"xs":c.xs,"cs":c.cs,"plan":c.plan}));
    let mut cur: Vec<Value> = Vec::new();
    for e in &run.events {
        cur.push(e.arr());
        if e.d == -1 {
            tr.ev(json!({"e":"call","evs":cur}));
            cur = Vec::new();
        }
    }
    if !cur.is_empty() {
        tr.ev(json!({"e":"call","evs":cur}));
    }
    if run.outcome == "panic" || !run.msg.is_empty() {
        tr.ev(json!({"e":"note","outcome":run.outcome,"msg":run.msg}));
    }
}

/// Compared modulo inner-source events; for HashMap based demux also modulo the order in which
/// the sinks are polled inside one client call.
fn canon(evs: &[Value], hash_order: bool) -> Vec<Value> {
    let out: Vec<Value> = evs.iter().filter(|e| e[0] != 0).cloned().collect();
    if !hash_order {
        return out;
    }
    let mut res = Vec::new();
    let mut cur: Vec<Value> = Vec::new();
    for e in out {
        if e[0] == -1 {
            cur.sort_by_key(|x| x[0].as_i64().unwrap()); // stable: keeps per-sink order
            res.append(&mut cur);
            res.push(e);
        } else {
            cur.push(e);
        }
    }
    res.append(&mut cur);
    res
}

fn main() {
    let args: Vec<String> = std::env::args().collect();
    match args.get(1).map(|s| s.as_str()) {
        Some("shapes") => {
            let m: serde_json::Map<String, Value> = catalogue().into_iter().map(|(k, v)| (k.to_string(), v)).collect();
            println!("{}", Value::Object(m));
        }
        Some("replay") => {
            let input = hv_common::read_ndjson(&args[2]);
            let mut tr = Trace::create(&args[3]);
            let mut drift: Vec<Value> = Vec::new();
            let mut ndrift = 0usize;
            for (i, cj) in input.iter().enumerate() {
                let shape = cj["shape"].as_str().unwrap().to_string();
                let pipe = match pipe_of(&shape) {
                    Some(p) => p,
                    None => {
                        eprintln!("shape {shape} not in the harness catalogue");
                        std::process::exit(3);
                    }
                };
                if pipe != cj["pipe"] {
                    eprintln!("catalogue mismatch for shape {shape}: spec {} harness {}", cj["pipe"], pipe);
                    std::process::exit(3);
                }
                if shape.starts_with("lss") && cj["src"] != json!(SRC_ITEMS) {
                    eprintln!("source items mismatch: spec {} harness {:?}", cj["src"], SRC_ITEMS);
                    std::process::exit(3);
                }
                let c = SCase {
                    shape: shape.clone(),
                    raw: serde_json::from_value(cj["raw"].clone()).unwrap(),
                    rs: parse_scripts(&cj["rs"]),
                    xs: parse_scripts(&cj["xs"]),
                    cs: parse_scripts(&cj["cs"]),
                    plan: serde_json::from_value(cj["plan"].clone()).unwrap(),
                };
                let run = run_case(&c);
                write_case(&mut tr, i + 1, &c, &pipe, &run);
                let hash_order = shape.starts_with("demux_map");
                let got: Vec<Value> = run.events.iter().map(|e| e.arr()).collect();
                let want: Vec<Value> = cj["evs"].as_array().cloned().unwrap_or_default();
                if canon(&got, hash_order) != canon(&want, hash_order) {
                    ndrift += 1;
                    if drift.len() < 20 {
                        drift.push(json!({"case":i+1,"shape":shape,"raw":c.raw,"rs":c.rs,"xs":c.xs,"cs":c.cs,"plan":c.plan,
                                          "model":want,"impl":got}));
                    }
                }
            }
            tr.ev(json!({"e":"eof"}));
            let events = tr.lines;
            tr.finish();
            println!("{}", json!({"cases":input.len(),"events":events,"drift":drift,"ndrift":ndrift}));
        }
        Some("random") => {
            let count: usize = args[2].parse().unwrap();
            let max_in: u64 = args[3].parse().unwrap();
            let max_script: u64 = args[4].parse().unwrap();
            let mut tr = Trace::create(&args[5]);
            let cat = catalogue();
            let shapes: Vec<(&str, Value)> = match args.get(6) {
                Some(list) => cat.into_iter().filter(|(s, _)| list.split(',').any(|x| x == *s)).collect(),
                None => cat,
            };
            let mut rng = Rng::new(hv_common::seed());
            for i in 0..count {
                let (shape, pipe) = &shapes[i % shapes.len()];
                let nl = leaves_of(pipe);
                let term = shape.ends_with("for_each");
                let selfd = shape.starts_with("send_");
                let len = rng.below(max_in + 1) as usize;
                let raw: Vec<i64> = (0..len).map(|_| rand_item(shape, &mut rng)).collect();
                let nin = raw.iter().filter(|x| **x >= 0).count();
                let c = SCase {
                    shape: shape.to_string(),
                    rs: (0..nl).map(|_| if term { vec![] } else { rand_script(&mut rng, max_script) }).collect(),
                    xs: (0..nl).map(|_| if term { vec![] } else { rand_script(&mut rng, 3) }).collect(),
                    cs: (0..nl).map(|_| if term || selfd { vec![] } else { rand_script(&mut rng, 3) }).collect(),
                    plan: rand_plan(shape, nin, &mut rng),
                    raw,
                };
                let run = run_case(&c);
                write_case(&mut tr, i + 1, &c, pipe, &run);
            }
            tr.ev(json!({"e":"eof"}));
            let events = tr.lines;
            tr.finish();
            println!("{}", json!({"cases":count,"events":events,"drift":[],"ndrift":0}));
        }
        _ => {
            eprintln!("usage: sink_pipe replay|random|shapes ...");
            std::process::exit(2);
        }
    }
}
