//! C12 harness: drives the REAL dfir_pipes push combinators, built into the catalogue shapes of
//! spec/PushPipe/PushPipeImpl.tla, over scripted checking doubles; logs one event per call.
//!
//!   push_pipe replay <cases.ndjson> <trace_out.ndjson>
//!       cases: {"shape":..,"pipe":[..],"raw":[..],"rs":[[..]],"fs":[[..]],"extra":[..],"evs":[[d,op,v,w]..]}
//!   push_pipe random <count> <max_in> <max_script> <trace_out.ndjson> [shape,shape,...]
//!   push_pipe shapes                      prints {"shape": pipe-tree, ...}
//!
//! stdout: one JSON summary {cases, events, drift:[..]}.
use std::collections::HashMap;
use std::pin::pin;

use dfir_pipes::pull::Pull;
use dfir_pipes::push::{self, FoldKeyed, ReduceKeyed, SortState};
use futures::stream::{FuturesOrdered, FuturesUnordered};
use hv_push::*;
use lattices::Max;
use variadics::var_expr;

fn n(k: &str, c: &[i64], p: &[i64]) -> Value {
    json!({"k":k,"c":c,"p":p})
}
fn l(d: i64) -> Value {
    n("leaf", &[], &[d, 1])
}
fn t(d: i64) -> Value {
    n("leaf", &[], &[d, 0])
}
fn one(k: &str, p: &[i64]) -> Value {
    json!([n(k, &[2], p), l(1)])
}
fn two(k: &str, p: &[i64]) -> Value {
    json!([n(k, &[2, 3], p), l(1), l(2)])
}

/// The catalogue: must equal `Cat` in spec/PushPipe/PushPipeImpl.tla (checked by the family).
fn catalogue() -> Vec<(&'static str, Value)> {
    vec![
        ("map", one("map", &[10])),
        ("filter", one("filter", &[])),
        ("filter_map", one("filter_map", &[])),
        ("inspect", one("inspect", &[])),
        ("flat_map", one("flat_map", &[])),
        ("flatten", one("flatten", &[])),
        ("fanout", two("fanout", &[])),
        ("unzip", two("unzip", &[])),
        ("demux_var", json!([n("demux_var", &[2, 3, 4], &[]), l(1), l(2), l(3)])),
        ("fold", one("fold", &[0])),
        ("reduce", one("reduce", &[])),
        ("sort", one("sort", &[])),
        ("sort_state", one("sort_state", &[])),
        ("fold_keyed", one("fold_keyed", &[0])),
        ("reduce_keyed", one("reduce_keyed", &[])),
        ("persist_replay", one("persist", &[1, 7, 8])),
        ("persist_norep", one("persist", &[0, 7, 8])),
        ("persist_empty", one("persist", &[1])),
        ("state_push", two("state_push", &[0])),
        ("for_each", json!([n("for_each", &[2], &[]), t(1)])),
        ("vec_push", json!([n("vec_push", &[2], &[]), t(1)])),
        ("sink", one("sink", &[])),
        ("sink_compat", one("sink_compat", &[])),
        ("send_push", one("send_push", &[])),
        ("filter_map_async", one("filter_map_async", &[])),
        ("flat_map_stream", one("flat_map_stream", &[])),
        ("flatten_stream", one("flatten_stream", &[])),
        ("rf_ordered", one("resolve_futures", &[1, 0])),
        ("rf_unordered", one("resolve_futures", &[0, 0])),
        ("rf_ordered_w", one("resolve_futures", &[1, 1])),
        ("rf_unordered_w", one("resolve_futures", &[0, 1])),
        ("flat_map_fanout", json!([n("flat_map", &[2], &[]), n("fanout", &[3, 4], &[]), l(1), l(2)])),
        ("fanout_flat_map", json!([n("fanout", &[2, 3], &[]), n("flat_map", &[4], &[]), n("map", &[5], &[10]), l(1), l(2)])),
        ("unzip_persist", json!([n("unzip", &[2, 3], &[]), n("persist", &[4], &[1, 7]), l(2), l(1)])),
        ("map_filter_flat_map", json!([n("map", &[2], &[10]), n("filter", &[3], &[]), n("flat_map", &[4], &[]), l(1)])),
        ("sort_flat_map", json!([n("sort", &[2], &[]), n("flat_map", &[3], &[]), l(1)])),
        ("fold_keyed_map", json!([n("fold_keyed", &[2], &[0]), n("map", &[3], &[10]), l(1)])),
        ("flat_map_fold", json!([n("flat_map", &[2], &[]), n("fold", &[3], &[0]), l(1)])),
        ("demux_mixed", json!([n("demux_var", &[2, 3], &[]), n("flat_map", &[4], &[]), n("reduce", &[5], &[]), l(1), l(2)])),
    ]
}

fn pipe_of(shape: &str) -> Option<Value> {
    catalogue().into_iter().find(|(s, _)| *s == shape).map(|(_, p)| p)
}
fn leaves_of(pipe: &Value) -> usize {
    pipe.as_array().unwrap().iter().filter(|nd| nd["k"] == "leaf").count()
}

/// First pass of a persist operator: the real Persist (replay = false) fills the buffer.
fn persist_first_pass(buf: &mut Vec<i64>, items: &[i64]) {
    let sink = push::for_each(|_x: i64| {});
    let mut p = pin!(push::persist_state(buf, false, sink));
    use dfir_pipes::push::Push;
    for &x in items {
        let _ = p.as_mut().poll_ready(&mut ());
        p.as_mut().start_send(x, ());
    }
    let _ = p.as_mut().poll_finalize(&mut ());
}

fn id(x: i64) -> i64 {
    x
}
fn pair(x: i64) -> (i64, i64) {
    (fst(x), snd(x))
}
fn idx(x: i64) -> (usize, i64) {
    (fst(x) as usize, snd(x))
}

fn budget(c: &Case) -> usize {
    let pend: usize = c.rs.iter().chain(c.fs.iter()).map(|s| s.len()).sum();
    4 * c.raw.len() + 2 * pend + 8 * (c.rs.len() + 1) + 40
}

/// Builds the real pipeline of the case's shape and drives it.
fn run_case(c: &Case) -> Run {
    reset_case();
    let ins = c.inputs();
    let ex = &c.extra;
    let drv = Driver::new(budget(c));
    match c.shape.as_str() {
        "map" => drive_push(pin!(push::map(|x: i64| map_f(10, x), c.leaf(1, enc_i))), &ins, id, ex, drv),
        "filter" => drive_push(pin!(push::filter(filter_p, c.leaf(1, enc_i))), &ins, id, ex, drv),
        "filter_map" => drive_push(pin!(push::filter_map(filter_map_f, c.leaf(1, enc_i))), &ins, id, ex, drv),
        "inspect" => drive_push(pin!(push::inspect(|_x: &i64| {}, c.leaf(1, enc_i))), &ins, id, ex, drv),
        "flat_map" => drive_push(pin!(push::flat_map(flat_f, c.leaf(1, enc_i))), &ins, id, ex, drv),
        "flatten" => drive_push(pin!(push::flatten::<Vec<i64>, (), _>(c.leaf(1, enc_i))), &ins, flat_f, ex, drv),
        "fanout" => drive_push(pin!(push::fanout(c.leaf(1, enc_i), c.leaf(2, enc_i))), &ins, id, ex, drv),
        "unzip" => drive_push(pin!(push::unzip(c.leaf(1, enc_i), c.leaf(2, enc_i))), &ins, pair, ex, drv),
        "demux_var" => drive_push(
            pin!(push::demux_var(var_expr!(c.leaf(1, enc_i), c.leaf(2, enc_i), c.leaf(3, enc_i)))),
            &ins, idx, ex, drv,
        ),
        "fold" => drive_push(pin!(push::fold(0i64, |a: &mut i64, x: i64| *a += x, c.leaf(1, enc_i))), &ins, id, ex, drv),
        "reduce" => drive_push(pin!(push::reduce(None, |a: &mut i64, x: i64| *a += x, c.leaf(1, enc_i))), &ins, id, ex, drv),
        "sort" => drive_push(pin!(push::sort(c.leaf(1, enc_i))), &ins, id, ex, drv),
        "sort_state" => drive_push(pin!(push::accumulate(SortState::new(), c.leaf(1, enc_i))), &ins, id, ex, drv),
        "fold_keyed" => {
            let mut map: HashMap<i64, i64> = HashMap::new();
            let p = FoldKeyed::new(&mut map, || 0i64, |a: &mut i64, v: i64| *a += v, c.leaf(1, enc_pair));
            drive_push(pin!(p), &ins, pair, ex, drv)
        }
        "reduce_keyed" => {
            let mut map: HashMap<i64, i64> = HashMap::new();
            let p = ReduceKeyed::new(&mut map, |a: &mut i64, v: i64| *a += v, c.leaf(1, enc_pair));
            drive_push(pin!(p), &ins, pair, ex, drv)
        }
        "persist_replay" | "persist_norep" | "persist_empty" => {
            let mut buf = Vec::new();
            if c.shape != "persist_empty" {
                persist_first_pass(&mut buf, &[7, 8]);
            }
            let replay = c.shape != "persist_norep";
            drive_push(pin!(push::persist_state(&mut buf, replay, c.leaf(1, enc_i))), &ins, id, ex, drv)
        }
        "state_push" => {
            let mut state = Max::new(0i64);
            let p = push::state_push(
                c.leaf(1, enc_i),
                c.leaf::<Max<i64>>(2, |m| *m.as_reveal_ref()),
                |x: i64| Max::new(x),
                &mut state,
            );
            drive_push(pin!(p), &ins, id, ex, drv)
        }
        "for_each" => drive_push(pin!(push::for_each(|x: i64| log(1, "s", x))), &ins, id, ex, drv),
        "vec_push" => {
            // the harness reads the vector only between calls on the pipeline
            let mut v: Vec<i64> = Vec::new();
            let reader: *const Vec<i64> = &v;
            let mut seen = 0usize;
            let mut drv = drv;
            drv.after = Some(Box::new(move || {
                let v = unsafe { &*reader };
                while seen < v.len() {
                    log(1, "s", v[seen]);
                    seen += 1;
                }
            }));
            drive_push(pin!(push::vec_push(&mut v)), &ins, id, ex, drv)
        }
        "sink" => {
            let si = SinkLeaf::as_push(1, &c.rs[0], &c.fs[0], enc_i);
            drive_push(pin!(push::sink(si)), &ins, id, ex, drv)
        }
        "sink_compat" => {
            // the driver is a futures::Sink client: poll_flush (a no-op) before close when extra says so
            let flush_at: Vec<u8> = (0..=ins.len()).map(|i| if i == ins.len() { 1 } else { 0 }).collect();
            drive_sink(pin!(push::sink_compat(c.leaf(1, enc_i))), &ins, id, ex, &flush_at, "x", "f", drv)
        }
        "send_push" => {
            let src = SrcPull { script: c.raw.iter().copied().collect() };
            drive_future(pin!(src.send_push(c.leaf(1, enc_i))), drv)
        }
        "filter_map_async" => drive_push(
            pin!(push::filter_map_async(|x: i64| Countdown::new(delay(x), filter_map_f(aval(x)), true), c.leaf(1, enc_i))),
            &ins, id, ex, drv,
        ),
        "flat_map_stream" => drive_push(
            pin!(push::flat_map_stream(|x: i64| InnerStream::new(stream_script(x)), c.leaf(1, enc_i))),
            &ins, id, ex, drv,
        ),
        "flatten_stream" => drive_push(
            pin!(push::flatten_stream::<InnerStream, (), _>(c.leaf(1, enc_i))),
            &ins, |x| InnerStream::new(stream_script(x)), ex, drv,
        ),
        "rf_ordered" | "rf_ordered_w" => {
            let mut q: LoggedQueue<FuturesOrdered<Countdown<i64>>> = Default::default();
            let w = if c.shape.ends_with("_w") { Some(hv_common::count_waker().1) } else { None };
            drive_push(
                pin!(push::resolve_futures_state(&mut q, w, c.leaf(1, enc_i))),
                &ins, |x| Countdown::new(delay(x), aval(x), false), ex, drv,
            )
        }
        "rf_unordered" | "rf_unordered_w" => {
            let mut q: LoggedQueue<FuturesUnordered<Countdown<i64>>> = Default::default();
            let w = if c.shape.ends_with("_w") { Some(hv_common::count_waker().1) } else { None };
            drive_push(
                pin!(push::resolve_futures_state(&mut q, w, c.leaf(1, enc_i))),
                &ins, |x| Countdown::new(delay(x), aval(x), false), ex, drv,
            )
        }
        "flat_map_fanout" => drive_push(
            pin!(push::flat_map(flat_f, push::fanout(c.leaf(1, enc_i), c.leaf(2, enc_i)))),
            &ins, id, ex, drv,
        ),
        "fanout_flat_map" => drive_push(
            pin!(push::fanout(
                push::flat_map(flat_f, c.leaf(1, enc_i)),
                push::map(|x: i64| map_f(10, x), c.leaf(2, enc_i))
            )),
            &ins, id, ex, drv,
        ),
        "unzip_persist" => {
            let mut buf = Vec::new();
            persist_first_pass(&mut buf, &[7]);
            drive_push(
                pin!(push::unzip(push::persist_state(&mut buf, true, c.leaf(1, enc_i)), c.leaf(2, enc_i))),
                &ins, pair, ex, drv,
            )
        }
        "map_filter_flat_map" => drive_push(
            pin!(push::map(|x: i64| map_f(10, x), push::filter(filter_p, push::flat_map(flat_f, c.leaf(1, enc_i))))),
            &ins, id, ex, drv,
        ),
        "sort_flat_map" => drive_push(pin!(push::sort(push::flat_map(flat_f, c.leaf(1, enc_i)))), &ins, id, ex, drv),
        "fold_keyed_map" => {
            let mut map: HashMap<i64, i64> = HashMap::new();
            let p = FoldKeyed::new(
                &mut map,
                || 0i64,
                |a: &mut i64, v: i64| *a += v,
                push::map(|kv: (i64, i64)| map_f(10, enc_pair(&kv)), c.leaf(1, enc_i)),
            );
            drive_push(pin!(p), &ins, pair, ex, drv)
        }
        "flat_map_fold" => drive_push(
            pin!(push::flat_map(flat_f, push::fold(0i64, |a: &mut i64, x: i64| *a += x, c.leaf(1, enc_i)))),
            &ins, id, ex, drv,
        ),
        "demux_mixed" => drive_push(
            pin!(push::demux_var(var_expr!(
                push::flat_map(flat_f, c.leaf(1, enc_i)),
                push::reduce(None, |a: &mut i64, x: i64| *a += x, c.leaf(2, enc_i))
            ))),
            &ins, idx, ex, drv,
        ),
        other => {
            eprintln!("unknown shape {other}");
            std::process::exit(3);
        }
    }
}

/// Random input item of a shape.
fn rand_item(shape: &str, rng: &mut Rng) -> i64 {
    let v = 1 + rng.below(9) as i64;
    match shape {
        "unzip" | "unzip_persist" => (1 + rng.below(9) as i64) * 100 + v,
        "demux_var" => (rng.below(3) as i64) * 100 + v,
        "demux_mixed" => (rng.below(2) as i64) * 100 + v,
        "fold_keyed" | "reduce_keyed" | "fold_keyed_map" => (1 + rng.below(3) as i64) * 100 + v,
        "filter_map_async" | "rf_ordered" | "rf_unordered" | "rf_ordered_w" | "rf_unordered_w" => (rng.below(4) as i64) * 100 + v,
        "flat_map_stream" | "flatten_stream" => (rng.below(3) as i64) * 100 + v,
        "send_push" => if rng.chance(1, 4) { -1 } else { v },
        _ => v,
    }
}

fn write_case(tr: &mut Trace, case_id: usize, c: &Case, pipe: &Value, run: &Run) {
    tr.ev(json!({"e":"reset","case":case_id,"shape":c.shape,"pipe":pipe,"inputs":c.inputs(),"raw":c.raw,
                 "rs":c.rs,"fs":c.fs,"extra":c.extra}));
    let mut cur: Vec<Value> = Vec::new();
    for e in &run.events {
        cur.push(e.arr());
        if e.d == -1 {
            tr.ev(json!({"e":"call","evs":cur}));
            cur = Vec::new();
        }
    }
    if !cur.is_empty() {
        tr.ev(json!({"e":"call","evs":cur}));
    }
    if run.outcome == "panic" {
        tr.ev(json!({"e":"note","msg":run.msg}));
    }
}

/// Event lists are compared modulo inner-source events (their count is an implementation detail
/// of the futures queue) and, below keyed / unordered nodes, modulo the order of sent values.
fn canon(evs: &[Value], unordered: bool) -> Vec<Value> {
    let mut out: Vec<Value> = evs.iter().filter(|e| e[0] != 0 && e[1] != "x").cloned().collect();
    if unordered {
        let mut vals: Vec<i64> = out.iter().filter(|e| e[1] == "s" && e[0].as_i64().unwrap() > 0).map(|e| e[2].as_i64().unwrap()).collect();
        vals.sort();
        let mut it = vals.into_iter();
        for e in out.iter_mut() {
            if e[1] == "s" && e[0].as_i64().unwrap() > 0 {
                e[2] = json!(it.next().unwrap());
            }
        }
    }
    out
}

fn main() {
    let args: Vec<String> = std::env::args().collect();
    match args.get(1).map(|s| s.as_str()) {
        Some("shapes") => {
            let m: serde_json::Map<String, Value> = catalogue().into_iter().map(|(k, v)| (k.to_string(), v)).collect();
            println!("{}", Value::Object(m));
        }
        Some("replay") => {
            let input = hv_common::read_ndjson(&args[2]);
            let mut tr = Trace::create(&args[3]);
            let mut drift: Vec<Value> = Vec::new();
            let mut ndrift = 0usize;
            for (i, cj) in input.iter().enumerate() {
                let shape = cj["shape"].as_str().unwrap().to_string();
                let pipe = match pipe_of(&shape) {
                    Some(p) => p,
                    None => {
                        eprintln!("shape {shape} not in the harness catalogue");
                        std::process::exit(3);
                    }
                };
                if pipe != cj["pipe"] {
                    eprintln!("catalogue mismatch for shape {shape}: spec {} harness {}", cj["pipe"], pipe);
                    std::process::exit(3);
                }
                let c = Case {
                    shape: shape.clone(),
                    raw: serde_json::from_value(cj["raw"].clone()).unwrap(),
                    rs: parse_scripts(&cj["rs"]),
                    fs: parse_scripts(&cj["fs"]),
                    cs: vec![],
                    extra: serde_json::from_value(cj["extra"].clone()).unwrap(),
                };
                let run = run_case(&c);
                write_case(&mut tr, i + 1, &c, &pipe, &run);
                let unordered = shape.contains("keyed") || shape.contains("unordered");
                let got: Vec<Value> = run.events.iter().map(|e| e.arr()).collect();
                let want: Vec<Value> = cj["evs"].as_array().cloned().unwrap_or_default();
                if canon(&got, unordered) != canon(&want, unordered) {
                    ndrift += 1;
                    if drift.len() < 20 {
                        drift.push(json!({"case":i+1,"shape":shape,"raw":c.raw,"rs":c.rs,"fs":c.fs,"extra":c.extra,
                                          "model":want,"impl":got}));
                    }
                }
            }
            tr.ev(json!({"e":"eof"}));
            let events = tr.lines;
            tr.finish();
            println!("{}", json!({"cases":input.len(),"events":events,"drift":drift,"ndrift":ndrift}));
        }
        Some("random") => {
            let count: usize = args[2].parse().unwrap();
            let max_in: u64 = args[3].parse().unwrap();
            let max_script: u64 = args[4].parse().unwrap();
            let mut tr = Trace::create(&args[5]);
            let cat = catalogue();
            let shapes: Vec<(&str, Value)> = match args.get(6) {
                Some(list) => cat.into_iter().filter(|(s, _)| list.split(',').any(|x| x == *s)).collect(),
                None => cat,
            };
            let mut rng = Rng::new(hv_common::seed());
            for i in 0..count {
                let (shape, pipe) = &shapes[i % shapes.len()];
                let nl = leaves_of(pipe);
                let term = *shape == "for_each" || *shape == "vec_push";
                let len = rng.below(max_in + 1) as usize;
                let raw: Vec<i64> = (0..len).map(|_| rand_item(shape, &mut rng)).collect();
                let nin = raw.iter().filter(|x| **x >= 0).count();
                let c = Case {
                    shape: shape.to_string(),
                    raw,
                    rs: (0..nl).map(|_| if term { vec![] } else { rand_script(&mut rng, max_script) }).collect(),
                    fs: (0..nl).map(|_| if term { vec![] } else { rand_script(&mut rng, 3) }).collect(),
                    cs: vec![],
                    extra: (0..=nin).map(|_| if rng.chance(1, 4) { 1 } else { 0 }).collect(),
                };
                let run = run_case(&c);
                write_case(&mut tr, i + 1, &c, pipe, &run);
            }
            tr.ev(json!({"e":"eof"}));
            let events = tr.lines;
            tr.finish();
            println!("{}", json!({"cases":count,"events":events,"drift":[],"ndrift":0}));
        }
        _ => {
            eprintln!("usage: push_pipe replay|random|shapes ...");
            std::process::exit(2);
        }
    }
}
