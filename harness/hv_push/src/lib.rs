//! Shared pieces of the C12 / C14 harness bins: the event log, scripted checking doubles
//! (`Push`, `futures::Sink`, inner futures / streams / pull source), the closure vocabulary
//! mirrored from spec/PushPipe/PushPipe.tla, and the legal-client drivers.
//!
//! Everything is single threaded; the doubles log into a thread-local event list so that the
//! order of the log is the order of the calls.
use std::cell::{Cell, RefCell, UnsafeCell};
use std::collections::VecDeque;
use std::pin::Pin;
use std::rc::Rc;
use std::task::{Context, Poll, Waker};

use dfir_pipes::push::{Push, PushStep};
use dfir_pipes::Yes;
pub use hv_common::{Rng, Trace, Value, json};

/// One observed call: d > 0 downstream d, d = 0 inner source, d = -1 driver-level call.
#[derive(Clone, Debug, PartialEq)]
pub struct Ev {
    pub d: i64,
    pub op: &'static str,
    pub v: i64,
    pub w: i64,
}
impl Ev {
    pub fn json(&self) -> Value {
        json!({"e":"ev","d":self.d,"o":self.op,"v":self.v,"w":self.w})
    }
    pub fn arr(&self) -> Value {
        json!([self.d, self.op, self.v, self.w])
    }
}

thread_local! {
    static LOG: RefCell<Vec<Ev>> = const { RefCell::new(Vec::new()) };
    static STEPS: Cell<u64> = const { Cell::new(0) };
    static TIMERS: RefCell<Vec<Rc<CountCell>>> = const { RefCell::new(Vec::new()) };
    static HELD: Cell<i64> = const { Cell::new(0) };
}

pub const STEP_BUDGET: u64 = 200_000;

pub fn log(d: i64, op: &'static str, v: i64) {
    let n = STEPS.with(|s| {
        s.set(s.get() + 1);
        s.get()
    });
    if n > STEP_BUDGET {
        panic!("harness step budget exceeded (a call on the pipeline does not terminate)");
    }
    LOG.with(|l| l.borrow_mut().push(Ev { d, op, v, w: 0 }));
}
pub fn take_log() -> Vec<Ev> {
    LOG.with(|l| std::mem::take(&mut *l.borrow_mut()))
}
pub fn reset_case() {
    LOG.with(|l| l.borrow_mut().clear());
    STEPS.with(|s| s.set(0));
    TIMERS.with(|t| t.borrow_mut().clear());
    HELD.with(|h| h.set(0));
}
pub fn held() -> i64 {
    HELD.with(|h| h.get())
}
pub fn add_held(k: i64) {
    HELD.with(|h| h.set(h.get() + k));
}

// ------------------------------------------------------------------------------------------
// closure vocabulary (spec/PushPipe/PushPipe.tla, "closure vocabulary")
// ------------------------------------------------------------------------------------------
pub fn fst(x: i64) -> i64 {
    x / 100
}
pub fn snd(x: i64) -> i64 {
    x % 100
}
pub fn map_f(a: i64, x: i64) -> i64 {
    x + a
}
pub fn filter_p(x: &i64) -> bool {
    *x % 2 == 1
}
pub fn filter_map_f(x: i64) -> Option<i64> {
    if x % 2 == 1 { Some(x + 20) } else { None }
}
pub fn flat_f(x: i64) -> Vec<i64> {
    (0..(x % 3)).map(|j| x + 10 * j).collect()
}
pub fn aval(x: i64) -> i64 {
    x % 100
}
pub fn delay(x: i64) -> i64 {
    x / 100
}
/// Inner stream script of flat_map_stream / flatten_stream for input x (-1 = Pending).
pub fn stream_script(x: i64) -> VecDeque<i64> {
    let md = delay(x);
    let mut s = VecDeque::new();
    for it in flat_f(aval(x)) {
        if md == 1 {
            s.push_back(-1);
        }
        s.push_back(it);
    }
    if md == 1 || md == 2 {
        s.push_back(-1);
    }
    s
}

// ------------------------------------------------------------------------------------------
// scripted downstream doubles
// ------------------------------------------------------------------------------------------
fn script(v: &[u8]) -> VecDeque<u8> {
    v.iter().copied().collect()
}

/// Scripted checking `Push` double: poll_ready / poll_finalize answer from scripts
/// (1 = Done, 0 = Pending), Done once a script is exhausted, Done forever once finalized.
pub struct Leaf<T> {
    pub d: i64,
    rs: VecDeque<u8>,
    fs: VecDeque<u8>,
    fin: bool,
    enc: fn(&T) -> i64,
}
impl<T> Leaf<T> {
    pub fn new(d: i64, rs: &[u8], fs: &[u8], enc: fn(&T) -> i64) -> Self {
        Leaf { d, rs: script(rs), fs: script(fs), fin: false, enc }
    }
}
impl<T> Unpin for Leaf<T> {}
impl<T> Push<T, ()> for Leaf<T> {
    type Ctx<'ctx> = ();
    type CanPend = Yes;
    fn poll_ready(self: Pin<&mut Self>, _ctx: &mut ()) -> PushStep<Yes> {
        let me = self.get_mut();
        let a = me.rs.pop_front().unwrap_or(1);
        log(me.d, "r", a as i64);
        if a == 1 { PushStep::Done } else { PushStep::Pending(Yes) }
    }
    fn start_send(self: Pin<&mut Self>, item: T, _meta: ()) {
        let me = self.get_mut();
        log(me.d, "s", (me.enc)(&item));
    }
    fn poll_finalize(self: Pin<&mut Self>, _ctx: &mut ()) -> PushStep<Yes> {
        let me = self.get_mut();
        let a = if me.fin { 1 } else { me.fs.pop_front().unwrap_or(1) };
        if a == 1 {
            me.fin = true;
        }
        log(me.d, "f", a as i64);
        if a == 1 { PushStep::Done } else { PushStep::Pending(Yes) }
    }
    fn size_hint(self: Pin<&mut Self>, _hint: (usize, Option<usize>)) {}
}

/// Scripted checking `futures::Sink` double. Ops logged: "r" poll_ready, "s" start_send,
/// "f" poll_flush, "c" poll_close; answers from the scripts rs / fs / cs (1 = Ready(Ok)).
/// With `flush_is_f = false` (C14) flush is logged as "x" and close as "f".
pub struct SinkLeaf<T> {
    pub d: i64,
    rs: VecDeque<u8>,
    fs: VecDeque<u8>,
    cs: VecDeque<u8>,
    closed: bool,
    enc: fn(&T) -> i64,
    flush_op: &'static str,
    close_op: &'static str,
    /// flush answers Ready forever once it answered Ready with nothing sent since (C12 use)
    flushed: bool,
    sticky_flush: bool,
}
impl<T> SinkLeaf<T> {
    /// C12: flush plays the role of poll_finalize.
    pub fn as_push(d: i64, rs: &[u8], fs: &[u8], enc: fn(&T) -> i64) -> Self {
        SinkLeaf {
            d, rs: script(rs), fs: script(fs), cs: VecDeque::new(), closed: false, enc,
            flush_op: "f", close_op: "c", flushed: false, sticky_flush: true,
        }
    }
    /// C14: flush "x", close "f".
    pub fn as_sink(d: i64, rs: &[u8], xs: &[u8], cs: &[u8], enc: fn(&T) -> i64) -> Self {
        SinkLeaf {
            d, rs: script(rs), fs: script(xs), cs: script(cs), closed: false, enc,
            flush_op: "x", close_op: "f", flushed: false, sticky_flush: false,
        }
    }
}
impl<T> Unpin for SinkLeaf<T> {}
impl<T> futures::Sink<T> for SinkLeaf<T> {
    type Error = std::convert::Infallible;
    fn poll_ready(self: Pin<&mut Self>, cx: &mut Context<'_>) -> Poll<Result<(), Self::Error>> {
        let me = self.get_mut();
        let a = me.rs.pop_front().unwrap_or(1);
        log(me.d, "r", a as i64);
        if a == 1 {
            Poll::Ready(Ok(()))
        } else {
            cx.waker().wake_by_ref();
            Poll::Pending
        }
    }
    fn start_send(self: Pin<&mut Self>, item: T) -> Result<(), Self::Error> {
        let me = self.get_mut();
        log(me.d, "s", (me.enc)(&item));
        Ok(())
    }
    fn poll_flush(self: Pin<&mut Self>, cx: &mut Context<'_>) -> Poll<Result<(), Self::Error>> {
        let me = self.get_mut();
        let a = if me.sticky_flush && me.flushed { 1 } else { me.fs.pop_front().unwrap_or(1) };
        if a == 1 && me.sticky_flush {
            me.flushed = true;
        }
        log(me.d, me.flush_op, a as i64);
        if a == 1 {
            Poll::Ready(Ok(()))
        } else {
            cx.waker().wake_by_ref();
            Poll::Pending
        }
    }
    fn poll_close(self: Pin<&mut Self>, cx: &mut Context<'_>) -> Poll<Result<(), Self::Error>> {
        let me = self.get_mut();
        let a = if me.closed { 1 } else { me.cs.pop_front().unwrap_or(1) };
        if a == 1 {
            me.closed = true;
        }
        log(me.d, me.close_op, a as i64);
        if a == 1 {
            Poll::Ready(Ok(()))
        } else {
            cx.waker().wake_by_ref();
            Poll::Pending
        }
    }
}

// ------------------------------------------------------------------------------------------
// inner futures / streams / pull source
// ------------------------------------------------------------------------------------------
pub struct CountCell {
    remaining: Cell<i64>,
    waker: RefCell<Option<Waker>>,
}

/// Advance time by one driver call: every live countdown gets one call closer to resolution.
pub fn tick() {
    TIMERS.with(|t| {
        for c in t.borrow().iter() {
            let r = c.remaining.get();
            if r > 0 {
                c.remaining.set(r - 1);
                if r == 1 {
                    if let Some(w) = c.waker.borrow_mut().take() {
                        w.wake();
                    }
                }
            }
        }
    });
}

/// A future that resolves to `out` once `k` driver calls have completed after its creation.
/// With `logged`, every poll is logged as an inner-source event (d = 0; v = 1 iff Pending).
pub struct Countdown<T> {
    cell: Rc<CountCell>,
    out: Option<T>,
    logged: bool,
}
impl<T> Countdown<T> {
    pub fn new(k: i64, out: T, logged: bool) -> Self {
        let cell = Rc::new(CountCell { remaining: Cell::new(k), waker: RefCell::new(None) });
        TIMERS.with(|t| t.borrow_mut().push(cell.clone()));
        Countdown { cell, out: Some(out), logged }
    }
}
impl<T> Unpin for Countdown<T> {}
impl<T> Future for Countdown<T> {
    type Output = T;
    fn poll(self: Pin<&mut Self>, cx: &mut Context<'_>) -> Poll<T> {
        let me = self.get_mut();
        if me.cell.remaining.get() > 0 {
            *me.cell.waker.borrow_mut() = Some(cx.waker().clone());
            if me.logged {
                log(0, "a", 1);
            }
            Poll::Pending
        } else {
            if me.logged {
                log(0, "a", 0);
            }
            Poll::Ready(me.out.take().expect("Countdown polled after completion"))
        }
    }
}

/// Scripted inner stream (-1 = Pending, other = item, end when exhausted; fused).
pub struct InnerStream {
    script: VecDeque<i64>,
}
impl InnerStream {
    pub fn new(script: VecDeque<i64>) -> Self {
        InnerStream { script }
    }
}
impl futures::Stream for InnerStream {
    type Item = i64;
    fn poll_next(self: Pin<&mut Self>, cx: &mut Context<'_>) -> Poll<Option<i64>> {
        let me = self.get_mut();
        match me.script.pop_front() {
            Some(-1) => {
                log(0, "a", 1);
                cx.waker().wake_by_ref();
                Poll::Pending
            }
            Some(x) => {
                log(0, "a", 0);
                Poll::Ready(Some(x))
            }
            None => {
                log(0, "a", 0);
                Poll::Ready(None)
            }
        }
    }
}

/// A futures queue wrapper that logs every poll of the queue as one inner-source event and
/// tracks the number of queued futures in the thread-local HELD counter.
#[derive(Default)]
pub struct LoggedQueue<Q>(pub Q);
impl<Q: Unpin> Unpin for LoggedQueue<Q> {}
impl<Q, F> Extend<F> for LoggedQueue<Q>
where
    Q: Extend<F>,
{
    fn extend<I: IntoIterator<Item = F>>(&mut self, iter: I) {
        let v: Vec<F> = iter.into_iter().collect();
        add_held(v.len() as i64);
        self.0.extend(v);
    }
}
impl<Q: futures::Stream + Unpin> futures::Stream for LoggedQueue<Q> {
    type Item = Q::Item;
    fn poll_next(self: Pin<&mut Self>, cx: &mut Context<'_>) -> Poll<Option<Q::Item>> {
        let r = Pin::new(&mut self.get_mut().0).poll_next(cx);
        match &r {
            Poll::Pending => log(0, "a", 1),
            Poll::Ready(Some(_)) => {
                add_held(-1);
                log(0, "a", 0)
            }
            Poll::Ready(None) => log(0, "a", 0),
        }
        r
    }
}
impl<Q: futures::stream::FusedStream + Unpin> futures::stream::FusedStream for LoggedQueue<Q> {
    fn is_terminated(&self) -> bool {
        self.0.is_terminated()
    }
}

/// Scripted pull source for SendPush (-1 = Pending, other = item, Ended when exhausted).
pub struct SrcPull {
    pub script: VecDeque<i64>,
}
impl dfir_pipes::pull::Pull for SrcPull {
    type Ctx<'ctx> = ();
    type Item = i64;
    type Meta = ();
    type CanPend = Yes;
    type CanEnd = Yes;
    fn pull(
        self: Pin<&mut Self>,
        _ctx: &mut (),
    ) -> dfir_pipes::pull::PullStep<i64, (), Yes, Yes> {
        use dfir_pipes::pull::PullStep;
        let me = self.get_mut();
        match me.script.pop_front() {
            Some(x) if x < 0 => {
                log(0, "a", 1);
                PullStep::Pending(Yes)
            }
            Some(x) => {
                log(0, "a", 0);
                PullStep::Ready(x, ())
            }
            None => {
                log(0, "a", 0);
                PullStep::Ended(Yes)
            }
        }
    }
    fn size_hint(&self) -> (usize, Option<usize>) {
        (0, Some(self.script.len()))
    }
}

/// A `Vec` shared between a VecPush (through BorrowMut) and the harness, which reads it only
/// between calls on the pipeline.
pub struct SharedVec(pub Rc<UnsafeCell<Vec<i64>>>);
impl std::borrow::Borrow<Vec<i64>> for SharedVec {
    fn borrow(&self) -> &Vec<i64> {
        unsafe { &*self.0.get() }
    }
}
impl std::borrow::BorrowMut<Vec<i64>> for SharedVec {
    fn borrow_mut(&mut self) -> &mut Vec<i64> {
        unsafe { &mut *self.0.get() }
    }
}

// ------------------------------------------------------------------------------------------
// cases and drivers
// ------------------------------------------------------------------------------------------
#[derive(Clone, Debug)]
pub struct Case {
    pub shape: String,
    /// inputs in order (for send_push: the pull source script, -1 = Pending)
    pub raw: Vec<i64>,
    pub rs: Vec<Vec<u8>>,
    pub fs: Vec<Vec<u8>>,
    /// C14 only: close scripts
    pub cs: Vec<Vec<u8>>,
    /// spurious extra poll_ready cycles before input i (last entry: before finalize)
    pub extra: Vec<u8>,
}
impl Case {
    pub fn inputs(&self) -> Vec<i64> {
        self.raw.iter().copied().filter(|x| *x >= 0).collect()
    }
    pub fn leaf<T>(&self, d: usize, enc: fn(&T) -> i64) -> Leaf<T> {
        Leaf::new(d as i64, &self.rs[d - 1], &self.fs[d - 1], enc)
    }
}

pub fn enc_i(x: &i64) -> i64 {
    *x
}
pub fn enc_pair(x: &(i64, i64)) -> i64 {
    x.0 * 100 + x.1
}

/// Outcome of driving one case.
pub struct Run {
    pub events: Vec<Ev>,
    pub outcome: &'static str, // "done" | "stall" | "panic"
    pub msg: String,
}

pub struct Driver {
    pub events: Vec<Ev>,
    pub calls: usize,
    pub budget: usize,
    /// called after every driver call returned (vec_push reads its vector here)
    pub after: Option<Box<dyn FnMut()>>,
}
impl Driver {
    pub fn new(budget: usize) -> Self {
        Driver { events: Vec::new(), calls: 0, budget, after: None }
    }
    /// Runs one call on the pipeline, collects what the doubles logged, appends the driver-level
    /// event, advances the countdown futures. Err(msg) if the call panicked.
    pub fn call<R>(&mut self, op: &'static str, f: impl FnOnce() -> R, val: impl FnOnce(&R) -> (i64, i64)) -> Result<R, String> {
        self.calls += 1;
        let r = hv_common::catch(f);
        if let Some(a) = self.after.as_mut() {
            a();
        }
        self.events.extend(take_log());
        match r {
            Ok(r) => {
                let (v, w) = val(&r);
                self.events.push(Ev { d: -1, op, v, w });
                tick();
                Ok(r)
            }
            Err(msg) => {
                self.events.push(Ev { d: -1, op: "panic", v: 0, w: 0 });
                Err(msg)
            }
        }
    }
    pub fn finish(mut self, outcome: &'static str, msg: String) -> Run {
        if outcome == "stall" {
            self.events.push(Ev { d: -1, op: "stall", v: 0, w: 0 });
        }
        Run { events: self.events, outcome, msg }
    }
}

fn step_val<C: dfir_pipes::Toggle>(s: &PushStep<C>) -> (i64, i64) {
    (if s.is_done() { 1 } else { 0 }, 0)
}

/// The legal client of a `Push`: for every input (1 + extra[i]) completed poll_ready cycles,
/// start_send; then extra[n] cycles; then poll_finalize until Done.
pub fn drive_push<P, In>(p: Pin<&mut P>, inputs: &[i64], dec: impl Fn(i64) -> In, extra: &[u8], mut drv: Driver) -> Run
where
    P: Push<In, ()>,
{
    let mut p = p;
    let (_c, waker) = hv_common::count_waker();
    let n = inputs.len();
    for i in 0..=n {
        let cycles = if i < n { 1 + extra.get(i).copied().unwrap_or(0) } else { extra.get(n).copied().unwrap_or(0) };
        for _ in 0..cycles {
            loop {
                if drv.calls > drv.budget {
                    return drv.finish("stall", String::new());
                }
                let r = drv.call(
                    "r",
                    || {
                        let mut cx = Context::from_waker(&waker);
                        let ctx = <P::Ctx<'_> as dfir_pipes::Context<'_>>::from_task(&mut cx);
                        p.as_mut().poll_ready(ctx)
                    },
                    step_val,
                );
                match r {
                    Err(m) => return drv.finish("panic", m),
                    Ok(s) if s.is_done() => break,
                    Ok(_) => {}
                }
            }
        }
        if i < n {
            let x = inputs[i];
            let item = dec(x);
            if let Err(m) = drv.call("s", || p.as_mut().start_send(item, ()), |_| (x, 0)) {
                return drv.finish("panic", m);
            }
        }
    }
    loop {
        if drv.calls > drv.budget {
            return drv.finish("stall", String::new());
        }
        let r = drv.call(
            "f",
            || {
                let mut cx = Context::from_waker(&waker);
                let ctx = <P::Ctx<'_> as dfir_pipes::Context<'_>>::from_task(&mut cx);
                p.as_mut().poll_finalize(ctx)
            },
            |s| if s.is_done() { (1, held()) } else { (0, 0) },
        );
        match r {
            Err(m) => return drv.finish("panic", m),
            Ok(s) if s.is_done() => return drv.finish("done", String::new()),
            Ok(_) => {}
        }
    }
}

/// Polls a future (SendPush / SendIter / SendStream) until Ready; every poll is a driver-level
/// "f" event.
pub fn drive_future<F: Future>(f: Pin<&mut F>, drv: Driver) -> Run {
    drive_future_op(f, "f", drv)
}
pub fn drive_future_op<F: Future>(f: Pin<&mut F>, op: &'static str, mut drv: Driver) -> Run {
    let mut f = f;
    let (_c, waker) = hv_common::count_waker();
    loop {
        if drv.calls > drv.budget {
            return drv.finish("stall", String::new());
        }
        let r = drv.call(
            op,
            || {
                let mut cx = Context::from_waker(&waker);
                f.as_mut().poll(&mut cx)
            },
            |s| if s.is_ready() { (1, held()) } else { (0, 0) },
        );
        match r {
            Err(m) => return drv.finish("panic", m),
            Ok(Poll::Ready(_)) => return drv.finish("done", String::new()),
            Ok(_) => {}
        }
    }
}

/// What the legal sink client does between sends: per input (1 + extra) poll_ready cycles and
/// start_send; `flush_at[i]` = 1: flush until Ready before input i (last entry: before close);
/// finally poll_close until Ready.  Ops: "r", "s", `flush_op`, `close_op`.
pub fn drive_sink<S, In>(
    s: Pin<&mut S>,
    inputs: &[i64],
    dec: impl Fn(i64) -> In,
    extra: &[u8],
    flush_at: &[u8],
    flush_op: &'static str,
    close_op: &'static str,
    mut drv: Driver,
) -> Run
where
    S: futures::Sink<In>,
{
    let mut s = s;
    let (_c, waker) = hv_common::count_waker();
    let n = inputs.len();
    fn pv<E>(r: &Poll<Result<(), E>>) -> (i64, i64) {
        match r {
            Poll::Ready(Ok(())) => (1, 0),
            Poll::Ready(Err(_)) => (-1, 0),
            Poll::Pending => (0, 0),
        }
    }
    for i in 0..=n {
        if flush_at.get(i).copied().unwrap_or(0) == 1 {
            loop {
                if drv.calls > drv.budget {
                    return drv.finish("stall", String::new());
                }
                let r = drv.call(flush_op, || s.as_mut().poll_flush(&mut Context::from_waker(&waker)), pv);
                match r {
                    Err(m) => return drv.finish("panic", m),
                    Ok(Poll::Ready(_)) => break,
                    Ok(_) => {}
                }
            }
        }
        let cycles = if i < n { 1 + extra.get(i).copied().unwrap_or(0) } else { extra.get(n).copied().unwrap_or(0) };
        for _ in 0..cycles {
            loop {
                if drv.calls > drv.budget {
                    return drv.finish("stall", String::new());
                }
                let r = drv.call("r", || s.as_mut().poll_ready(&mut Context::from_waker(&waker)), pv);
                match r {
                    Err(m) => return drv.finish("panic", m),
                    Ok(Poll::Ready(_)) => break,
                    Ok(_) => {}
                }
            }
        }
        if i < n {
            let x = inputs[i];
            let item = dec(x);
            if let Err(m) = drv.call("s", || s.as_mut().start_send(item), |_| (x, 0)) {
                return drv.finish("panic", m);
            }
        }
    }
    loop {
        if drv.calls > drv.budget {
            return drv.finish("stall", String::new());
        }
        let r = drv.call(close_op, || s.as_mut().poll_close(&mut Context::from_waker(&waker)), |r| if pv(r).0 == 1 { (1, held()) } else { (pv(r).0, 0) });
        match r {
            Err(m) => return drv.finish("panic", m),
            Ok(Poll::Ready(_)) => return drv.finish("done", String::new()),
            Ok(_) => {}
        }
    }
}

pub fn parse_scripts(v: &Value) -> Vec<Vec<u8>> {
    serde_json::from_value(v.clone()).unwrap_or_default()
}

/// Random script: `len` entries, each Pending with probability 1/3.
pub fn rand_script(rng: &mut Rng, max_len: u64) -> Vec<u8> {
    let len = rng.below(max_len + 1);
    let mut v: Vec<u8> = (0..len).map(|_| if rng.chance(1, 3) { 0 } else { 1 }).collect();
    while v.last() == Some(&1) {
        v.pop();
    }
    v
}

/// Executes an explicit client plan on a `futures::Sink` (C14): "r" poll_ready until Ready,
/// "s" start_send(next input), "x" poll_flush until Ready, "f" poll_close until Ready,
/// "p" poll the source half once, "P" poll the source half until it ends.
pub fn drive_plan<S, In>(
    s: Pin<&mut S>,
    plan: &[String],
    inputs: &[i64],
    dec: impl Fn(i64) -> In,
    mut src: Option<&mut dyn FnMut(&mut Context<'_>) -> Poll<Option<i64>>>,
    mut drv: Driver,
) -> Run
where
    S: futures::Sink<In>,
{
    let mut s = s;
    let (_c, waker) = hv_common::count_waker();
    fn pv<E>(r: &Poll<Result<(), E>>) -> (i64, i64) {
        match r {
            Poll::Ready(Ok(())) => (1, 0),
            Poll::Ready(Err(_)) => (-1, 0),
            Poll::Pending => (0, 0),
        }
    }
    let mut next = 0usize;
    for act in plan {
        match act.as_str() {
            "s" => {
                if next >= inputs.len() {
                    return drv.finish("stall", "plan sends more items than inputs".into());
                }
                let x = inputs[next];
                next += 1;
                let item = dec(x);
                match drv.call("s", || s.as_mut().start_send(item), |_| (x, 0)) {
                    Err(m) => return drv.finish("panic", m),
                    Ok(Err(_)) => return drv.finish("error", String::new()),
                    Ok(Ok(())) => {}
                }
            }
            "r" | "x" | "f" => loop {
                if drv.calls > drv.budget {
                    return drv.finish("stall", String::new());
                }
                let r = match act.as_str() {
                    "r" => drv.call("r", || s.as_mut().poll_ready(&mut Context::from_waker(&waker)), pv),
                    "x" => drv.call("x", || s.as_mut().poll_flush(&mut Context::from_waker(&waker)), pv),
                    _ => drv.call("f", || s.as_mut().poll_close(&mut Context::from_waker(&waker)), pv),
                };
                match r {
                    Err(m) => return drv.finish("panic", m),
                    Ok(Poll::Ready(Ok(()))) => break,
                    Ok(Poll::Ready(Err(_))) => return drv.finish("error", String::new()),
                    Ok(Poll::Pending) => {}
                }
            },
            "p" | "P" => loop {
                if drv.calls > drv.budget {
                    return drv.finish("stall", String::new());
                }
                let f = src.as_mut().expect("plan polls a source but the shape has none");
                let r = drv.call(
                    "p",
                    || {
                        let r = f(&mut Context::from_waker(&waker));
                        match &r {
                            Poll::Ready(Some(x)) => log(0, "y", *x),
                            Poll::Ready(None) => log(0, "y", -2),
                            Poll::Pending => {}
                        }
                        r
                    },
                    |r| (if r.is_ready() { 1 } else { 0 }, 0),
                );
                match r {
                    Err(m) => return drv.finish("panic", m),
                    Ok(Poll::Ready(None)) => break,
                    Ok(_) if act == "p" => break,
                    Ok(_) => {}
                }
            },
            other => return drv.finish("stall", format!("unknown plan entry {other}")),
        }
    }
    drv.finish("done", String::new())
}
