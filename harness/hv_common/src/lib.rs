//! Shared helpers for the conformance harness bins: ndjson trace writer, scripted
//! stream/waker doubles, seed handling.
use std::fs::File;
use std::io::{BufWriter, Write};
use std::pin::Pin;
use std::sync::atomic::{AtomicUsize, Ordering};
use std::sync::{Arc, Mutex};
use std::task::{Context, Poll, Wake, Waker};

pub use serde_json::{Value, json};

/// ndjson event writer. One JSON object per line.
pub struct Trace {
    w: BufWriter<File>,
    pub lines: usize,
}

impl Trace {
    pub fn create(path: &str) -> Self {
        Trace {
            w: BufWriter::new(File::create(path).expect("create trace file")),
            lines: 0,
        }
    }
    pub fn ev(&mut self, v: Value) {
        serde_json::to_writer(&mut self.w, &v).unwrap();
        self.w.write_all(b"\n").unwrap();
        self.lines += 1;
    }
    pub fn finish(mut self) {
        self.w.flush().unwrap();
    }
}

/// Read an ndjson file into values.
pub fn read_ndjson(path: &str) -> Vec<Value> {
    let s = std::fs::read_to_string(path).expect("read ndjson");
    s.lines()
        .filter(|l| !l.trim().is_empty())
        .map(|l| serde_json::from_str(l).expect("parse ndjson line"))
        .collect()
}

/// Seed from VERIF_SEED (default 1).
pub fn seed() -> u64 {
    std::env::var("VERIF_SEED")
        .ok()
        .and_then(|s| s.parse().ok())
        .unwrap_or(1)
}

/// Small deterministic PRNG (splitmix64) so bins need no external crate for simple choices.
#[derive(Clone)]
pub struct Rng(pub u64);
impl Rng {
    pub fn new(seed: u64) -> Self {
        Rng(seed.wrapping_mul(0x9E3779B97F4A7C15) ^ 0xD1B54A32D192ED03)
    }
    pub fn next(&mut self) -> u64 {
        self.0 = self.0.wrapping_add(0x9E3779B97F4A7C15);
        let mut z = self.0;
        z = (z ^ (z >> 30)).wrapping_mul(0xBF58476D1CE4E5B9);
        z = (z ^ (z >> 27)).wrapping_mul(0x94D049BB133111EB);
        z ^ (z >> 31)
    }
    pub fn below(&mut self, n: u64) -> u64 {
        if n == 0 { 0 } else { self.next() % n }
    }
    pub fn chance(&mut self, num: u64, den: u64) -> bool {
        self.below(den) < num
    }
}

/// A waker that counts how often it was woken.
pub struct CountWaker(pub AtomicUsize);
impl Wake for CountWaker {
    fn wake(self: Arc<Self>) {
        self.0.fetch_add(1, Ordering::SeqCst);
    }
    fn wake_by_ref(self: &Arc<Self>) {
        self.0.fetch_add(1, Ordering::SeqCst);
    }
}
pub fn count_waker() -> (Arc<CountWaker>, Waker) {
    let a = Arc::new(CountWaker(AtomicUsize::new(0)));
    (a.clone(), Waker::from(a))
}

/// One answer of a scripted stream.
#[derive(Clone, Debug, PartialEq)]
pub enum Ans<T> {
    Item(T),
    Pending,
}

/// Shared log of polls seen by scripted doubles: (source id, answer as i64: item>=0, -1 pending, -2 end).
pub type PollLog = Arc<Mutex<Vec<(u32, i64)>>>;

/// A `futures::Stream` double answering from a script, then `None` forever (fused).
/// Every poll is appended to the shared log. `Pending` answers wake the waker at once so a
/// real executor would re-poll.
pub struct ScriptedStream<T> {
    pub id: u32,
    pub script: std::collections::VecDeque<Ans<T>>,
    pub log: PollLog,
    pub code: fn(&T) -> i64,
}

impl<T: Unpin> futures::Stream for ScriptedStream<T> {
    type Item = T;
    fn poll_next(self: Pin<&mut Self>, cx: &mut Context<'_>) -> Poll<Option<T>> {
        let me = self.get_mut();
        match me.script.pop_front() {
            Some(Ans::Item(x)) => {
                me.log.lock().unwrap().push((me.id, (me.code)(&x)));
                Poll::Ready(Some(x))
            }
            Some(Ans::Pending) => {
                me.log.lock().unwrap().push((me.id, -1));
                cx.waker().wake_by_ref();
                Poll::Pending
            }
            None => {
                me.log.lock().unwrap().push((me.id, -2));
                Poll::Ready(None)
            }
        }
    }
}

/// Run `f`, turning a panic into `Err(message)` (a panic in the code under test is data).
pub fn catch<R>(f: impl FnOnce() -> R) -> Result<R, String> {
    let prev = std::panic::take_hook();
    std::panic::set_hook(Box::new(|_| {}));
    let r = std::panic::catch_unwind(std::panic::AssertUnwindSafe(f));
    std::panic::set_hook(prev);
    r.map_err(|e| {
        if let Some(s) = e.downcast_ref::<&str>() {
            s.to_string()
        } else if let Some(s) = e.downcast_ref::<String>() {
            s.clone()
        } else {
            "panic".to_string()
        }
    })
}
