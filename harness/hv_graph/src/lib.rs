//! Shared helpers of the graph-compiler harness (C17-C20, C42): parsing DFIR source text the way
//! `dfir_macro` does, dumping a `DfirGraph` through its public API as JSON for the TLA+ structure
//! validation, and running the real compiler pipeline stage by stage.
//!
//! Nothing in here decides a property: the bins only drive the real code and record what it did.
use dfir_lang::diagnostic::{Diagnostics, Level};
use dfir_lang::graph::ops::DelayType;
use dfir_lang::graph::{
    Color, DfirGraph, FlatGraphBuilder, FlatGraphBuilderOutput, GraphEdgeId, GraphLoopId, GraphNode,
    GraphNodeId, GraphSubgraphId, HandoffKind, PortIndexValue, eliminate_extra_unions_tees,
    partition_graph,
};
use dfir_lang::parse::DfirCode;
use hv_common::{Value, json};
use slotmap::Key;

/// Stable small integer for a slotmap key: index + 10000 * generation.
pub fn key_num(ffi: u64) -> i64 {
    let idx = (ffi & 0xffff_ffff) as i64;
    let ver = (ffi >> 32) as i64;
    idx + 10000 * (ver >> 1)
}
pub fn nid(k: GraphNodeId) -> i64 {
    key_num(k.data().as_ffi())
}
pub fn eid(k: GraphEdgeId) -> i64 {
    key_num(k.data().as_ffi())
}
pub fn lid(k: GraphLoopId) -> i64 {
    key_num(k.data().as_ffi())
}
pub fn sid(k: GraphSubgraphId) -> i64 {
    key_num(k.data().as_ffi())
}

pub fn port_str(p: &PortIndexValue) -> String {
    match p {
        PortIndexValue::Elided(_) => "_".to_string(),
        other => format!("{}", other),
    }
}

pub fn delay_str(d: Option<DelayType>) -> &'static str {
    match d {
        None => "",
        Some(DelayType::Tick) => "tick",
        Some(DelayType::TickLazy) => "ticklazy",
        Some(DelayType::Loop) => "loop",
        Some(DelayType::LoopLazy) => "looplazy",
    }
}

/// Parse DFIR source text into the AST exactly as `dfir_syntax!` does (`syn` parse of `DfirCode`).
pub fn parse_program(src: &str) -> Result<DfirCode, String> {
    syn::parse_str::<DfirCode>(src).map_err(|e| e.to_string())
}

/// The empty graph dump (all fields present so the TLA+ side never sees a missing field).
pub fn empty_dump() -> Value {
    json!({"nodes":[],"edges":[],"loops":[],"sgs":[],"topo":[]})
}

/// Dump a graph through the public `DfirGraph` API.
pub fn dump_graph(g: &DfirGraph) -> Value {
    let colors = g.node_color_map();
    let mut nodes = Vec::new();
    for (id, node) in g.nodes() {
        let (kind, hk) = match node {
            GraphNode::Operator(_) => ("op", ""),
            GraphNode::Handoff { kind, .. } => (
                "hoff",
                match kind {
                    HandoffKind::Vec => "vec",
                    HandoffKind::Singleton => "singleton",
                    HandoffKind::Optional => "optional",
                },
            ),
            GraphNode::ModuleBoundary { .. } => ("mod", ""),
        };
        let text = match node {
            GraphNode::Operator(op) => quote::ToTokens::to_token_stream(op).to_string(),
            _ => node.to_name_string().to_string(),
        };
        // Degree-forced colour as the partitioner sees it on a flat graph. On a partitioned graph
        // `node_color_map` additionally fills in the position-based colour of (1,1) nodes; the
        // degree-forced colour is recomputed from the degrees on the TLA+ side, this field is
        // only informational.
        let color = match colors.get(id) {
            None => "none",
            Some(Color::Pull) => "pull",
            Some(Color::Push) => "push",
            Some(Color::Comp) => "comp",
            Some(Color::Hoff) => "hoff",
        };
        let refs: Vec<Value> = g
            .node_handoff_references(id)
            .iter()
            .map(|r| {
                json!({"t": r.node_id.map(nid).unwrap_or(0), "mut": r.is_mut,
                       "grp": r.access_group.map(|x| x as i64).unwrap_or(-1)})
            })
            .collect();
        let name = node.to_name_string().to_string();
        let forcepush = name == "resolve_futures_blocking" || name == "resolve_futures_blocking_ordered";
        nodes.push(json!({
            "id": nid(id), "kind": kind, "name": name, "text": text,
            "label": node.to_pretty_string().to_string(), "hk": hk,
            "loop": g.node_loop(id).map(lid).unwrap_or(0),
            "color": color,
            "sg": g.node_subgraph(id).map(sid).unwrap_or(0),
            "delay": delay_str(g.handoff_delay_type(id)),
            "inst": g.node_op_inst(id).is_some(),
            "refs": refs,
            "din": g.node_degree_in(id), "dout": g.node_degree_out(id),
            "fp": forcepush,
        }));
    }
    let mut edges = Vec::new();
    for (e, (s, d)) in g.edges() {
        let (sp, dp) = g.edge_ports(e);
        let delay = g
            .node_op_inst(d)
            .and_then(|oi| (oi.op_constraints.input_delaytype_fn)(dp));
        edges.push(json!({"id": eid(e), "s": nid(s), "d": nid(d), "sp": port_str(sp), "dp": port_str(dp),
                          "delay": delay_str(delay)}));
    }
    let mut loops = Vec::new();
    for (l, members) in g.loops() {
        loops.push(json!({"id": lid(l), "parent": g.loop_parent(l).map(lid).unwrap_or(0),
                          "nodes": members.iter().map(|&n| nid(n)).collect::<Vec<_>>()}));
    }
    let mut sgs = Vec::new();
    for (s, members) in g.subgraphs() {
        sgs.push(json!({"id": sid(s), "nodes": members.iter().map(|&n| nid(n)).collect::<Vec<_>>(),
                        "loop": if members.is_empty() { 0 } else { g.subgraph_loop(s).map(lid).unwrap_or(0) }}));
    }
    let topo: Vec<i64> = g.subgraph_toposort().iter().map(|&s| sid(s)).collect();
    json!({"nodes": nodes, "edges": edges, "loops": loops, "sgs": sgs, "topo": topo})
}

/// FNV-1a, two independent 64-bit lanes, as 32 hex digits (content hash for C42; not security).
pub fn fnv_hex(s: &str) -> String {
    let mut a: u64 = 0xcbf29ce484222325;
    let mut b: u64 = 0x84222325cbf29ce4;
    for &c in s.as_bytes() {
        a ^= c as u64;
        a = a.wrapping_mul(0x100000001b3);
        b ^= (c as u64) ^ 0x5a;
        b = b.wrapping_mul(0x100000001b3).rotate_left(7);
    }
    format!("{:016x}{:016x}", a, b)
}

pub fn diag_summary(d: &Diagnostics) -> Vec<String> {
    d.iter()
        .filter(|x| x.level == Level::Error)
        .map(|x| x.message.clone())
        .collect()
}

/// Parse the `Cycle: [..]` list out of the partitioner's diagnostic message (Debug of Vec<String>).
pub fn parse_cycle_labels(msg: &str) -> Option<Vec<String>> {
    let i = msg.find("Cycle: ")?;
    let rest = msg[i + 7..].trim();
    serde_json::from_str::<Vec<String>>(rest).ok()
}

/// Outcome of building the flat graph.
pub enum Built {
    ParseError(String),
    BuildError(Vec<String>),
    Panic(String),
    Ok(Box<FlatGraphBuilderOutput>),
}

pub fn build_flat(src: &str) -> Built {
    let code = match parse_program(src) {
        Ok(c) => c,
        Err(e) => return Built::ParseError(e),
    };
    match hv_common::catch(move || FlatGraphBuilder::from_dfir(code).build()) {
        Err(p) => Built::Panic(p),
        Ok(Err(d)) => Built::BuildError(diag_summary(&d)),
        Ok(Ok(o)) => Built::Ok(Box::new(o)),
    }
}

pub fn has_adjacent_handoffs(g: &DfirGraph) -> bool {
    g.edges().any(|(_, (s, d))| {
        matches!(g.node(s), GraphNode::Handoff { .. }) && matches!(g.node(d), GraphNode::Handoff { .. })
    })
}

/// Everything the compiler did to one program, stage by stage (mirrors `build_dfir_code`).
pub struct Compiled {
    pub record: Value,
    /// JSON of the partitioned graph (serde, as baked into the generated code) if partitioning succeeded.
    pub graph_json: Option<String>,
    /// Token-stream text of the generated code if code generation succeeded.
    pub code_text: Option<String>,
}

/// Splice module boundaries into a copy of the flat graph (rebuilt from source), run
/// `merge_modules`, and dump the result. `pick(i)` says whether edge number i is routed through
/// the boundary.
pub fn module_roundtrip(src: &str, pick: &mut dyn FnMut(usize) -> bool) -> (Value, String, usize) {
    let Built::Ok(out) = build_flat(src) else {
        return (empty_dump(), "rebuild-failed".to_string(), 0);
    };
    let mut g = out.flat_graph;
    let edges: Vec<_> = g.edges().collect();
    let chosen: Vec<_> = edges
        .iter()
        .enumerate()
        .filter(|(i, _)| pick(*i))
        .map(|(_, e)| *e)
        .collect();
    if chosen.is_empty() {
        return (dump_graph(&g), "none".to_string(), 0);
    }
    let m = g.insert_node(
        GraphNode::ModuleBoundary { input: true, import_expr: proc_macro2::Span::call_site() },
        None,
        None,
    );
    for (k, &(e, (s, d))) in chosen.iter().enumerate() {
        let (sp, dp) = {
            let (a, b) = g.edge_ports(e);
            (a.clone(), b.clone())
        };
        g.remove_edge(e);
        let port: PortIndexValue = syn::parse_str::<dfir_lang::parse::PortIndex>(&k.to_string())
            .unwrap()
            .into();
        g.insert_edge(s, sp, m, port.clone());
        g.insert_edge(m, port, d, dp);
    }
    let n = chosen.len();
    match hv_common::catch(move || {
        let r = g.merge_modules();
        (g, r.is_ok())
    }) {
        Err(p) => (empty_dump(), format!("panic: {}", p), n),
        Ok((g, ok)) => (dump_graph(&g), if ok { "ok".to_string() } else { "err".to_string() }, n),
    }
}

pub fn compile(id: &str, src: &str, with_dumps: bool, modpick: Option<&mut dyn FnMut(usize) -> bool>) -> Compiled {
    let mut rec = json!({
        "e": "prog", "id": id, "stage": "", "msgs": [],
        "G": empty_dump(), "G1": empty_dump(), "P": empty_dump(), "P2": empty_dump(), "GM": empty_dump(),
        "rewrite": "", "verdict": "", "cyc": [], "cycok": false, "refpanic": false, "codegen": "", "serde": "", "serde_diags": 0,
        "mod": "", "modn": 0,
    });
    let mut out = Compiled { record: Value::Null, graph_json: None, code_text: None };
    let built = build_flat(src);
    let fgo = match built {
        Built::ParseError(e) => {
            rec["stage"] = json!("parse-error");
            rec["msgs"] = json!([e]);
            out.record = rec;
            return out;
        }
        Built::BuildError(m) => {
            rec["stage"] = json!("build-error");
            rec["msgs"] = json!(m);
            out.record = rec;
            return out;
        }
        Built::Panic(p) => {
            rec["stage"] = json!("build-panic");
            rec["msgs"] = json!([p]);
            out.record = rec;
            return out;
        }
        Built::Ok(o) => *o,
    };
    let FlatGraphBuilderOutput { mut flat_graph, uses, mut diagnostics } = fgo;
    if with_dumps {
        rec["G"] = dump_graph(&flat_graph);
    }
    if let Some(pick) = modpick {
        let (gm, st, n) = module_roundtrip(src, pick);
        if with_dumps {
            rec["GM"] = gm;
        }
        rec["mod"] = json!(st);
        rec["modn"] = json!(n);
    }
    // merge_modules (no module boundaries can come out of the parser) + unary union/tee removal
    let rw = hv_common::catch(move || {
        let r = flat_graph.merge_modules();
        eliminate_extra_unions_tees(&mut flat_graph);
        (flat_graph, r.is_ok())
    });
    let flat_graph = match rw {
        Err(p) => {
            rec["stage"] = json!("rewrite-panic");
            rec["rewrite"] = json!(format!("panic: {}", p));
            out.record = rec;
            return out;
        }
        Ok((g, ok)) => {
            rec["rewrite"] = json!(if ok { "ok" } else { "merge-modules-error" });
            g
        }
    };
    if with_dumps {
        rec["G1"] = dump_graph(&flat_graph);
    }
    if has_adjacent_handoffs(&flat_graph) {
        rec["stage"] = json!("adjacent-handoffs");
        out.record = rec;
        return out;
    }
    let part = hv_common::catch(move || partition_graph(flat_graph));
    let pg = match part {
        Err(p) => {
            rec["stage"] = json!("partition-panic");
            rec["verdict"] = json!("panic");
            // `find_access_group_ordering` rejects conflicting references of one operator by assert
            // (the repo's compile-fail tests expect exactly this panic message)
            rec["refpanic"] = json!(p.contains("conflicted or cyclical handoff references"));
            rec["msgs"] = json!([p]);
            out.record = rec;
            return out;
        }
        Ok(Err(e)) => {
            let msg = e.diagnostic.message.clone();
            rec["stage"] = json!("partition-error");
            rec["verdict"] = json!("err");
            if let Some(c) = parse_cycle_labels(&msg) {
                rec["cyc"] = json!(c);
                rec["cycok"] = json!(true);
            }
            rec["msgs"] = json!([msg]);
            out.record = rec;
            return out;
        }
        Ok(Ok(pg)) => pg,
    };
    rec["verdict"] = json!("ok");
    if with_dumps {
        rec["P"] = dump_graph(&pg);
    }
    // serde round trip as the runtime does for its meta graph (dfir_rs::scheduled::context::Dfir::new)
    let gj = serde_json::to_string(&pg).unwrap();
    let rt = hv_common::catch(|| {
        let mut g2: DfirGraph = serde_json::from_str(&gj).map_err(|e| e.to_string())?;
        let mut d = Diagnostics::new();
        g2.insert_node_op_insts_all(&mut d);
        Ok::<_, String>((g2, d.len()))
    });
    match rt {
        Err(p) => rec["serde"] = json!(format!("panic: {}", p)),
        Ok(Err(e)) => rec["serde"] = json!(format!("err: {}", e)),
        Ok(Ok((g2, nd))) => {
            rec["serde"] = json!("ok");
            rec["serde_diags"] = json!(nd);
            if with_dumps {
                rec["P2"] = dump_graph(&g2);
            }
        }
    }
    out.graph_json = Some(gj);
    // code generation
    let root = quote::quote! { dfir_rs };
    let cg = hv_common::catch(|| {
        let r = pg.as_code(&root, true, quote::quote! { #( #uses )* }, &mut diagnostics);
        r.map(|ts| ts.to_string()).map_err(|d| diag_summary(&d))
    });
    match cg {
        Err(p) => {
            rec["codegen"] = json!("panic");
            rec["msgs"] = json!([p]);
        }
        Ok(Err(m)) => {
            rec["codegen"] = json!("err");
            rec["msgs"] = json!(m);
        }
        Ok(Ok(text)) => {
            rec["codegen"] = json!("ok");
            out.code_text = Some(text);
        }
    }
    rec["stage"] = json!("done");
    out.record = rec;
    out
}
