//! C17 harness: drives the real dfir_lang::graph::graph_algorithms::{topo_sort, SubgraphMerge}
//! and dfir_lang::union_find::UnionFind and records one "case" line per object with every call and
//! its result (after the call returned; panics are caught and logged).
//!
//!   graph_algo replay <cases.ndjson> <trace.ndjson>   cases = observation records predicted by the TLA+ model
//!   graph_algo random <count> <max_n> <trace.ndjson>  seeded random larger cases
//!
//! stdout: one JSON summary {cases, drift:[..]} (drift = exact result differs from the model's prediction).
use std::collections::HashMap;

use dfir_lang::graph::GraphNodeId;
use dfir_lang::graph::graph_algorithms::{SubgraphMerge, topo_sort};
use dfir_lang::union_find::UnionFind;
use hv_common::{Rng, Trace, Value, json};
use slotmap::SlotMap;

fn pairs(v: &Value) -> Vec<(usize, usize)> {
    v.as_array()
        .map(|a| {
            a.iter()
                .map(|p| (p[0].as_u64().unwrap() as usize, p[1].as_u64().unwrap() as usize))
                .collect()
        })
        .unwrap_or_default()
}

fn keys(n: usize) -> (SlotMap<GraphNodeId, ()>, Vec<GraphNodeId>, HashMap<GraphNodeId, usize>) {
    let mut sm = SlotMap::with_key();
    let mut ks = Vec::new();
    let mut back = HashMap::new();
    for i in 1..=n {
        let k = sm.insert(());
        ks.push(k);
        back.insert(k, i);
    }
    (sm, ks, back)
}

/// topo_sort over plain integers. `preds[x]` is the predecessor list in the order handed to the code.
fn run_topo(case: usize, n: usize, edges: &[(usize, usize)], ids: &[usize], preds: &HashMap<usize, Vec<usize>>) -> Value {
    let r = hv_common::catch(|| {
        topo_sort(ids.iter().copied(), |x| preds.get(&x).cloned().unwrap_or_default())
    });
    match r {
        Err(msg) => json!({"e":"panic","case":case,"mode":"topo","msg":msg}),
        Ok(res) => {
            let (ok, v) = match res {
                Ok(o) => (true, o),
                Err(c) => (false, c),
            };
            json!({"e":"case","case":case,"mode":"topo","n":n,"edges":edges,"ids":ids,"ok":ok,"res":v})
        }
    }
}

fn pred_map(edges: &[(usize, usize)]) -> HashMap<usize, Vec<usize>> {
    // ascending predecessor order, as in the TLA+ model (PredSeq)
    let mut m: HashMap<usize, Vec<usize>> = HashMap::new();
    let mut es = edges.to_vec();
    es.sort();
    for (p, s) in es {
        m.entry(s).or_default().push(p);
    }
    m
}

fn run_merge(
    case: usize,
    n: usize,
    edges: &[(usize, usize)],
    preds: &HashMap<usize, Vec<usize>>,
    enemies: &[(usize, usize)],
    ops: &[(usize, usize)],
    probe: bool,
) -> Value {
    let (_sm, ks, back) = keys(n);
    let r = hv_common::catch(|| {
        let new = SubgraphMerge::new(
            ks.iter().copied(),
            |k| {
                preds
                    .get(&back[&k])
                    .map(|v| v.iter().map(|&p| ks[p - 1]).collect::<Vec<_>>())
                    .unwrap_or_default()
            },
            enemies.iter().map(|&(a, b)| (ks[a - 1], ks[b - 1])),
        );
        let sgs_of = |m: &SubgraphMerge<GraphNodeId>| -> Vec<Vec<usize>> {
            m.subgraphs().map(|s| s.iter().map(|k| back[k]).collect()).collect()
        };
        match new {
            Err(cyc) => {
                let c: Vec<usize> = cyc.iter().map(|k| back[k]).collect();
                json!({"ok": false, "res": c, "sgs0": [], "merges": []})
            }
            Ok(mut m) => {
                let sgs0 = sgs_of(&m);
                let order: Vec<usize> = sgs0.iter().flatten().copied().collect();
                let mut merges = Vec::new();
                for &(u, v) in ops {
                    let ret = m.try_merge(ks[u - 1], ks[v - 1]);
                    let sgs = sgs_of(&m);
                    let reps: Vec<usize> = if probe {
                        (0..n).map(|i| back[&m.find(ks[i])]).collect()
                    } else {
                        Vec::new()
                    };
                    merges.push(json!({"u":u,"v":v,"ret":ret,"sgs":sgs,"reps":reps}));
                }
                json!({"ok": true, "res": order, "sgs0": sgs0, "merges": merges})
            }
        }
    });
    match r {
        Err(msg) => json!({"e":"panic","case":case,"mode":"merge","msg":msg,
                            "n":n,"edges":edges,"enemies":enemies,"ops":ops}),
        Ok(mut v) => {
            let o = v.as_object_mut().unwrap();
            o.insert("e".into(), json!("case"));
            o.insert("case".into(), json!(case));
            o.insert("mode".into(), json!("merge"));
            o.insert("n".into(), json!(n));
            o.insert("edges".into(), json!(edges));
            o.insert("enemies".into(), json!(enemies));
            v
        }
    }
}

fn run_uf(case: usize, n: usize, ops: &[(String, usize, usize)]) -> Value {
    let (_sm, ks, back) = keys(n);
    let r = hv_common::catch(|| {
        let mut uf: UnionFind<GraphNodeId> = UnionFind::new();
        let mut calls = Vec::new();
        for (op, a, b) in ops {
            let ret: usize = match op.as_str() {
                "union" => back[&uf.union(ks[a - 1], ks[b - 1])],
                "find" => back[&uf.find(ks[a - 1])],
                _ => uf.same_set(ks[a - 1], ks[b - 1]) as usize,
            };
            let mut probe = uf.clone();
            let reps: Vec<usize> = (0..n).map(|i| back[&probe.find(ks[i])]).collect();
            calls.push(json!({"op":op,"a":a,"b":b,"ret":ret,"reps":reps}));
        }
        calls
    });
    match r {
        Err(msg) => json!({"e":"panic","case":case,"mode":"uf","msg":msg,"n":n}),
        Ok(calls) => json!({"e":"case","case":case,"mode":"uf","n":n,"calls":calls}),
    }
}

fn main() {
    let args: Vec<String> = std::env::args().collect();
    let mut drift: Vec<Value> = Vec::new();
    let mut cases = 0usize;
    match args.get(1).map(|s| s.as_str()) {
        Some("replay") => {
            let input = hv_common::read_ndjson(&args[2]);
            let mut tr = Trace::create(&args[3]);
            for (i, c) in input.iter().enumerate() {
                let case = i + 1;
                let n = c["n"].as_u64().unwrap() as usize;
                let mode = c["mode"].as_str().unwrap();
                let got = match mode {
                    "topo" => {
                        let edges = pairs(&c["edges"]);
                        let ids: Vec<usize> = serde_json::from_value(c["ids"].clone()).unwrap();
                        run_topo(case, n, &edges, &ids, &pred_map(&edges))
                    }
                    "merge" => {
                        let edges = pairs(&c["edges"]);
                        let enemies = pairs(&c["enemies"]);
                        let ops: Vec<(usize, usize)> = c["merges"]
                            .as_array()
                            .map(|a| a.iter().map(|m| (m["u"].as_u64().unwrap() as usize, m["v"].as_u64().unwrap() as usize)).collect())
                            .unwrap_or_default();
                        run_merge(case, n, &edges, &pred_map(&edges), &enemies, &ops, true)
                    }
                    _ => {
                        let ops: Vec<(String, usize, usize)> = c["calls"]
                            .as_array()
                            .unwrap()
                            .iter()
                            .map(|m| (m["op"].as_str().unwrap().to_string(), m["a"].as_u64().unwrap() as usize, m["b"].as_u64().unwrap() as usize))
                            .collect();
                        run_uf(case, n, &ops)
                    }
                };
                // exact comparison with the implementation-shaped model's prediction (drift only)
                let same = match mode {
                    "topo" => got["ok"] == c["ok"] && got["res"] == c["res"],
                    "merge" => got["ok"] == c["ok"] && got["res"] == c["res"] && got["sgs0"] == c["sgs0"] && got["merges"] == c["merges"],
                    _ => got["calls"] == c["calls"],
                };
                if !same && drift.len() < 50 {
                    drift.push(json!({"case": case, "model": c, "impl": got}));
                }
                tr.ev(got);
                cases += 1;
            }
            tr.ev(json!({"e":"eof"}));
            tr.finish();
        }
        Some("random") => {
            let count: usize = args[2].parse().unwrap();
            let max_n: u64 = args[3].parse().unwrap();
            let mut tr = Trace::create(&args[4]);
            let mut rng = Rng::new(hv_common::seed() ^ 0x6761);
            for i in 0..count {
                let case = i + 1;
                let n = (5 + rng.below(max_n.saturating_sub(4))) as usize;
                // hidden topological order
                let mut perm: Vec<usize> = (1..=n).collect();
                for j in (1..n).rev() {
                    let k = rng.below(j as u64 + 1) as usize;
                    perm.swap(j, k);
                }
                let mut edges: Vec<(usize, usize)> = Vec::new();
                let dens = 1 + rng.below(3);
                for a in 0..n {
                    for b in (a + 1)..n {
                        if rng.chance(dens, 2 * n as u64 / 2 + 2) {
                            edges.push((perm[a], perm[b]));
                        }
                    }
                }
                let cyclic = rng.chance(1, 5);
                if cyclic && n >= 2 {
                    // add a back edge (possibly a self loop for topo)
                    let a = rng.below(n as u64) as usize;
                    let b = rng.below(a as u64 + 1) as usize;
                    edges.push((perm[a], perm[b]));
                }
                // predecessor lists in random order, sometimes with duplicates (multi-edges)
                let mut preds: HashMap<usize, Vec<usize>> = HashMap::new();
                let mut es = edges.clone();
                for j in (1..es.len()).rev() {
                    let k = rng.below(j as u64 + 1) as usize;
                    es.swap(j, k);
                }
                for &(p, s) in &es {
                    preds.entry(s).or_default().push(p);
                    if rng.chance(1, 10) {
                        preds.entry(s).or_default().push(p);
                    }
                }
                edges.sort();
                edges.dedup();
                match i % 3 {
                    0 => {
                        let mut ids: Vec<usize> = (1..=n).collect();
                        for j in (1..n).rev() {
                            let k = rng.below(j as u64 + 1) as usize;
                            ids.swap(j, k);
                        }
                        tr.ev(run_topo(case, n, &edges, &ids, &preds));
                    }
                    1 => {
                        let edges: Vec<(usize, usize)> = edges.iter().copied().filter(|&(a, b)| a != b).collect();
                        for v in preds.values_mut() {
                            // self loops are excluded from the merge cases (they are cyclic `new` cases in topo)
                            let _ = v;
                        }
                        let preds: HashMap<usize, Vec<usize>> = preds
                            .iter()
                            .map(|(&k, v)| (k, v.iter().copied().filter(|&p| p != k).collect()))
                            .collect();
                        let mut enemies = Vec::new();
                        for _ in 0..rng.below(4) {
                            let a = 1 + rng.below(n as u64) as usize;
                            let b = 1 + rng.below(n as u64) as usize;
                            if a != b {
                                enemies.push((a.min(b), a.max(b)));
                            }
                        }
                        enemies.sort();
                        enemies.dedup();
                        let mut ops = Vec::new();
                        for _ in 0..(n + rng.below(n as u64 + 1) as usize) {
                            if !edges.is_empty() && rng.chance(3, 5) {
                                let (a, b) = edges[rng.below(edges.len() as u64) as usize];
                                ops.push(if rng.chance(1, 2) { (a, b) } else { (b, a) });
                            } else {
                                ops.push((1 + rng.below(n as u64) as usize, 1 + rng.below(n as u64) as usize));
                            }
                        }
                        tr.ev(run_merge(case, n, &edges, &preds, &enemies, &ops, case % 2 == 0));
                    }
                    _ => {
                        let mut ops = Vec::new();
                        for _ in 0..(2 * n) {
                            let a = 1 + rng.below(n as u64) as usize;
                            let b = 1 + rng.below(n as u64) as usize;
                            let op = match rng.below(5) {
                                0 | 1 => "union",
                                2 | 3 => "find",
                                _ => "same",
                            };
                            ops.push((op.to_string(), a, if op == "find" { 0 } else { b }));
                        }
                        tr.ev(run_uf(case, n, &ops));
                    }
                }
                cases += 1;
            }
            tr.ev(json!({"e":"eof"}));
            tr.finish();
        }
        _ => {
            eprintln!("usage: graph_algo replay|random ...");
            std::process::exit(2);
        }
    }
    println!("{}", json!({"cases": cases, "drift": drift}));
}
