//! C18/C19/C20/C42 harness: drives the real DFIR graph compiler (FlatGraphBuilder, unary
//! union/tee elimination, merge_modules, partition_graph, serde round trip, as_code) on DFIR
//! source text and records what it did; TLC evaluates Partition.tla / Determinism.tla on the
//! records.
//!
//!   graphc extract <out.ndjson> <file-or-dir>...     collect the bodies of dfir_syntax!/dfir_syntax_noemit!/
//!                                                   dfir_parser! invocations in Rust sources as programs
//!   graphc run <progs.ndjson> <out.ndjson> [mod]     one "prog" record per program with graph dumps
//!   graphc compile <progs.ndjson> <out.ndjson> <proc> <runs>
//!                                                   compile every program <runs> times in this process, log
//!                                                   content hashes of the partitioned-graph JSON and code text
//!   graphc show <progs.ndjson> <id>                  print graph JSON and code text of one program (replay aid)
//!
//! stdout: one JSON summary line.
use std::collections::BTreeMap;
use std::path::{Path, PathBuf};

use hv_common::{Rng, Trace, Value, json};
use hv_graph::{compile, fnv_hex};
use syn::visit::Visit;

struct MacroFinder {
    found: Vec<(String, String, usize)>, // (macro name, tokens, line)
}
impl<'ast> Visit<'ast> for MacroFinder {
    fn visit_macro(&mut self, mac: &'ast syn::Macro) {
        let name = mac
            .path
            .segments
            .last()
            .map(|s| s.ident.to_string())
            .unwrap_or_default();
        if name == "dfir_syntax" || name == "dfir_syntax_noemit" || name == "dfir_parser" {
            let line = mac.path.segments.last().unwrap().ident.span().start().line;
            self.found.push((name, mac.tokens.to_string(), line));
        } else {
            // Look inside other macro invocations whose body parses as a block of statements
            // (e.g. helper macros wrapping a dfir_syntax! call).
            let t = mac.tokens.clone();
            if let Ok(block) = syn::parse2::<syn::Block>(quote::quote! { { #t } }) {
                self.visit_block(&block);
            }
        }
    }
}

fn collect_files(p: &Path, out: &mut Vec<PathBuf>) {
    if p.is_dir() {
        let mut entries: Vec<_> = std::fs::read_dir(p).unwrap().map(|e| e.unwrap().path()).collect();
        entries.sort();
        for e in entries {
            collect_files(&e, out);
        }
    } else if p.extension().is_some_and(|e| e == "rs") {
        out.push(p.to_path_buf());
    }
}

fn cmd_extract(args: &[String]) {
    let mut tr = Trace::create(&args[0]);
    let mut files = Vec::new();
    for a in &args[1..] {
        collect_files(Path::new(a), &mut files);
    }
    let mut n = 0;
    let mut unparsed = Vec::new();
    for f in &files {
        let text = std::fs::read_to_string(f).unwrap();
        let Ok(file) = syn::parse_file(&text) else {
            unparsed.push(f.display().to_string());
            continue;
        };
        let mut mf = MacroFinder { found: Vec::new() };
        mf.visit_file(&file);
        for (name, toks, line) in mf.found {
            n += 1;
            tr.ev(json!({"id": format!("{}:{}", f.display(), line), "macro": name, "src": toks}));
        }
    }
    tr.finish();
    println!("{}", json!({"programs": n, "files": files.len(), "unparsed_files": unparsed}));
}

fn read_programs(path: &str) -> Vec<(String, String)> {
    hv_common::read_ndjson(path)
        .into_iter()
        .map(|v| (v["id"].as_str().unwrap().to_string(), v["src"].as_str().unwrap().to_string()))
        .collect()
}

fn cmd_run(args: &[String]) {
    let progs = read_programs(&args[0]);
    let mut tr = Trace::create(&args[1]);
    let with_mod = args.get(2).is_some_and(|s| s == "mod");
    let mut stages: BTreeMap<String, usize> = BTreeMap::new();
    let mut rng = Rng::new(hv_common::seed() ^ 0x6d6f64);
    for (id, src) in &progs {
        let mut pick = |_i: usize| rng.chance(1, 3);
        let c = if with_mod {
            compile(id, src, true, Some(&mut pick))
        } else {
            compile(id, src, true, None)
        };
        *stages.entry(c.record["stage"].as_str().unwrap().to_string()).or_default() += 1;
        tr.ev(c.record);
    }
    tr.ev(json!({"e":"eof"}));
    tr.finish();
    println!("{}", json!({"programs": progs.len(), "stages": stages}));
}

fn cmd_compile(args: &[String]) {
    let progs = read_programs(&args[0]);
    let mut tr = Trace::create(&args[1]);
    let proc_no: i64 = args[2].parse().unwrap();
    let runs: usize = args[3].parse().unwrap();
    // Perturb the heap layout differently per process (addresses must not influence the output).
    let _ballast: Vec<Vec<u8>> = (0..(proc_no as usize * 37 + 5)).map(|i| vec![0u8; 1000 + 13 * i]).collect();
    let mut n = 0;
    for (id, src) in &progs {
        for run in 1..=runs {
            let c = compile(id, src, false, None);
            let g = c.graph_json.as_deref().map(fnv_hex).unwrap_or_default();
            let k = c.code_text.as_deref().map(fnv_hex).unwrap_or_default();
            tr.ev(json!({"e":"compile","input":id,"proc":proc_no,"run":run,
                         "stage": c.record["stage"], "verdict": c.record["verdict"], "codegen": c.record["codegen"],
                         "graph": g, "code": k,
                         "glen": c.graph_json.as_ref().map(|s| s.len()).unwrap_or(0),
                         "clen": c.code_text.as_ref().map(|s| s.len()).unwrap_or(0)}));
            n += 1;
        }
    }
    tr.finish();
    println!("{}", json!({"programs": progs.len(), "compiles": n}));
}

fn cmd_show(args: &[String]) {
    let progs = read_programs(&args[0]);
    for (id, src) in &progs {
        if id == &args[1] {
            let c = compile(id, src, true, None);
            println!("{}", serde_json::to_string_pretty(&c.record).unwrap());
            println!("--- graph json\n{}", c.graph_json.unwrap_or_default());
            println!("--- code\n{}", c.code_text.unwrap_or_default());
        }
    }
}

fn main() {
    let args: Vec<String> = std::env::args().collect();
    let _: Option<Value> = None;
    match args.get(1).map(|s| s.as_str()) {
        Some("extract") => cmd_extract(&args[2..]),
        Some("run") => cmd_run(&args[2..]),
        Some("compile") => cmd_compile(&args[2..]),
        Some("show") => cmd_show(&args[2..]),
        _ => {
            eprintln!("usage: graphc extract|run|compile|show ...");
            std::process::exit(2);
        }
    }
}
