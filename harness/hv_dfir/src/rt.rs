//! Runtime glue of the generated programs: value <-> JSON conversion, tagged sink log,
//! typed senders, and the driver that executes one input history and records what happened.
use std::cell::RefCell;
use std::rc::Rc;

use dfir_rs::scheduled::context::{Dfir, TickClosure};
use hv_common::{Trace, Value, json};

pub trait ToV {
    fn to_v(&self) -> Value;
}
macro_rules! tov_int { ($($t:ty),*) => { $( impl ToV for $t { fn to_v(&self) -> Value { json!(*self as i64) } } )* } }
tov_int!(i64, i32, u32, u64, usize);
impl ToV for bool {
    fn to_v(&self) -> Value { json!(*self) }
}
impl ToV for () {
    fn to_v(&self) -> Value { json!([]) }
}
impl<A: ToV, B: ToV> ToV for (A, B) {
    fn to_v(&self) -> Value { Value::Array(vec![self.0.to_v(), self.1.to_v()]) }
}
impl<T: ToV> ToV for Vec<T> {
    fn to_v(&self) -> Value { Value::Array(self.iter().map(|x| x.to_v()).collect()) }
}
impl<T: ToV> ToV for Option<T> {
    fn to_v(&self) -> Value { Value::Array(self.iter().map(|x| x.to_v()).collect()) }
}
impl<T: ToV> ToV for &T {
    fn to_v(&self) -> Value { (*self).to_v() }
}

pub trait FromV: Sized {
    fn from_v(v: &Value) -> Self;
}
impl FromV for i64 {
    fn from_v(v: &Value) -> Self { v.as_i64().expect("int item") }
}
impl<A: FromV, B: FromV> FromV for (A, B) {
    fn from_v(v: &Value) -> Self {
        let a = v.as_array().expect("pair item");
        (A::from_v(&a[0]), B::from_v(&a[1]))
    }
}

/// (sink number, tick in which the item was observed, item)
pub type Log = Rc<RefCell<Vec<(usize, u64, Value)>>>;
pub fn new_log() -> Log { Rc::new(RefCell::new(Vec::new())) }

thread_local! {
    /// tick number beyond which a sink panics ("runaway"): one call must not run > RUNAWAY ticks
    static TICK_LIMIT: std::cell::Cell<u64> = const { std::cell::Cell::new(u64::MAX) };
}
pub const RUNAWAY: u64 = 30;
/// unix-millis deadline of the step in progress (0 = none), watched by `start_watchdog`
pub static DEADLINE_MS: std::sync::atomic::AtomicU64 = std::sync::atomic::AtomicU64::new(0);
pub static CURRENT_PROG: std::sync::atomic::AtomicU64 = std::sync::atomic::AtomicU64::new(0);

fn now_ms() -> u64 {
    std::time::SystemTime::now().duration_since(std::time::UNIX_EPOCH).unwrap().as_millis() as u64
}

/// A call that neither returns nor reaches a sink cannot be interrupted from inside: abort the
/// process (exit code 4, a tool error for the driver) and name the program.
pub fn start_watchdog(limit_ms: u64) {
    std::thread::spawn(move || loop {
        std::thread::sleep(std::time::Duration::from_millis(250));
        let d = DEADLINE_MS.load(std::sync::atomic::Ordering::Relaxed);
        if d != 0 && now_ms() > d + limit_ms {
            eprintln!("WATCHDOG: program {} did not return from a run call within {} ms",
                      CURRENT_PROG.load(std::sync::atomic::Ordering::Relaxed), limit_ms);
            std::process::exit(4);
        }
    });
}

thread_local! {
    static TICKS_THIS_CALL: std::cell::Cell<u64> = const { std::cell::Cell::new(0) };
}
/// Installed as dfir_rs' `verif_hooks` controller (cfg hydro_verif yield points of the run loop):
/// counts the ticks of the current run call and turns a run_available that does not stop into a
/// panic (caught and logged as data) instead of a hang.
pub fn install_tick_guard() {
    dfir_rs::scheduled::context::verif_hooks::set(Some(std::sync::Arc::new(|point: &'static str| {
        if point == "tick_swapped" {
            let n = TICKS_THIS_CALL.with(|c| {
                c.set(c.get() + 1);
                c.get()
            });
            if n > RUNAWAY {
                panic!("runaway");
            }
        }
    })));
}

/// Called by every generated sink closure.
pub fn sink<T: ToV>(log: &Log, k: usize, tick: u64, x: &T) {
    if tick > TICK_LIMIT.with(|c| c.get()) {
        panic!("runaway");
    }
    log.borrow_mut().push((k, tick, x.to_v()));
}

pub type Sender = Box<dyn Fn(&Value)>;
pub fn sender<T: FromV + 'static>(tx: tokio::sync::mpsc::UnboundedSender<T>) -> Sender {
    Box::new(move |v| tx.send(T::from_v(v)).expect("send"))
}

pub trait Runner {
    fn tick(&mut self) -> bool;
    fn avail(&mut self);
    fn now(&self) -> u64;
}
impl<T: TickClosure> Runner for Dfir<T> {
    fn tick(&mut self) -> bool { self.run_tick_sync() }
    fn avail(&mut self) { self.run_available_sync() }
    fn now(&self) -> u64 { self.current_tick().0 as u64 }
}

/// Execute the steps of one history: send the inputs, run one tick / run until idle, record the
/// tick counter before and after and every sink's outputs grouped by the tick they occurred in.
pub fn drive(df: &mut dyn Runner, senders: &[Sender], log: &Log, nsink: usize, steps: &Value, out: &mut Trace) {
    for step in steps.as_array().expect("steps") {
        let mode = step["mode"].as_str().unwrap();
        let inputs = step["inputs"].as_array().unwrap();
        for (k, items) in inputs.iter().enumerate() {
            for it in items.as_array().unwrap() {
                (senders[k])(it);
            }
        }
        let tb = df.now();
        log.borrow_mut().clear();
        TICK_LIMIT.with(|c| c.set(tb + RUNAWAY));
        TICKS_THIS_CALL.with(|c| c.set(0));
        DEADLINE_MS.store(now_ms(), std::sync::atomic::Ordering::Relaxed);
        let r = hv_common::catch(|| if mode == "tick" { df.tick() } else { df.avail(); true });
        DEADLINE_MS.store(0, std::sync::atomic::Ordering::Relaxed);
        match r {
            Err(msg) => {
                out.ev(json!({"e": "panic", "msg": msg, "mode": mode, "inputs": inputs}));
                return; // the instance is unusable after a panic
            }
            Ok(ret) => {
                let ta = df.now();
                // number of ticks actually executed by this call, counted at dfir_rs' own
                // `tick_swapped` yield point -- independent of the tick counter
                let n = TICKS_THIS_CALL.with(|c| c.get()) as usize;
                let mut ticks: Vec<Vec<Vec<Value>>> = vec![vec![Vec::new(); nsink]; n.max(1)];
                let mut stray = 0usize;
                for (k, t, v) in log.borrow_mut().drain(..) {
                    let i = t.wrapping_sub(tb) as usize;
                    if i < ticks.len() && k >= 1 && k <= nsink {
                        ticks[i][k - 1].push(v);
                    } else {
                        stray += 1;
                    }
                }
                if n == 0 {
                    ticks.clear();
                }
                let mut ev = json!({"e": "step", "mode": mode, "inputs": inputs, "tb": tb, "ta": ta, "nticks": n,
                                    "ret": ret, "stray": stray, "ticks": ticks});
                // calibration histories carry the outputs asserted by the repository's own tests
                if let Some(exp) = step.get("ticks") {
                    ev["expect"] = exp.clone();
                }
                out.ev(ev);
            }
        }
    }
}
