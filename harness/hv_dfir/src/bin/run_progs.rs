//! run_progs <progs.json> <hist.json> <trace.ndjson> [only_id]
//! Executes every input history of every generated program against the REAL dfir_rs runtime
//! (programs built with dfir_syntax! in hv_dfir::gen_progs) and records, per step, the tick
//! counter before/after and every sink's outputs grouped by tick.  No verdicts here: TLC
//! validates the trace against spec/DfirTick.
use hv_common::{Trace, Value, json};

fn main() {
    let args: Vec<String> = std::env::args().collect();
    if args.len() < 4 {
        eprintln!("usage: run_progs <progs.json> <hist.json> <trace.ndjson> [only_id]");
        std::process::exit(2);
    }
    let progs: Value = serde_json::from_str(&std::fs::read_to_string(&args[1]).expect("progs")).expect("progs json");
    let hists: Value = serde_json::from_str(&std::fs::read_to_string(&args[2]).expect("hist")).expect("hist json");
    let only: Option<u64> = args.get(4).and_then(|s| s.parse().ok());
    let mut out = Trace::create(&args[3]);
    hv_dfir::rt::start_watchdog(30_000);
    hv_dfir::rt::install_tick_guard();
    let mut nprog = 0usize;
    let mut nhist = 0usize;
    let mut nsteps = 0usize;
    for p in progs.as_array().expect("progs array") {
        let id = p["id"].as_u64().unwrap();
        if only.is_some() && only != Some(id) {
            continue;
        }
        nprog += 1;
        let hs = &hists[id.to_string()];
        for (hi, steps) in hs.as_array().expect("histories").iter().enumerate() {
            nhist += 1;
            nsteps += steps.as_array().unwrap().len();
            // expected outputs (calibration programs only) travel with the steps
            out.ev(json!({"e": "prog", "id": id, "h": hi + 1, "desc": p["desc"]}));
            hv_dfir::rt::CURRENT_PROG.store(id, std::sync::atomic::Ordering::Relaxed);
            let before = out.lines;
            let mut found = hv_dfir::gen_progs::run(id as u32, steps, &mut out);
            #[cfg(feature = "progs_x")]
            if !found {
                found = hv_dfir::gen_progs_x::run(id as u32, steps, &mut out);
            }
            if !found {
                eprintln!("program {} is not in this build of gen_progs.rs (stale build?)", id);
                std::process::exit(3);
            }
            let _ = before;
        }
    }
    out.ev(json!({"e": "eof"}));
    out.finish();
    println!("{}", json!({"programs": nprog, "histories": nhist, "steps": nsteps}));
}
