//! compile_check <progs.json> <out.json>
//! Compile verdict of every generated program text through dfir_lang's library API
//! (parse -> flat graph -> partition -> as_code), without rustc.  C22: a base program and all
//! its shape-perturbed variants must have the same verdict.
use hv_common::{Value, json};

fn main() {
    let args: Vec<String> = std::env::args().collect();
    let progs: Value = serde_json::from_str(&std::fs::read_to_string(&args[1]).expect("progs")).expect("json");
    let mut out = Vec::new();
    for p in progs.as_array().unwrap() {
        let text = p["text"].as_str().unwrap();
        let verdict = hv_common::catch(|| {
            let code: dfir_lang::parse::DfirCode = match syn::parse_str(text) {
                Ok(c) => c,
                Err(e) => return json!({"ok": false, "stage": "parse", "msg": e.to_string()}),
            };
            match dfir_lang::graph::build_dfir_code(code, &quote::quote!(dfir_rs)) {
                Ok(o) => json!({"ok": true, "subgraphs": o.partitioned_graph.subgraph_ids().count(),
                                "warnings": o.diagnostics.iter().count()}),
                Err(d) => json!({"ok": false, "stage": "build",
                                 "msg": d.iter().map(|x| x.to_string()).collect::<Vec<_>>().join(" | ")}),
            }
        });
        let v = match verdict {
            Ok(v) => v,
            Err(m) => json!({"ok": false, "stage": "panic", "msg": m}),
        };
        out.push(json!({"id": p["id"], "base": p["base"], "variant": p["variant"], "verdict": v}));
    }
    std::fs::write(&args[2], serde_json::to_string(&out).unwrap()).unwrap();
    println!("{}", json!({"programs": out.len(), "ok": out.iter().filter(|x| x["verdict"]["ok"] == true).count()}));
}
