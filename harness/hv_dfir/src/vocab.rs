//! The CLOSED closure vocabulary of the DfirTick family. Every function here is defined
//! identically (by name) in spec/DfirTick/DfirTick.tla (MapFn, PredFn, FlatFn, OptFn, AccInit,
//! AccStep, RedStep, ScanStep, SortKey). Integer modulo / division are floor based.
#![allow(clippy::ptr_arg)]

pub type I = i64;

// ---- map
pub fn inc(x: I) -> I { x + 1 }
pub fn dbl(x: I) -> I { 2 * x }
pub fn mod3(x: I) -> I { x.rem_euclid(3) }
pub fn id<T>(x: T) -> T { x }
pub fn key_mod2(x: I) -> (I, I) { (x.rem_euclid(2), x) }
pub fn key_mod3(x: I) -> (I, I) { (x.rem_euclid(3), x) }
pub fn pair_self(x: I) -> (I, I) { (x, x) }
pub fn fst<A, B>(p: (A, B)) -> A { p.0 }
pub fn snd<A, B>(p: (A, B)) -> B { p.1 }
pub fn swap<A, B>(p: (A, B)) -> (B, A) { (p.1, p.0) }
pub fn sum_pair(p: (I, I)) -> I { p.0 + p.1 }
pub fn val_inc(p: (I, I)) -> (I, I) { (p.0, p.1 + 1) }
pub fn join_sum(p: (I, (I, I))) -> (I, I) { (p.0, p.1.0 + p.1.1) }
pub fn join_right(p: (I, (I, I))) -> I { p.1.1 }
pub fn mul10(x: I) -> I { 10 * x }
pub fn add10(x: I) -> I { x + 10 }
/// enumerate yields (index, item) with an inferred integer index type
pub fn enum_fix<T>(p: (i32, T)) -> (I, T) { (p.0 as I, p.1) }

// ---- filter
pub fn is_even(x: &I) -> bool { x.rem_euclid(2) == 0 }
pub fn lt3(x: &I) -> bool { *x < 3 }
pub fn lt6(x: &I) -> bool { *x < 6 }
pub fn eq3(x: &I) -> bool { *x == 3 }
pub fn eq13(x: &I) -> bool { *x == 13 }
pub fn lt100(x: &I) -> bool { *x < 100 }
pub fn gt1(x: &I) -> bool { *x > 1 }
pub fn key_even(p: &(I, I)) -> bool { p.0.rem_euclid(2) == 0 }
pub fn val_lt3(p: &(I, I)) -> bool { p.1 < 3 }
pub fn r#true<T>(_x: &T) -> bool { true }

// ---- flat_map
pub fn dup(x: I) -> Vec<I> { vec![x, x + 10] }
pub fn rep_mod3(x: I) -> Vec<I> { (0..x.rem_euclid(3)).map(|_| x).collect() }
pub fn pair_flat(p: (I, I)) -> Vec<I> { vec![p.0, p.1] }

// ---- filter_map
pub fn half_even(x: I) -> Option<I> { if x.rem_euclid(2) == 0 { Some(x.div_euclid(2)) } else { None } }
pub fn dec_pos(x: I) -> Option<I> { if x > 0 { Some(x - 1) } else { None } }

// ---- fold / fold_keyed accumulators: <name>_init, <name>_acc
pub fn sum_init() -> I { 0 }
pub fn sum_acc(a: &mut I, x: I) { *a += x }
pub fn max_init() -> I { 0 }
pub fn max_acc(a: &mut I, x: I) { *a = (*a).max(x) }
pub fn count_init() -> I { 0 }
pub fn count_acc<T>(a: &mut I, _x: T) { *a += 1 }
pub fn push_init() -> Vec<I> { Vec::new() }
pub fn push_acc(a: &mut Vec<I>, x: I) { a.push(x) }
pub fn sum_snd_init() -> I { 0 }
pub fn sum_snd_acc(a: &mut I, x: (I, I)) { *a += x.1 }

// ---- reduce / reduce_keyed: <name>_red
pub fn sum_red(a: &mut I, x: I) { *a += x }
pub fn max_red(a: &mut I, x: I) { *a = (*a).max(x) }
pub fn min_red(a: &mut I, x: I) { *a = (*a).min(x) }

// ---- scan: init is <fold name>_init
pub fn running_sum(a: &mut I, x: I) -> Option<I> { *a += x; Some(*a) }
pub fn sum_until_10(a: &mut I, x: I) -> Option<I> { if *a + x > 10 { None } else { *a += x; Some(*a) } }

// ---- sort_by_key
pub fn key_id(x: &I) -> &I { x }
pub fn key_fst(p: &(I, I)) -> &I { &p.0 }
pub fn key_snd(p: &(I, I)) -> &I { &p.1 }

// ---- partition (predicate name from the filter vocabulary; port 0 = true, port 1 = false)
pub fn part<T>(pred: fn(&T) -> bool) -> impl Fn(&T, usize) -> usize { move |x, _n| if pred(x) { 0 } else { 1 } }

// ---- lattice wrappers (identities in the model)
pub type MaxU = dfir_rs::lattices::Max<u64>;
pub type MinU = dfir_rs::lattices::Min<u64>;
pub type SetI = dfir_rs::lattices::set_union::SetUnionHashSet<I>;
pub fn to_max(x: I) -> MaxU { MaxU::new(x as u64) }
pub fn from_max(m: MaxU) -> I { m.into_reveal() as I }
pub fn kv_to_max(p: (I, I)) -> (I, MaxU) { (p.0, MaxU::new(p.1 as u64)) }
pub fn kv_to_min(p: (I, I)) -> (I, MinU) { (p.0, MinU::new(p.1 as u64)) }
/// state_by mapping: item -> singleton set
pub fn single(x: I) -> dfir_rs::lattices::set_union::SetUnionSingletonSet<I> {
    dfir_rs::lattices::set_union::SetUnionSingletonSet::new_from(x)
}
pub fn set_sorted(s: SetI) -> Vec<I> {
    let mut v: Vec<I> = s.into_reveal().into_iter().collect();
    v.sort();
    v
}

// ---- zip_longest: Both(a,b) -> (0,(a,b)), Left(a) -> (1,(a,-1)), Right(b) -> (2,(-1,b))
pub fn eob(e: dfir_rs::itertools::EitherOrBoth<I, I>) -> (I, (I, I)) {
    use dfir_rs::itertools::EitherOrBoth::*;
    match e {
        Both(a, b) => (0, (a, b)),
        Left(a) => (1, (a, -1)),
        Right(b) => (2, (-1, b)),
    }
}

// ---- demux_enum
#[derive(dfir_rs::DemuxEnum)]
pub enum Cls {
    Even(I),
    Odd(I),
}
pub fn classify(x: I) -> Cls { if x.rem_euclid(2) == 0 { Cls::Even(x) } else { Cls::Odd(x) } }
pub fn untup<T>(t: (T,)) -> T { t.0 }

// ---- lattice_bimorphism (cartesian product of set unions) / resolve_futures
pub type SingleI = dfir_rs::lattices::set_union::SetUnionSingletonSet<I>;
pub fn pairs_sorted(s: dfir_rs::lattices::set_union::SetUnionHashSet<(I, I)>) -> Vec<(I, I)> {
    let mut v: Vec<(I, I)> = s.into_reveal().into_iter().collect();
    v.sort();
    v
}
pub fn ready_fut(x: I) -> std::future::Ready<I> { std::future::ready(x) }
