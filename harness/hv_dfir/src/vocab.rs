//! The CLOSED closure vocabulary of the DfirTick family. Every function here is defined
//! identically (by name) in spec/DfirTick/DfirTick.tla (MapFn, PredFn, FlatFn, OptFn, AccInit,
//! AccStep, RedStep, ScanStep, SortKey). Integer modulo / division are floor based.
#![allow(clippy::ptr_arg)]

pub type I = i64;

// ---- map
pub fn inc(x: I) -> I { x + 1 }
pub fn dbl(x: I) -> I { 2 * x }
pub fn mod3(x: I) -> I { x.rem_euclid(3) }
pub fn id<T>(x: T) -> T { x }
pub fn key_mod2(x: I) -> (I, I) { (x.rem_euclid(2), x) }
pub fn key_mod3(x: I) -> (I, I) { (x.rem_euclid(3), x) }
pub fn pair_self(x: I) -> (I, I) { (x, x) }
pub fn fst<A, B>(p: (A, B)) -> A { p.0 }
pub fn snd<A, B>(p: (A, B)) -> B { p.1 }
pub fn swap<A, B>(p: (A, B)) -> (B, A) { (p.1, p.0) }
pub fn sum_pair(p: (I, I)) -> I { p.0 + p.1 }
pub fn val_inc(p: (I, I)) -> (I, I) { (p.0, p.1 + 1) }
pub fn join_sum(p: (I, (I, I))) -> (I, I) { (p.0, p.1.0 + p.1.1) }
pub fn join_right(p: (I, (I, I))) -> I { p.1.1 }
pub fn mul10(x: I) -> I { 10 * x }
/// enumerate yields (index, item) with an inferred integer index type
pub fn enum_fix<T>(p: (i32, T)) -> (I, T) { (p.0 as I, p.1) }

// ---- filter
pub fn is_even(x: &I) -> bool { x.rem_euclid(2) == 0 }
pub fn lt3(x: &I) -> bool { *x < 3 }
pub fn lt6(x: &I) -> bool { *x < 6 }
pub fn lt100(x: &I) -> bool { *x < 100 }
pub fn gt1(x: &I) -> bool { *x > 1 }
pub fn key_even(p: &(I, I)) -> bool { p.0.rem_euclid(2) == 0 }
pub fn val_lt3(p: &(I, I)) -> bool { p.1 < 3 }
pub fn r#true<T>(_x: &T) -> bool { true }

// ---- flat_map
pub fn dup(x: I) -> Vec<I> { vec![x, x + 10] }
pub fn rep_mod3(x: I) -> Vec<I> { (0..x.rem_euclid(3)).map(|_| x).collect() }
pub fn pair_flat(p: (I, I)) -> Vec<I> { vec![p.0, p.1] }

// ---- filter_map
pub fn half_even(x: I) -> Option<I> { if x.rem_euclid(2) == 0 { Some(x.div_euclid(2)) } else { None } }
pub fn dec_pos(x: I) -> Option<I> { if x > 0 { Some(x - 1) } else { None } }

// ---- fold / fold_keyed accumulators: <name>_init, <name>_acc
pub fn sum_init() -> I { 0 }
pub fn sum_acc(a: &mut I, x: I) { *a += x }
pub fn max_init() -> I { 0 }
pub fn max_acc(a: &mut I, x: I) { *a = (*a).max(x) }
pub fn count_init() -> I { 0 }
pub fn count_acc<T>(a: &mut I, _x: T) { *a += 1 }
pub fn push_init() -> Vec<I> { Vec::new() }
pub fn push_acc(a: &mut Vec<I>, x: I) { a.push(x) }
pub fn sum_snd_init() -> I { 0 }
pub fn sum_snd_acc(a: &mut I, x: (I, I)) { *a += x.1 }

// ---- reduce / reduce_keyed: <name>_red
pub fn sum_red(a: &mut I, x: I) { *a += x }
pub fn max_red(a: &mut I, x: I) { *a = (*a).max(x) }
pub fn min_red(a: &mut I, x: I) { *a = (*a).min(x) }

// ---- scan: init is <fold name>_init
pub fn running_sum(a: &mut I, x: I) -> Option<I> { *a += x; Some(*a) }
pub fn sum_until_10(a: &mut I, x: I) -> Option<I> { if *a + x > 10 { None } else { *a += x; Some(*a) } }

// ---- sort_by_key
pub fn key_id(x: &I) -> &I { x }
pub fn key_fst(p: &(I, I)) -> &I { &p.0 }
pub fn key_snd(p: &(I, I)) -> &I { &p.1 }

// ---- partition (predicate name from the filter vocabulary; port 0 = true, port 1 = false)
pub fn part<T>(pred: fn(&T) -> bool) -> impl Fn(&T, usize) -> usize { move |x, _n| if pred(x) { 0 } else { 1 } }
