#!/bin/sh
# Build the conformance harness offline from files on disk (path deps on /repo) and smoke-test TLC.
# Each check rebuilds what it needs itself; this only pre-warms the build so quick checks are fast.
cd "$(dirname "$0")"
export CARGO_NET_OFFLINE=true
mkdir -p runs evidence
rc=0
for ws in harness harness_hydro; do
  ls $ws/hv_* >/dev/null 2>&1 || continue
  [ -f $ws/Cargo.lock ] || cp "${VERIF_REPO:-/repo}/Cargo.lock" $ws/Cargo.lock
  if ! (cd $ws && cargo build --offline --release --workspace 2>&1 | tail -3); then
    echo "WARNING: workspace $ws did not build completely" ; rc=0
  fi
done
(cd spec/MergeSource && timeout 300 tlc -workers 4 -metadir ../../runs/setup_tlc -cleanup -noGenerateSpecTE -config MergeSourceImpl.cfg MergeSourceImpl.tla | grep -E "No error|Error" ) || rc=1
echo "setup done rc=$rc"
exit $rc
