#!/bin/sh
# Build the conformance harness offline from files on disk (path deps on /repo) and smoke-test TLC.
set -e
cd "$(dirname "$0")"
export CARGO_NET_OFFLINE=true
mkdir -p runs evidence
[ -f harness/Cargo.lock ] || cp "${VERIF_REPO:-/repo}/Cargo.lock" harness/Cargo.lock
(cd harness && cargo build --offline --release --workspace 2>&1 | tail -3)
if ls harness_hydro/hv_* >/dev/null 2>&1; then [ -f harness_hydro/Cargo.lock ] || cp "${VERIF_REPO:-/repo}/Cargo.lock" harness_hydro/Cargo.lock; (cd harness_hydro && cargo build --offline --release --workspace 2>&1 | tail -3); fi
(cd spec/MergeSource && timeout 300 tlc -workers 4 -metadir ../../runs/setup_tlc -cleanup -noGenerateSpecTE -config MergeSourceImpl.cfg MergeSourceImpl.tla | grep -E "No error|Error" )
echo "setup ok"
