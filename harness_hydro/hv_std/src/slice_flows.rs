//! C31: a corpus of `sliced!` programs whose outputs expose what every hook of a slice
//! execution observed.
//!   p1  use::batch + use::state (singleton): per slice (batch, state before, state after)
//!   p2  two use::batch hooks + one use::snapshot hook + a slice counter (use::state); every
//!       hook reports separately, tagged with the slice counter
//!   p3  use::batch + use::state_null (stream carried over): per slice everything seen so far
//!   p0  NEGATIVE CONTROL: p1 whose body forgets to assign the new total to the state -- the
//!       check requires TLC to flag "slice-state-not-carried-over" on its recorded runs
pub mod sim {
    use hydro_lang::live_collections::stream::{ExactlyOnce, TotalOrder};
    use hydro_lang::prelude::*;
    use hydro_lang::sim::{SimReceiver, SimSender};

    type In = SimSender<u32, TotalOrder, ExactlyOnce>;

    pub struct P1 {
        pub input: In,
        /// (batch, state before, state after)
        pub out: SimReceiver<(Vec<u32>, u32, u32), TotalOrder, ExactlyOnce>,
    }

    pub struct P2 {
        pub a: In,
        pub b: In,
        pub c: In,
        /// (batch of a, slice counter)
        pub ha: SimReceiver<(Vec<u32>, u32), TotalOrder, ExactlyOnce>,
        /// (batch of b, slice counter)
        pub hb: SimReceiver<(Vec<u32>, u32), TotalOrder, ExactlyOnce>,
        /// (snapshot of count(c), slice counter)
        pub hs: SimReceiver<(usize, u32), TotalOrder, ExactlyOnce>,
    }

    pub struct P3 {
        pub input: In,
        /// everything carried over plus the current batch
        pub out: SimReceiver<Vec<u32>, TotalOrder, ExactlyOnce>,
    }

    pub fn build<'a>(flow: &mut FlowBuilder<'a>) -> (P1, P2, P3, P1) {
        let node = flow.process::<()>();

        let (input, stream) = node.sim_input::<u32, TotalOrder, ExactlyOnce>();
        let out = sliced! {
            let batch = use::batch(stream, nondet!(/** harness: any batching */));
            let mut total = use::state(|l| l.singleton(q!(0u32)));

            let items = batch.clone().fold(q!(|| Vec::<u32>::new()), q!(|acc, x| acc.push(x)));
            let before = total.clone();
            let after = total.zip(batch.count()).map(q!(|(old, add)| old + add as u32));
            total = after.clone();
            items.zip(before).zip(after).map(q!(|((i, b), a)| (i, b, a))).into_stream()
        };
        let p1 = P1 { input, out: out.sim_output() };

        let (a, sa) = node.sim_input::<u32, TotalOrder, ExactlyOnce>();
        let (b, sb) = node.sim_input::<u32, TotalOrder, ExactlyOnce>();
        let (c, sc) = node.sim_input::<u32, TotalOrder, ExactlyOnce>();
        let c_count = sc.count();
        let (ha, hb, hs) = sliced! {
            let ba = use::batch(sa, nondet!(/** harness: any batching */));
            let bb = use::batch(sb, nondet!(/** harness: any batching */));
            let snap = use::snapshot(c_count, nondet!(/** harness: any version */));
            let mut idx = use::state(|l| l.singleton(q!(0u32)));

            let cur = idx.clone();
            idx = cur.clone().map(q!(|i| i + 1));
            let va = ba.fold(q!(|| Vec::<u32>::new()), q!(|acc, x| acc.push(x)))
                .zip(cur.clone()).into_stream();
            let vb = bb.fold(q!(|| Vec::<u32>::new()), q!(|acc, x| acc.push(x)))
                .zip(cur.clone()).into_stream();
            let vs = snap.zip(cur).into_stream();
            (va, vb, vs)
        };
        let p2 = P2 { a, b, c, ha: ha.sim_output(), hb: hb.sim_output(), hs: hs.sim_output() };

        let (input, stream) = node.sim_input::<u32, TotalOrder, ExactlyOnce>();
        let out = sliced! {
            let batch = use::batch(stream, nondet!(/** harness: any batching */));
            let mut held = use::state_null::<Stream<u32, Tick<_>, Bounded, TotalOrder>>();

            let all = held.chain(batch);
            held = all.clone();
            all.fold(q!(|| Vec::<u32>::new()), q!(|acc, x| acc.push(x))).into_stream()
        };
        let p3 = P3 { input, out: out.sim_output() };

        let (input, stream) = node.sim_input::<u32, TotalOrder, ExactlyOnce>();
        let out = sliced! {
            let batch = use::batch(stream, nondet!(/** harness: any batching */));
            let mut total = use::state(|l| l.singleton(q!(0u32)));

            let items = batch.clone().fold(q!(|| Vec::<u32>::new()), q!(|acc, x| acc.push(x)));
            let before = total.clone();
            let after = total.clone().zip(batch.count()).map(q!(|(old, add)| old + add as u32));
            // (the assignment `total = after.clone();` is missing)
            items.zip(before).zip(after).map(q!(|((i, b), a)| (i, b, a))).into_stream()
        };
        let p0 = P1 { input, out: out.sim_output() };

        (p1, p2, p3, p0)
    }
}
