//! hv_std: sim-driven conformance harness for Hydro-level properties
//! C39 (quorum / request-response), C35 (network fidelity), C31 (slices), C34 (atomic).
//! The flows live in this library (their `q!` closures must be reachable through the
//! stageleft `__staged` module from the simulator's generated dylib); the bins only drive
//! `flow.sim()` and record what happened as ndjson for TLC.
#[cfg(stageleft_runtime)]
hydro_lang::setup!();

pub mod atomic_flows;
pub mod net_flows;
pub mod quorum_flows;
pub mod selftest_mutants;
pub mod slice_flows;
