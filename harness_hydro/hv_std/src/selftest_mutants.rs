//! SELF-TEST ONLY -- never used by `./check` unless HV_MUTANT is set.
//! Mutated copies of `hydro_std::quorum::{collect_quorum, collect_quorum_with_response}` and
//! `hydro_std::request_response::join_responses` (hydro_std is too heavy to mutate in a sandbox
//! build, BUILDING.md rule 8), so that the detection power of the C39 family can be measured on
//! real simulator runs:  HV_MUTANT=<n> VERIF_NOCACHE=1 ./check C39   must print VIOLATION.
//!   1  collect_quorum: the `filter_not_in(min_but_not_max)` guard is dropped (dropped branch)
//!   2  collect_quorum: error responses are counted as successes (swapped counter)
//!   3  collect_quorum_with_response, min == max: `not_all` keeps the released responses
//!      (forgotten anti_join) -- only visible when a later slice runs
//!   4  collect_quorum_with_response: quorum test `success > min` (off by one)
//!   5  join_responses: `remaining_to_join` forgets the metadata that was already waiting
use std::hash::Hash;

use hydro_lang::live_collections::stream::{NoOrder, Ordering};
use hydro_lang::location::{Location, MemberId};
use hydro_lang::prelude::*;

pub fn collect_quorum_mut<'a, L: Location<'a>, Order: Ordering, K: Clone + Eq + Hash, E: Clone>(
    mutant: u32,
    responses: Stream<(K, Result<(), E>), L, Unbounded, Order>,
    min: usize,
    max: usize,
) -> (
    Stream<K, L, Unbounded, NoOrder>,
    Stream<(K, E), L, Unbounded, Order>,
) {
    let count_errors_as_ok: usize = if mutant == 2 { 1 } else { 0 };
    let just_reached_quorum = sliced! {
        let new_inputs = use::batch(responses.clone(), nondet!(/** as in hydro_std */));

        let mut not_all = use::state_null::<Stream<_, _, Bounded, Order>>();
        let mut min_but_not_max = use::state_null::<Stream<K, _, Bounded, NoOrder>>();

        let current_responses = not_all.chain(new_inputs);

        let count_per_key = current_responses.clone().into_keyed().fold(
            q!(move || (0, 0)),
            q!(move |accum, value| {
                if value.is_ok() || count_errors_as_ok == 1 {
                    accum.0 += 1;
                } else {
                    accum.1 += 1;
                }
            }, commutative = manual_proof!(/** increment counters is commutative */)),
        );

        let reached_min_count = count_per_key
            .clone()
            .entries()
            .filter_map(q!(move |(key, (success, _error))| if success >= min {
                Some(key)
            } else {
                None
            }));

        let just_reached_quorum = if max == min {
            not_all = current_responses.anti_join(reached_min_count.clone());

            reached_min_count
        } else {
            let received_from_all = count_per_key
                .filter(q!(move |(success, error)| (success + error) >= max))
                .keys();

            not_all = current_responses.anti_join(received_from_all.clone());

            let out = if mutant == 1 {
                let _ = min_but_not_max;
                reached_min_count.clone()
            } else {
                reached_min_count.clone().filter_not_in(min_but_not_max)
            };

            min_but_not_max = reached_min_count.filter_not_in(received_from_all);

            out
        };

        just_reached_quorum
    };

    (
        just_reached_quorum.assert_has_consistency_of(manual_proof!(/** TODO */)),
        responses.filter_map(q!(move |(key, res)| match res {
            Ok(_) => None,
            Err(e) => Some((key, e)),
        })),
    )
}

pub fn collect_quorum_with_response_mut<
    'a,
    L: Location<'a>,
    Order: Ordering,
    K: Clone + Eq + Hash,
    V: Clone,
    E: Clone,
>(
    mutant: u32,
    responses: Stream<(K, Result<V, E>), L, Unbounded, Order>,
    min: usize,
    max: usize,
) -> (
    Stream<(K, V), L, Unbounded, Order>,
    Stream<(K, E), L, Unbounded, Order>,
) {
    let strict = if mutant == 4 { 1usize } else { 0usize };
    let quorums = sliced! {
        let new_inputs = use::batch(responses.clone(), nondet!(/** as in hydro_std */));

        let mut not_all = use::state_null::<Stream<_, _, Bounded, Order>>();
        let mut min_but_not_max = use::state_null::<Stream<K, _, Bounded, NoOrder>>();

        let current_responses = not_all.chain(new_inputs);

        let count_per_key = current_responses.clone().into_keyed().fold(
            q!(move || (0, 0)),
            q!(move |accum, value| {
                if value.is_ok() {
                    accum.0 += 1;
                } else {
                    accum.1 += 1;
                }
            }, commutative = manual_proof!(/** increment counters is commutative */)),
        );

        let not_reached_min_count = count_per_key
            .clone()
            .filter(q!(move |(success, _error)| *success < min + strict))
            .keys();

        let reached_min_count = count_per_key
            .clone()
            .filter(q!(move |(success, _error)| *success >= min + strict))
            .keys();

        let just_reached_quorum = if max == min {
            not_all = if mutant == 3 {
                let _ = reached_min_count;
                current_responses.clone()
            } else {
                current_responses.clone().anti_join(reached_min_count)
            };

            current_responses.anti_join(not_reached_min_count)
        } else {
            let received_from_all = count_per_key
                .filter(q!(move |(success, error)| (success + error) >= max))
                .keys();

            not_all = current_responses.clone().anti_join(received_from_all.clone());

            let out = current_responses
                .anti_join(not_reached_min_count)
                .anti_join(min_but_not_max);

            min_but_not_max = reached_min_count.filter_not_in(received_from_all);

            out
        };

        just_reached_quorum.filter_map(q!(move |(key, res)| match res {
            Ok(v) => Some((key, v)),
            Err(_) => None,
        }))
    };

    (
        quorums.assert_has_consistency_of(manual_proof!(/** TODO */)),
        responses.filter_map(q!(move |(key, res)| match res {
            Ok(_) => None,
            Err(e) => Some((key, e)),
        })),
    )
}

type JoinResponses<K, M, V, L> = Stream<(K, (M, V)), L, Unbounded, NoOrder>;

/// Mutant 5 of `join_responses`.
pub fn join_responses_mut<'a, K: Clone + Eq + Hash, M: Clone, V: Clone, L: Location<'a>>(
    responses: Stream<(K, V), L, Unbounded, NoOrder>,
    metadata: Stream<(K, M), Tick<L>, Bounded, NoOrder>,
) -> JoinResponses<K, M, V, L::DropConsistency> {
    sliced! {
        let mut remaining_to_join = use::state_null::<Stream<(K, M), _, _, NoOrder>>();

        let response_batch = use::batch(responses, nondet!(/** as in hydro_std */));
        let metadata_batch = use::atomic(metadata.all_ticks_atomic(), nondet!(/** as in hydro_std */));

        let remaining_and_new = remaining_to_join.chain(metadata_batch.clone());

        let joined_this_tick = remaining_and_new
            .clone()
            .join(response_batch.clone())
            .map(q!(|(key, (meta, resp))| (key, (meta, resp))));

        // MUTANT: only this tick's metadata is kept for later
        remaining_to_join = metadata_batch.anti_join(response_batch.map(q!(|(key, _)| key)));

        joined_this_tick
    }
}

/// C35 self-test (HV_MUTANT=6): copy of the cluster-to-cluster `Stream::broadcast_closed` of
/// hydro_lang/src/live_collections/stream/networking.rs with the one-word mutation that builds
/// the list of addressed members from the SOURCE cluster's key instead of the destination's.
/// `wrong_key = false` gives the original behaviour.
pub fn broadcast_closed_m2m_copy<'a, T, L, L2: 'a>(
    wrong_key: bool,
    stream: Stream<T, Cluster<'a, L>, Unbounded, hydro_lang::live_collections::stream::TotalOrder, hydro_lang::live_collections::stream::ExactlyOnce>,
    to: &Cluster<'a, L2>,
) -> KeyedStream<
    hydro_lang::location::MemberId<L>,
    T,
    Cluster<'a, L2>,
    Unbounded,
    hydro_lang::live_collections::stream::TotalOrder,
    hydro_lang::live_collections::stream::ExactlyOnce,
>
where
    T: Clone + serde::Serialize + serde::de::DeserializeOwned,
{
    let key = if wrong_key { stream.location().id().key() } else { to.id().key() };
    let cluster_ids = hydro_lang::location::cluster::ClusterIds {
        key,
        _phantom: std::marker::PhantomData,
    };
    let member_ids = stream
        .location()
        .source_iter(q!(cluster_ids.iter().map(|id| MemberId::from_tagless(id.clone()))));

    stream
        .cross_product(member_ids)
        .map(q!(|(data, member_id)| (member_id, data)))
        .into_keyed()
        .demux(to, TCP.fail_stop().bincode())
}
