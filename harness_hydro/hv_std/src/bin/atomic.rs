//! C34 harness: runs the atomic write/ack + atomic read corpus (hv_std::atomic_flows) in the
//! Hydro simulator under EXHAUSTIVE schedules, following a client script, and records per
//! explored schedule the order of client-visible events (ndjson for spec/Atomic/AtomicTrace.tla).
//!
//! Script ops: 0 = send the next write, 1 = wait for the next acknowledgement,
//!             2 = send the next read, 3 = wait for the next read response.
//!   hv_atomic replay <cases.ndjson> <trace.ndjson>   cases from TLC (AtomicGen): {"prog":p,"script":[..]}
//!   hv_atomic random <count> <maxlen> <trace.ndjson>
//! prog: 1 = k1 (singleton state), 2 = k2 (keyed state), 0 = n1 (NEGATIVE CONTROL, not atomic)
use hv_common::{Rng, Trace, Value, json};
use hv_std::atomic_flows::sim::{K1, K2, build_k1, build_k2, build_n1};
use hydro_lang::prelude::*;
use hydro_lang::sim::compiled::CompiledSim;

struct Case {
    prog: u32,
    script: Vec<u32>,
}

struct Stats {
    cases: usize,
    schedules: usize,
    panics: usize,
}

const KEYS: u32 = 2;

fn run_case(sim: &CompiledSim, k1: &K1, k2: &K2, n1: &K1, c: &Case, next_id: &mut u64, t: &mut Trace, st: &mut Stats) {
    let mut runs: Vec<Vec<Value>> = vec![];
    let r = hv_common::catch(|| {
        sim.exhaustive(async || {
            let mut evs = vec![];
            let (mut w, mut rd) = (0u32, 0u32);
            for &op in &c.script {
                match (op, c.prog) {
                    (0, 2) => {
                        w += 1;
                        evs.push(json!({"e":"write","w":w,"k":w % KEYS}));
                        k2.write.send((w % KEYS, w));
                    }
                    (0, p) => {
                        w += 1;
                        evs.push(json!({"e":"write","w":w,"k":0}));
                        if p == 1 { k1.write.send(w) } else { n1.write.send(w) }
                    }
                    (1, 2) => {
                        let (k, a) = k2.ack.next().await;
                        evs.push(json!({"e":"ack","w":a,"k":k}));
                    }
                    (1, p) => {
                        let a = if p == 1 { k1.ack.next().await } else { n1.ack.next().await };
                        evs.push(json!({"e":"ack","w":a,"k":0}));
                    }
                    (2, p) => {
                        rd += 1;
                        evs.push(json!({"e":"read","r":rd}));
                        match p {
                            1 => k1.read.send(rd),
                            2 => k2.read.send(rd),
                            _ => n1.read.send(rd),
                        }
                    }
                    (_, 2) => {
                        let (r, kv) = k2.resp.next().await;
                        let mut s: Vec<u32> = kv.iter().flat_map(|(_, ws)| ws.iter().copied()).collect();
                        s.sort();
                        let wrong_key = kv.iter().any(|(k, ws)| ws.iter().any(|x| x % KEYS != *k));
                        evs.push(json!({"e":"snap","r":r,"s":s,"wrongkey":wrong_key as u32}));
                    }
                    (_, p) => {
                        let (r, mut s) = if p == 1 { k1.resp.next().await } else { n1.resp.next().await };
                        s.sort();
                        evs.push(json!({"e":"snap","r":r,"s":s,"wrongkey":0}));
                    }
                }
            }
            runs.push(evs);
        })
    });
    st.cases += 1;
    let reset = |id: u64, sched: usize| json!({"e":"reset","case":id,"prog":c.prog,"inp":c.script,"sched":sched});
    for (s, evs) in runs.into_iter().enumerate() {
        *next_id += 1;
        st.schedules += 1;
        t.ev(reset(*next_id, s));
        for e in evs {
            t.ev(e);
        }
        t.ev(json!({"e":"end"}));
    }
    if let Err(msg) = r {
        *next_id += 1;
        st.panics += 1;
        t.ev(reset(*next_id, usize::MAX));
        t.ev(json!({"e":"panic","msg":msg}));
        t.ev(json!({"e":"end"}));
    }
}

/// Random well-formed script: never waits for more acks / responses than were requested.
fn random_case(rng: &mut Rng, maxlen: u64, progs: &[u32]) -> Case {
    let prog = progs[rng.below(progs.len() as u64) as usize];
    let n = 2 + rng.below(maxlen - 1);
    let (mut w, mut a, mut r, mut s) = (0, 0, 0, 0);
    let mut script = vec![];
    for _ in 0..n {
        let mut ops = vec![0u32, 2];
        if a < w {
            ops.push(1);
            ops.push(1);
        }
        if s < r {
            ops.push(3);
        }
        let op = ops[rng.below(ops.len() as u64) as usize];
        match op {
            0 => w += 1,
            1 => a += 1,
            2 => r += 1,
            _ => s += 1,
        }
        script.push(op);
    }
    while s < r {
        script.push(3);
        s += 1;
    }
    Case { prog, script }
}

fn main() {
    let args: Vec<String> = std::env::args().collect();
    let mode = args.get(1).map(|s| s.as_str()).unwrap_or("");
    let mut flow = FlowBuilder::new();
    let k1 = build_k1(&mut flow);
    let k2 = build_k2(&mut flow);
    let n1 = build_n1(&mut flow);
    let sim = flow.sim().compiled();
    let mut st = Stats { cases: 0, schedules: 0, panics: 0 };
    let mut next_id = 0u64;
    match mode {
        "replay" => {
            let cases = hv_common::read_ndjson(&args[2]);
            let mut t = Trace::create(&args[3]);
            for v in &cases {
                let c = Case {
                    prog: v["prog"].as_u64().unwrap() as u32,
                    script: v["script"].as_array().unwrap().iter().map(|x| x.as_u64().unwrap() as u32).collect(),
                };
                run_case(&sim, &k1, &k2, &n1, &c, &mut next_id, &mut t, &mut st);
            }
            t.ev(json!({"e":"eof"}));
            t.finish();
        }
        "random" => {
            let count: usize = args[2].parse().unwrap();
            let maxlen: u64 = args[3].parse().unwrap();
            let mut t = Trace::create(&args[4]);
            let mut rng = Rng::new(hv_common::seed() ^ 0xC34);
            for _ in 0..count {
                let c = random_case(&mut rng, maxlen, &[1, 2, 1, 2, 0]);
                run_case(&sim, &k1, &k2, &n1, &c, &mut next_id, &mut t, &mut st);
            }
            t.ev(json!({"e":"eof"}));
            t.finish();
        }
        _ => {
            eprintln!("usage: hv_atomic replay <cases> <trace> | random <count> <maxlen> <trace>");
            std::process::exit(2);
        }
    }
    println!("{}", json!({"cases": st.cases, "schedules": st.schedules, "panics": st.panics}));
}
