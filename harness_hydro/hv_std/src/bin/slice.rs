//! C31 harness: runs the `sliced!` corpus (hv_std::slice_flows) in the Hydro simulator under
//! EXHAUSTIVE schedules and records, per explored schedule, the inputs sent and what every
//! hook of every slice execution observed (ndjson for spec/Slice/SliceTrace.tla).
//!
//!   hv_slice replay <cases.ndjson> <trace.ndjson>     cases from TLC (SliceGen):
//!                   {"prog":1|2|3|0,"stages":[[[port,v],..],..]}   port: 0 = a, 1 = b, 2 = c
//!   hv_slice random <count> <maxops> <trace.ndjson>
use hv_common::{Rng, Trace, Value, json};
use hv_std::slice_flows::sim::{P1, P2, P3, build};
use hydro_lang::prelude::*;
use hydro_lang::sim::compiled::CompiledSim;

struct Case {
    prog: u32,
    stages: Vec<Vec<(u32, u32)>>,
}

struct Stats {
    cases: usize,
    schedules: usize,
    panics: usize,
}

fn run_case(sim: &CompiledSim, p1: &P1, p2: &P2, p3: &P3, p0: &P1, c: &Case, next_id: &mut u64, t: &mut Trace, st: &mut Stats) {
    let mut runs: Vec<Vec<Value>> = vec![];
    let r = hv_common::catch(|| {
        sim.exhaustive(async || {
            let mut evs = vec![];
            for stage in &c.stages {
                for &(port, v) in stage {
                    evs.push(json!({"e":"in","port":port,"v":v}));
                    match (c.prog, port) {
                        (1, _) => p1.input.send(v),
                        (0, _) => p0.input.send(v),
                        (3, _) => p3.input.send(v),
                        (_, 0) => p2.a.send(v),
                        (_, 1) => p2.b.send(v),
                        _ => p2.c.send(v),
                    }
                }
                hydro_lang::sim::quiesce().await;
                match c.prog {
                    0 | 1 => {
                        let out = if c.prog == 1 { &p1.out } else { &p0.out };
                        while let Some((batch, before, after)) = out.try_next().await {
                            evs.push(json!({"e":"rec1","batch":batch,"before":before,"after":after}));
                        }
                    }
                    3 => {
                        while let Some(all) = p3.out.try_next().await {
                            evs.push(json!({"e":"rec3","all":all}));
                        }
                    }
                    _ => {
                        while let Some((batch, tick)) = p2.ha.try_next().await {
                            evs.push(json!({"e":"hook","h":0,"tick":tick,"batch":batch}));
                        }
                        while let Some((batch, tick)) = p2.hb.try_next().await {
                            evs.push(json!({"e":"hook","h":1,"tick":tick,"batch":batch}));
                        }
                        while let Some((v, tick)) = p2.hs.try_next().await {
                            evs.push(json!({"e":"snap","tick":tick,"v":v}));
                        }
                    }
                }
                evs.push(json!({"e":"quiesce"}));
            }
            runs.push(evs);
        })
    });
    st.cases += 1;
    let reset = |id: u64, sched: usize| json!({"e":"reset","case":id,"prog":c.prog,"inp":c.stages,"sched":sched});
    for (s, evs) in runs.into_iter().enumerate() {
        *next_id += 1;
        st.schedules += 1;
        t.ev(reset(*next_id, s));
        for e in evs {
            t.ev(e);
        }
        t.ev(json!({"e":"end"}));
    }
    if let Err(msg) = r {
        *next_id += 1;
        st.panics += 1;
        t.ev(reset(*next_id, usize::MAX));
        t.ev(json!({"e":"panic","msg":msg}));
        t.ev(json!({"e":"end"}));
    }
}

fn parse_case(v: &Value) -> Case {
    Case {
        prog: v["prog"].as_u64().unwrap() as u32,
        stages: v["stages"]
            .as_array()
            .unwrap()
            .iter()
            .map(|s| {
                s.as_array()
                    .unwrap()
                    .iter()
                    .map(|o| (o[0].as_u64().unwrap() as u32, o[1].as_u64().unwrap() as u32))
                    .collect()
            })
            .collect(),
    }
}

fn random_case(rng: &mut Rng, maxops: u64) -> Case {
    let prog = 1 + rng.below(3) as u32;
    let n = 1 + rng.below(if prog == 2 { maxops.min(4) } else { maxops });
    let mut stages = vec![vec![]];
    let mut next = [0u32; 3];
    for _ in 0..n {
        let port = if prog == 2 { rng.below(3) as usize } else { 0 };
        next[port] += 1;
        // values are distinct per port so that the trace shows exactly which element went where
        stages.last_mut().unwrap().push((port as u32, 10 * next[port] + port as u32));
        if rng.chance(1, 4) {
            stages.push(vec![]);
        }
    }
    stages.retain(|s| !s.is_empty());
    Case { prog, stages }
}

fn main() {
    let args: Vec<String> = std::env::args().collect();
    let mode = args.get(1).map(|s| s.as_str()).unwrap_or("");
    let mut flow = FlowBuilder::new();
    let (p1, p2, p3, p0) = build(&mut flow);
    let sim = flow.sim().compiled();
    let mut st = Stats { cases: 0, schedules: 0, panics: 0 };
    let mut next_id = 0u64;
    match mode {
        "replay" => {
            let cases = hv_common::read_ndjson(&args[2]);
            let mut t = Trace::create(&args[3]);
            for v in &cases {
                run_case(&sim, &p1, &p2, &p3, &p0, &parse_case(v), &mut next_id, &mut t, &mut st);
            }
            t.ev(json!({"e":"eof"}));
            t.finish();
        }
        "random" => {
            let count: usize = args[2].parse().unwrap();
            let maxops: u64 = args[3].parse().unwrap();
            let mut t = Trace::create(&args[4]);
            let mut rng = Rng::new(hv_common::seed() ^ 0xC31);
            for _ in 0..count {
                let c = random_case(&mut rng, maxops);
                run_case(&sim, &p1, &p2, &p3, &p0, &c, &mut next_id, &mut t, &mut st);
            }
            t.ev(json!({"e":"eof"}));
            t.finish();
        }
        _ => {
            eprintln!("usage: hv_slice replay <cases> <trace> | random <count> <maxops> <trace>");
            std::process::exit(2);
        }
    }
    println!("{}", json!({"cases": st.cases, "schedules": st.schedules, "panics": st.panics}));
}
