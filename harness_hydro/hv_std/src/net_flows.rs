//! C35: network flows.  One process P and two clusters A, B; the four addressing patterns of
//! `hydro_lang::live_collections::stream::networking` over `TCP.fail_stop().bincode()`:
//!   o2m   P  --demux-->            B        (payload arrives only at the addressed member)
//!   m2o   A  --send-->             P        (tagged with the sender's member id)
//!   m2m   A  --demux-->            B        (addressed member, tagged with the sender's id)
//!   bc    P  --broadcast_closed--> B        (every member)
//!   bcm   A  --broadcast_closed--> B        (every member of B, tagged with the sender's id)
//! The cluster sizes are chosen by the runner (equal and UNEQUAL topologies).
//! The payload is a nested serde type; the generated serialize / deserialize closures and the
//! simulator's network carry it.
use std::collections::BTreeMap;

use hydro_lang::location::MemberId;
use serde::{Deserialize, Serialize};

/// Tag of the sending cluster.
pub struct ClusterA;
/// Tag of the receiving cluster.
pub struct ClusterB;

#[derive(Clone, Debug, PartialEq, Eq, PartialOrd, Ord, Serialize, Deserialize)]
pub struct Inner {
    pub a: u8,
    pub b: i64,
    pub s: String,
    pub t: (u16, bool),
}

#[derive(Clone, Debug, PartialEq, Eq, PartialOrd, Ord, Serialize, Deserialize)]
pub enum Shape {
    Unit,
    New(u32),
    Tuple(i8, String),
    Struct { x: i16, ys: Vec<u8> },
    Nested(Vec<Shape>),
}

#[derive(Clone, Debug, PartialEq, Eq, PartialOrd, Ord, Serialize, Deserialize)]
pub struct Payload {
    /// unique message id (the trace matches deliveries to sends through it)
    pub id: u32,
    pub opt: Option<Inner>,
    pub shapes: Vec<Shape>,
    pub text: String,
    pub who: Option<MemberId<ClusterB>>,
    pub members: Vec<MemberId<ClusterA>>,
    pub nested: Vec<Option<(u8, String)>>,
    pub big: u64,
    pub neg: i64,
    pub ch: char,
    pub flag: bool,
    pub bytes: Vec<u8>,
    pub map: BTreeMap<String, i32>,
    pub unit: (),
    pub res: Result<u8, String>,
}

pub mod sim {
    use hydro_lang::live_collections::stream::{ExactlyOnce, NoOrder, TotalOrder};
    use hydro_lang::location::MemberId;
    use hydro_lang::prelude::*;
    use hydro_lang::sim::{SimClusterReceiver, SimClusterSender, SimReceiver, SimSender};

    use super::{ClusterA, ClusterB, Payload};

    pub struct NetPorts {
        pub o2m_in: SimSender<(MemberId<ClusterB>, Payload), TotalOrder, ExactlyOnce>,
        pub o2m_out: SimClusterReceiver<Payload, TotalOrder, ExactlyOnce>,
        pub m2o_in: SimClusterSender<Payload, TotalOrder, ExactlyOnce>,
        pub m2o_out: SimReceiver<(MemberId<ClusterA>, Payload), NoOrder, ExactlyOnce>,
        pub m2m_in: SimClusterSender<(MemberId<ClusterB>, Payload), TotalOrder, ExactlyOnce>,
        pub m2m_out: SimClusterReceiver<(MemberId<ClusterA>, Payload), NoOrder, ExactlyOnce>,
        pub bc_in: SimSender<Payload, TotalOrder, ExactlyOnce>,
        pub bc_out: SimClusterReceiver<Payload, TotalOrder, ExactlyOnce>,
        pub bcm_in: SimClusterSender<Payload, TotalOrder, ExactlyOnce>,
        pub bcm_out: SimClusterReceiver<(MemberId<ClusterA>, Payload), NoOrder, ExactlyOnce>,
    }

    /// SELF-TEST: HV_MUTANT=6 swaps in the mutated copy of the cluster-to-cluster
    /// broadcast_closed (see `selftest_mutants::broadcast_closed_m2m_copy`).
    pub fn mutant() -> u32 {
        std::env::var("HV_MUTANT").ok().and_then(|s| s.parse().ok()).unwrap_or(0)
    }

    pub fn build<'a>(
        flow: &mut FlowBuilder<'a>,
    ) -> (NetPorts, Cluster<'a, ClusterA>, Cluster<'a, ClusterB>) {
        let p = flow.process::<()>();
        let a = flow.cluster::<ClusterA>();
        let b = flow.cluster::<ClusterB>();

        let (o2m_in, o2m) = p.sim_input::<(MemberId<ClusterB>, Payload), TotalOrder, ExactlyOnce>();
        let o2m_out = o2m.demux(&b, TCP.fail_stop().bincode()).sim_cluster_output();

        let (m2o_in, m2o) = a.sim_input::<Payload, TotalOrder, ExactlyOnce>();
        let m2o_out = m2o.send(&p, TCP.fail_stop().bincode()).entries().sim_output();

        let (m2m_in, m2m) = a.sim_input::<(MemberId<ClusterB>, Payload), TotalOrder, ExactlyOnce>();
        let m2m_out = m2m
            .demux(&b, TCP.fail_stop().bincode())
            .entries()
            .sim_cluster_output();

        let (bc_in, bc) = p.sim_input::<Payload, TotalOrder, ExactlyOnce>();
        let bc_out = bc
            .broadcast_closed(&b, TCP.fail_stop().bincode())
            .sim_cluster_output();

        let (bcm_in, bcm) = a.sim_input::<Payload, TotalOrder, ExactlyOnce>();
        let bcm_out = if mutant() == 6 {
            crate::selftest_mutants::broadcast_closed_m2m_copy(true, bcm, &b)
                .entries()
                .sim_cluster_output()
        } else {
            bcm.broadcast_closed(&b, TCP.fail_stop().bincode())
                .entries()
                .sim_cluster_output()
        };

        (
            NetPorts {
                o2m_in, o2m_out, m2o_in, m2o_out, m2m_in, m2m_out, bc_in, bc_out, bcm_in, bcm_out,
            },
            a,
            b,
        )
    }
}
