//! Flows around the real `hydro_std::quorum` helpers: one process holding one instance of
//! `collect_quorum` and one of `collect_quorum_with_response` for every (min, max) pair, each
//! with its own simulator input / output ports, so that one compiled simulation serves every
//! case.  Responses: key `u32`; `Ok(id)` / `Err(id)` carry the position of the response in the
//! case so that the trace can tell responses apart (`collect_quorum` takes `Ok(())`).
pub mod sim {
    use hydro_lang::live_collections::stream::{ExactlyOnce, NoOrder, TotalOrder};
    use hydro_lang::prelude::*;
    use hydro_lang::sim::{SimReceiver, SimSender};

    pub type CqResp = (u32, Result<(), u32>);
    pub type CqrResp = (u32, Result<u32, u32>);

    /// Ports of one `collect_quorum` instance.
    pub struct CqPorts {
        pub min: usize,
        pub max: usize,
        pub input: SimSender<CqResp, TotalOrder, ExactlyOnce>,
        pub succ: SimReceiver<u32, NoOrder, ExactlyOnce>,
        pub err: SimReceiver<(u32, u32), TotalOrder, ExactlyOnce>,
    }

    /// Ports of one `collect_quorum_with_response` instance.
    pub struct CqrPorts {
        pub min: usize,
        pub max: usize,
        pub input: SimSender<CqrResp, TotalOrder, ExactlyOnce>,
        pub succ: SimReceiver<(u32, u32), TotalOrder, ExactlyOnce>,
        pub err: SimReceiver<(u32, u32), TotalOrder, ExactlyOnce>,
    }

    /// SELF-TEST: HV_MUTANT=<n> swaps in a mutated copy of a helper (see `selftest_mutants`).
    pub fn mutant() -> u32 {
        std::env::var("HV_MUTANT").ok().and_then(|s| s.parse().ok()).unwrap_or(0)
    }

    /// Adds the helper instances for all `1 <= min <= max <= max_max` to `flow`.
    pub fn build<'a>(flow: &mut FlowBuilder<'a>, max_max: usize) -> (Vec<CqPorts>, Vec<CqrPorts>) {
        let node = flow.process::<()>();
        let mut cq = vec![];
        let mut cqr = vec![];
        for max in 1..=max_max {
            for min in 1..=max {
                let (input, stream) = node.sim_input::<CqResp, TotalOrder, ExactlyOnce>();
                let (succ, err) = match mutant() {
                    m @ 1..=2 => crate::selftest_mutants::collect_quorum_mut(m, stream, min, max),
                    _ => hydro_std::quorum::collect_quorum(stream, min, max),
                };
                cq.push(CqPorts {
                    min,
                    max,
                    input,
                    succ: succ.sim_output(),
                    err: err.sim_output(),
                });
                let (input, stream) = node.sim_input::<CqrResp, TotalOrder, ExactlyOnce>();
                let (succ, err) = match mutant() {
                    m @ 3..=4 => {
                        crate::selftest_mutants::collect_quorum_with_response_mut(m, stream, min, max)
                    }
                    _ => hydro_std::quorum::collect_quorum_with_response(stream, min, max),
                };
                cqr.push(CqrPorts {
                    min,
                    max,
                    input,
                    succ: succ.sim_output(),
                    err: err.sim_output(),
                });
            }
        }
        (cq, cqr)
    }

    /// Ports of the `join_responses` flow (the set-up of the helper's own tests).
    pub struct JoinPorts {
        /// responses `(key, value)`
        pub resp: SimSender<(u32, u32), TotalOrder, ExactlyOnce>,
        /// request metadata `(key, metadata)`
        pub meta: SimSender<(u32, u32), TotalOrder, ExactlyOnce>,
        /// acknowledgement of stored metadata (end of the atomic tick)
        pub ack: SimReceiver<(u32, u32), TotalOrder, ExactlyOnce>,
        /// `(key, (metadata, value))`
        pub joined: SimReceiver<(u32, (u32, u32)), NoOrder, ExactlyOnce>,
    }

    pub fn build_join<'a>(flow: &mut FlowBuilder<'a>) -> JoinPorts {
        let process = flow.process::<()>();
        let (resp, responses) = process.sim_input::<(u32, u32), TotalOrder, ExactlyOnce>();
        let (meta, metadata_input) = process.sim_input::<(u32, u32), TotalOrder, ExactlyOnce>();
        let metadata_processing = metadata_input.atomic();
        let metadata_ack = metadata_processing.clone().end_atomic();
        let metadata = metadata_processing
            .batch_atomic(&process.tick(), nondet!(/** harness: any batching of the metadata */))
            .weaken_ordering();
        let joined = if mutant() == 5 {
            crate::selftest_mutants::join_responses_mut(responses.weaken_ordering(), metadata)
        } else {
            hydro_std::request_response::join_responses(responses.weaken_ordering(), metadata)
        };
        JoinPorts {
            resp,
            meta,
            ack: metadata_ack.sim_output(),
            joined: joined.sim_output(),
        }
    }
}
