//! C34: programs with an atomic write -> acknowledgement path and an atomic read path.
//!   k1  writes folded into a singleton (the list of applied write ids); reads answered with a
//!       `use::atomic` snapshot of it                      (hydro_lang's sim_atomic_stream)
//!   k2  keyed-counter style: writes `(key, id)` folded per key; reads answered with a
//!       `use::atomic` snapshot of the whole keyed state
//!   n1  NEGATIVE CONTROL: the same as k1 without the atomic region (acknowledgement =
//!       the raw input, read = `use::snapshot`): read-after-write does NOT hold here, and the
//!       check requires TLC to see that on the recorded runs (hydro_lang's
//!       sim_non_atomic_stream is `should_panic` for the same reason)
pub mod sim {
    use hydro_lang::live_collections::stream::{ExactlyOnce, TotalOrder};
    use hydro_lang::prelude::*;
    use hydro_lang::sim::{SimReceiver, SimSender};

    pub struct K1 {
        pub write: SimSender<u32, TotalOrder, ExactlyOnce>,
        pub read: SimSender<u32, TotalOrder, ExactlyOnce>,
        pub ack: SimReceiver<u32, TotalOrder, ExactlyOnce>,
        /// (read id, applied write ids)
        pub resp: SimReceiver<(u32, Vec<u32>), TotalOrder, ExactlyOnce>,
    }

    pub struct K2 {
        /// (key, write id)
        pub write: SimSender<(u32, u32), TotalOrder, ExactlyOnce>,
        pub read: SimSender<u32, TotalOrder, ExactlyOnce>,
        pub ack: SimReceiver<(u32, u32), TotalOrder, ExactlyOnce>,
        /// (read id, [(key, write ids applied to that key)])
        pub resp: SimReceiver<(u32, Vec<(u32, Vec<u32>)>), TotalOrder, ExactlyOnce>,
    }

    pub fn build_k1<'a>(flow: &mut FlowBuilder<'a>) -> K1 {
        let node = flow.process::<()>();
        let (write, write_req) = node.sim_input::<u32, TotalOrder, ExactlyOnce>();
        let (read, read_req) = node.sim_input::<u32, TotalOrder, ExactlyOnce>();

        let atomic_write = write_req.atomic();
        let applied = atomic_write
            .clone()
            .fold(q!(|| Vec::<u32>::new()), q!(|s, w| s.push(w)));
        let ack = atomic_write.end_atomic().sim_output();
        let resp = sliced! {
            let reqs = use::batch(read_req, nondet!(/** harness: any batching */));
            let snap = use::atomic(applied, nondet!(/** harness: any point */));
            reqs.cross_singleton(snap)
        }
        .sim_output();
        K1 { write, read, ack, resp }
    }

    pub fn build_k2<'a>(flow: &mut FlowBuilder<'a>) -> K2 {
        let node = flow.process::<()>();
        let (write, write_req) = node.sim_input::<(u32, u32), TotalOrder, ExactlyOnce>();
        let (read, read_req) = node.sim_input::<u32, TotalOrder, ExactlyOnce>();

        let atomic_write = write_req.atomic();
        let applied = atomic_write
            .clone()
            .into_keyed()
            .fold(q!(|| Vec::<u32>::new()), q!(|s, w| s.push(w)));
        let ack = atomic_write.end_atomic().sim_output();
        let resp = sliced! {
            let reqs = use::batch(read_req, nondet!(/** harness: any batching */));
            let snap = use::atomic(applied, nondet!(/** harness: any point */));
            let whole = snap.entries().fold(
                q!(|| Vec::<(u32, Vec<u32>)>::new()),
                q!(|acc, kv| {
                    acc.push(kv);
                    acc.sort();
                }, commutative = manual_proof!(/** the list is kept sorted */)),
            );
            reqs.cross_singleton(whole)
        }
        .sim_output();
        K2 { write, read, ack, resp }
    }

    /// Negative control: no atomic region.
    pub fn build_n1<'a>(flow: &mut FlowBuilder<'a>) -> K1 {
        let node = flow.process::<()>();
        let (write, write_req) = node.sim_input::<u32, TotalOrder, ExactlyOnce>();
        let (read, read_req) = node.sim_input::<u32, TotalOrder, ExactlyOnce>();

        let applied = write_req
            .clone()
            .fold(q!(|| Vec::<u32>::new()), q!(|s, w| s.push(w)));
        let ack = write_req.sim_output();
        let resp = sliced! {
            let reqs = use::batch(read_req, nondet!(/** harness: any batching */));
            let snap = use::snapshot(applied, nondet!(/** harness: any version */));
            reqs.cross_singleton(snap)
        }
        .sim_output();
        K1 { write, read, ack, resp }
    }
}
