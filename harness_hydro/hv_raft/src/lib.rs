//! C40 harness library: builds the REAL Raft flow of `hydro_test::cluster::raft` for the Hydro
//! simulator and exposes JSON encodings of the real protocol types (RPCs, member state) shared by
//! the two bins:
//!   raft_step  drives the real `raft_step` function of N members over a harness-owned network
//!   raft_sim   drives the real `raft_server` dataflow under `flow.sim()` with seeded schedules
#[cfg(stageleft_runtime)]
hydro_lang::setup!();

use hv_common::{Value, json};
use hydro_lang::location::MemberId;
use hydro_test::cluster::raft::{
    AppendEntriesReply, AppendEntriesRequest, LogEntry, RaftRpc, RaftServerState, RaftState,
    Replica, RequestVoteDto, RequestVoteResponseDto,
};

pub type Rpc = RaftRpc<u32, Replica>;
pub type State = RaftServerState<u32, Replica>;

pub fn mid(m: usize) -> MemberId<Replica> {
    MemberId::from_raw_id(m as u32)
}

pub fn raw(m: &MemberId<Replica>) -> i64 {
    m.get_raw_id() as i64
}

/// Uniform message record understood by Raft.tla:
/// k: 0 RequestVote(term, x=last_log_term, y=last_log_index)
///    1 RequestVoteResponse(term)
///    2 AppendEntries(term, x=prev_log_index, y=prev_log_term, ents=[[term,v]..], z=leader_commit)
///    3 AppendEntriesReply(term, x=match_index, y=success)
/// `bad` = 1 if an entry's own index field is not prev_log_index + position (never expected).
pub fn rpc_json(src: usize, dst: usize, rpc: &Rpc) -> Value {
    match rpc {
        RaftRpc::RequestVote(d) => json!({"k":0,"src":src,"dst":dst,"term":d.term,
            "x":d.last_log_term,"y":d.last_log_index,"z":0,"ents":[]}),
        RaftRpc::RequestVoteResponse(d) => json!({"k":1,"src":src,"dst":dst,"term":d.term,
            "x":0,"y":0,"z":0,"ents":[]}),
        RaftRpc::AppendEntries(r) => {
            let ents: Vec<Value> = r
                .entries
                .iter()
                .map(|e| json!([e.term_received, e.message]))
                .collect();
            let bad = r
                .entries
                .iter()
                .enumerate()
                .any(|(i, e)| e.index != r.prev_log_index + i + 1)
                || raw(&r.leader) != src as i64;
            json!({"k":2,"src":src,"dst":dst,"term":r.term,"x":r.prev_log_index,
                "y":r.prev_log_term,"z":r.leader_commit,"ents":ents,"bad": if bad {1} else {0}})
        }
        RaftRpc::AppendEntriesReply(r) => json!({"k":3,"src":src,"dst":dst,"term":r.term,
            "x":r.match_index,"y": if r.success {1} else {0},"z":0,"ents":[]}),
    }
}

/// Inverse of `rpc_json` (used by the replay of TLC-generated behaviours).
pub fn rpc_from_json(v: &Value) -> (usize, usize, Rpc) {
    let g = |k: &str| v[k].as_u64().unwrap_or(0) as usize;
    let (src, dst) = (g("src"), g("dst"));
    let rpc = match g("k") {
        0 => RaftRpc::RequestVote(RequestVoteDto {
            term: g("term"),
            last_log_term: g("x"),
            last_log_index: g("y"),
        }),
        1 => RaftRpc::RequestVoteResponse(RequestVoteResponseDto { term: g("term") }),
        2 => {
            let prev = g("x");
            let entries = v["ents"]
                .as_array()
                .map(|a| {
                    a.iter()
                        .enumerate()
                        .map(|(i, e)| LogEntry {
                            term_received: e[0].as_u64().unwrap() as usize,
                            message: e[1].as_u64().unwrap() as u32,
                            index: prev + i + 1,
                        })
                        .collect()
                })
                .unwrap_or_default();
            RaftRpc::AppendEntries(AppendEntriesRequest {
                term: g("term"),
                leader: mid(src),
                prev_log_index: prev,
                prev_log_term: g("y"),
                entries,
                leader_commit: g("z"),
            })
        }
        _ => RaftRpc::AppendEntriesReply(AppendEntriesReply {
            term: g("term"),
            match_index: g("x"),
            success: g("y") == 1,
        }),
    };
    (src, dst, rpc)
}

/// The real member state as Raft.tla's member record. next/match are reported for every member
/// (0 for the member itself / missing keys).
pub fn state_json(n: usize, s: &State) -> Value {
    let role = match s.role {
        RaftState::Follower => 0,
        RaftState::Candidate => 1,
        RaftState::Leader => 2,
    };
    let mut votes: Vec<i64> = s.votes.iter().map(raw).collect();
    votes.sort();
    let log: Vec<Value> = s
        .log
        .iter()
        .map(|e| json!([e.term_received, e.message]))
        .collect();
    let idx_ok = s.log.iter().enumerate().all(|(i, e)| e.index == i + 1);
    let next: Vec<usize> = (0..n)
        .map(|o| s.next_index.get(&mid(o)).copied().unwrap_or(0))
        .collect();
    let mtch: Vec<usize> = (0..n)
        .map(|o| s.match_index.get(&mid(o)).copied().unwrap_or(0))
        .collect();
    json!({"term":s.term,"vf":s.voted_for.as_ref().map(raw).unwrap_or(-1),"role":role,
        "votes":votes,"hb": if s.heartbeat_seen {1} else {0},"log":log,"ci":s.commit_index,
        "ei":s.emitted_index,"next":next,"match":mtch,"idxok": if idx_ok {1} else {0},
        "kl": s.known_leader.as_ref().map(raw).unwrap_or(-1)})
}

// ------------------------------------------------------------------------------------------
// Paxos components (hydro_test::cluster::paxos) that the simulator can run
// ------------------------------------------------------------------------------------------
pub mod paxos_parts {
    use std::collections::HashMap;

    use hydro_lang::live_collections::stream::{ExactlyOnce, NoOrder, TotalOrder};
    use hydro_lang::location::MemberId;
    use hydro_lang::prelude::*;
    use hydro_lang::sim::{SimClusterReceiver, SimClusterSender};
    use hydro_test::cluster::paxos::{
        Ballot, LogValue, Proposer, recommit_after_leader_election,
    };

    /// One p1b answer: (checkpoint, accepted log).
    pub type P1b = (Option<usize>, HashMap<usize, LogValue<u32>>);
    /// One election result delivered to the new leader: its ballot number and the quorum's p1bs.
    pub type Election = (u32, Vec<P1b>);

    /// The REAL `recommit_after_leader_election` on a (1-member) proposer cluster: every input
    /// element is the complete p1b quorum of one won election, processed in one tick.
    #[expect(clippy::type_complexity, reason = "sim ports")]
    pub fn recommit_flow<'a>(
        proposers: &Cluster<'a, Proposer>,
        f: usize,
    ) -> (
        SimClusterSender<Election, TotalOrder, ExactlyOnce>,
        SimClusterReceiver<((usize, Ballot), Option<u32>), NoOrder, ExactlyOnce>,
        SimClusterReceiver<usize, TotalOrder, ExactlyOnce>,
    ) {
        let tick = proposers.tick();
        let (send, input) = proposers.sim_input::<Election, TotalOrder, ExactlyOnce>();
        let batch = input.batch(
            &tick,
            nondet!(/** the harness sends one election per run; a batch holds at most one */),
        );
        let p_ballot = batch
            .clone()
            .map(q!(|(num, _logs)| Ballot {
                num,
                proposer_id: MemberId::from_raw_id(0)
            }))
            .first()
            .unwrap_or(tick.singleton(q!(Ballot {
                num: 0,
                proposer_id: MemberId::from_raw_id(0)
            })));
        let logs = batch.flat_map_unordered(q!(|(_num, logs)| logs));
        let (to_commit, max_slot) = recommit_after_leader_election(logs, p_ballot, f);
        (
            send,
            to_commit.all_ticks().sim_cluster_output(),
            max_slot.into_stream().all_ticks().sim_cluster_output(),
        )
    }
}
