//! C40, Paxos side, proposer components of hydro_test::cluster::paxos run under the Hydro simulator:
//!
//!   paxos_parts recommit <count> <trace_out.ndjson>
//!       the REAL `recommit_after_leader_election`: a new leader receives the p1b answers (accepted
//!       logs) of a quorum and decides what to re-propose under its ballot -- the rule that makes a
//!       value chosen under ballot b the only value proposed under higher ballots.
//!   paxos_parts index <count> <trace_out.ndjson>
//!       the REAL `index_payloads`: the leader assigns log slots to client payloads, jumping above
//!       the highest slot learned in an election.
use std::cell::RefCell;
use std::collections::HashMap;
use std::panic::AssertUnwindSafe;

use hv_common::{Rng, Trace, Value, json};
use hv_raft::paxos_parts::{Election, P1b, recommit_flow};
use hydro_lang::location::MemberId;
use hydro_lang::prelude::*;
use hydro_test::cluster::paxos::{Ballot, LogValue, Proposer, index_payloads};

fn bal(num: u32) -> Ballot {
    Ballot { num, proposer_id: MemberId::from_raw_id(num % 2) }
}
fn bal_code(b: &Ballot) -> i64 {
    b.num as i64 * 10 + b.proposer_id.get_raw_id() as i64
}

fn main() {
    if std::env::var("CARGO_MANIFEST_DIR").is_err() {
        unsafe { std::env::set_var("CARGO_MANIFEST_DIR", env!("CARGO_MANIFEST_DIR")) };
    }
    let mut args: Vec<String> = std::env::args().collect();
    let mode = args.get(1).cloned().unwrap_or_default();
    if args.len() > 3 {
        args[3] = std::path::absolute(&args[3]).unwrap().to_str().unwrap().to_owned();
    }
    std::env::set_current_dir(env!("CARGO_MANIFEST_DIR")).unwrap();
    let count: usize = args[2].parse().unwrap();
    let mut tr = Trace::create(&args[3]);
    let t0 = std::time::Instant::now();

    match mode.as_str() {
        "recommit" => {
            // one compiled flow per f (f is a staged constant of the flow)
            let mut total = 0usize;
            let mut panics = 0usize;
            let mut nontrivial = 0usize;
            for f in [1usize, 2usize] {
                let mut flow = FlowBuilder::new();
                let proposers = flow.cluster::<Proposer>();
                let (send, out_recv, max_recv) = recommit_flow(&proposers, f);
                let compiled = flow.sim().with_cluster_size(&proposers, 1).compiled();
                let n_here = if f == 1 { count - count / 3 } else { count / 3 };
                for i in 0..n_here {
                    let case = total + 1;
                    total += 1;
                    let mut rng = Rng::new(hv_common::seed().wrapping_mul(9_000_011).wrapping_add(case as u64));
                    // a consistent history: one value per (slot, ballot)
                    let nslots = 1 + rng.below(4) as usize;
                    let nb = 1 + rng.below(3) as u32;
                    let mut prop: HashMap<(usize, u32), Option<u32>> = HashMap::new();
                    for s in 0..nslots {
                        for b in 1..=nb {
                            let v = if rng.chance(1, 8) { None } else { Some(1 + rng.below(3) as u32) };
                            prop.insert((s, b), v);
                        }
                    }
                    let nlogs = f + 1;
                    let mut logs: Vec<P1b> = Vec::new();
                    let mut logs_j: Vec<Value> = Vec::new();
                    for _ in 0..nlogs {
                        let cp = if rng.chance(1, 4) { Some(rng.below(nslots as u64) as usize) } else { None };
                        let mut log = HashMap::new();
                        let mut ents = Vec::new();
                        for s in 0..nslots {
                            if rng.chance(3, 10) {
                                continue;
                            }
                            let b = 1 + rng.below(nb as u64) as u32;
                            let v = prop[&(s, b)];
                            log.insert(s, LogValue { ballot: bal(b), value: v });
                            ents.push(json!([s, bal_code(&bal(b)), v.map(|x| x as i64).unwrap_or(-1)]));
                        }
                        logs_j.push(json!({"cp": cp.map(|x| x as i64).unwrap_or(-1), "ents": ents}));
                        logs.push((cp, log));
                    }
                    let newnum = nb + 1;
                    let bytes: Vec<u8> = (0..4096).map(|_| rng.next() as u8).collect();
                    let outs: RefCell<(Vec<Value>, i64)> = RefCell::new((Vec::new(), -1));
                    let election: Election = (newnum, logs);
                    let ctx = AssertUnwindSafe((&outs, &send, &out_recv, &max_recv, RefCell::new(Some(election))));
                    let res = hv_common::catch(|| {
                        compiled.fuzz_repro(bytes, async |inst| {
                            let c = &ctx;
                            inst.run_with_scheduler_and_logger(std::io::sink(), async {
                                c.0.1.send(0, c.0.4.borrow_mut().take().unwrap());
                                hydro_lang::sim::quiesce().await;
                                let o: Vec<((usize, Ballot), Option<u32>)> = c.0.2.collect_sorted(0).await;
                                for ((slot, b), v) in o {
                                    c.0.0.borrow_mut().0.push(json!([slot, bal_code(&b), v.map(|x| x as i64).unwrap_or(-1)]));
                                }
                                let m: Vec<usize> = c.0.3.collect(0).await;
                                if let Some(x) = m.last() {
                                    c.0.0.borrow_mut().1 = *x as i64;
                                }
                            })
                            .await;
                        });
                    });
                    let (out, maxslot) = outs.into_inner();
                    if out.len() >= 2 && nlogs >= 2 {
                        nontrivial += 1;
                    }
                    match res {
                        Ok(()) => tr.ev(json!({"e":"recommit","case":case,"f":f,"bal":bal_code(&Ballot{num:newnum, proposer_id: MemberId::from_raw_id(0)}),
                            "logs":logs_j,"out":out,"maxslot":maxslot})),
                        Err(msg) => {
                            panics += 1;
                            tr.ev(json!({"e":"rpanic","case":case,"f":f,"logs":logs_j,"msg":msg}));
                        }
                    }
                    let _ = i;
                }
            }
            tr.ev(json!({"e":"eof"}));
            let events = tr.lines;
            tr.finish();
            println!("{}", json!({"cases":total,"events":events,"panics":panics,"nontrivial":nontrivial,
                "wall_s":t0.elapsed().as_secs_f64()}));
        }
        "index" => {
            let mut flow = FlowBuilder::new();
            let node = flow.process::<()>();
            let tick = node.tick();
            let (in_send, payloads) = node.sim_input::<u32, _, _>();
            let (base_send, bases) = node.sim_input::<usize, _, _>();
            let indexed = index_payloads(
                bases.batch(&tick, nondet!(/** a new max slot arrives with an election */)).max(),
                payloads.batch(&tick, nondet!(/** payload batching decides nothing but slot numbers */)),
            );
            let out_recv = indexed.all_ticks().sim_output();
            let compiled = flow.sim().compiled();
            let (mut applies, mut panics, mut nontrivial) = (0usize, 0usize, 0usize);
            for case in 1..=count {
                let mut rng = Rng::new(hv_common::seed().wrapping_mul(11_000_027).wrapping_add(case as u64));
                let np = 1 + rng.below(3) as usize;
                // phases: payload ids to send, optionally followed by a base jump
                let mut script: Vec<(Vec<u32>, i64)> = Vec::new();
                let mut next = 1u32;
                let mut base = 0i64;
                for _ in 0..np {
                    let k = 1 + rng.below(4) as u32;
                    let ps: Vec<u32> = (next..next + k).collect();
                    next += k;
                    let jump = if rng.chance(1, 2) {
                        base += next as i64 + rng.below(5) as i64;
                        base
                    } else {
                        -1
                    };
                    script.push((ps, jump));
                }
                let bytes: Vec<u8> = (0..4096).map(|_| rng.next() as u8).collect();
                tr.ev(json!({"e":"reset","case":case,"n":1,"src":"index_payloads","script":script}));
                let evs = RefCell::new(Vec::new());
                let ctx = AssertUnwindSafe((&script, &evs, &in_send, &base_send, &out_recv));
                let res = hv_common::catch(|| {
                    compiled.fuzz_repro(bytes, async |inst| {
                        let c = &ctx;
                        inst.run_with_scheduler_and_logger(std::io::sink(), async {
                            for (ps, jump) in c.0.0.iter() {
                                for p in ps {
                                    c.0.2.send(*p);
                                }
                                if *jump >= 0 {
                                    c.0.3.send(*jump as usize);
                                }
                                hydro_lang::sim::quiesce().await;
                                let o: Vec<(usize, u32)> = c.0.4.collect().await;
                                for (slot, p) in o {
                                    c.0.1.borrow_mut().push(json!({"e":"apply","m":0,"idx":slot + 1,"v":p}));
                                }
                                c.0.1.borrow_mut().push(json!({"e":"phase"}));
                            }
                        })
                        .await;
                    });
                });
                let evs = evs.into_inner();
                let na = evs.iter().filter(|e| e["e"] == "apply").count();
                applies += na;
                if script.iter().any(|(_, j)| *j >= 0) && na >= 3 {
                    nontrivial += 1;
                }
                for e in evs {
                    tr.ev(e);
                }
                if let Err(msg) = res {
                    panics += 1;
                    tr.ev(json!({"e":"panic","msg":msg}));
                }
                tr.ev(json!({"e":"end"}));
            }
            tr.ev(json!({"e":"eof"}));
            let events = tr.lines;
            tr.finish();
            println!("{}", json!({"cases":count,"events":events,"applies":applies,"panics":panics,
                "nontrivial":nontrivial,"wall_s":t0.elapsed().as_secs_f64()}));
        }
        _ => {
            eprintln!("usage: paxos_parts recommit|index <count> <trace>");
            std::process::exit(2);
        }
    }
}
