//! C40, Paxos side, replica application: the REAL `hydro_test::cluster::kv_replica::kv_replica`
//! (slot sequencing `sequence_payloads` + application) on a 3-member replica cluster under the
//! Hydro simulator.  Every replica receives the same decided log `(slot, Option<payload>)` -- as
//! the Paxos proposers would deliver it over an unordered channel -- in simulator-chosen order
//! and batching, possibly in several instalments; recorded per replica: the payloads it applies,
//! in order.  Entry i of the decided log has key = slot + 1, so the applied key is the log position.
//!
//!   paxos_replica fuzz <count> <trace_out.ndjson>
//!   paxos_replica exhaustive <slots> <trace_out.ndjson> <max_runs>
use std::cell::RefCell;
use std::panic::AssertUnwindSafe;

use hv_common::{Rng, Trace, Value, json};
use hydro_lang::live_collections::stream::{ExactlyOnce, NoOrder};
use hydro_lang::prelude::*;
use hydro_test::cluster::kv_replica::{KvPayload, Replica, kv_replica};

const N: usize = 3;
type Entry = (usize, Option<KvPayload<u32, u32>>);

/// script: phases; one phase = list of (member, slot) deliveries sent unordered, then quiesce
fn gen_script(rng: &mut Rng) -> (Vec<Option<u32>>, Vec<Vec<(u32, usize)>>) {
    let k = 2 + rng.below(5) as usize;
    let log: Vec<Option<u32>> = (0..k)
        .map(|s| if rng.chance(1, 5) { None } else { Some(100 + s as u32) })
        .collect();
    let nph = 1 + rng.below(3) as usize;
    let mut phases: Vec<Vec<(u32, usize)>> = vec![Vec::new(); nph];
    for m in 0..N as u32 {
        for s in 0..k {
            // a crashed proposer may never deliver a suffix to some replica
            if rng.chance(1, 12) {
                continue;
            }
            let p = rng.below(nph as u64) as usize;
            phases[p].push((m, s));
        }
    }
    (log, phases)
}

fn main() {
    if std::env::var("CARGO_MANIFEST_DIR").is_err() {
        unsafe { std::env::set_var("CARGO_MANIFEST_DIR", env!("CARGO_MANIFEST_DIR")) };
    }
    let mut args: Vec<String> = std::env::args().collect();
    let mode = args.get(1).cloned().unwrap_or_default();
    if args.len() > 3 {
        args[3] = std::path::absolute(&args[3]).unwrap().to_str().unwrap().to_owned();
    }
    std::env::set_current_dir(env!("CARGO_MANIFEST_DIR")).unwrap();

    let mut flow = FlowBuilder::new();
    let replicas = flow.cluster::<Replica>();
    let (in_send, decided) = replicas.sim_input::<Entry, NoOrder, ExactlyOnce>();
    let (checkpoints, applied) = kv_replica(&replicas, decided, 2);
    let applied_recv = applied.sim_cluster_output();
    let checkpoint_recv = checkpoints.sim_cluster_output();

    let t0 = std::time::Instant::now();
    let compiled = flow.sim().with_cluster_size(&replicas, N).compiled();
    let compile_s = t0.elapsed().as_secs_f64();

    let run_script = async |log: &Vec<Option<u32>>, script: &Vec<Vec<(u32, usize)>>, evs: &RefCell<Vec<Value>>| {
        for phase in script {
            in_send.send_many_unordered(phase.iter().map(|(m, s)| {
                (*m, (*s, log[*s].map(|v| KvPayload { key: *s as u32 + 1, value: v })))
            }));
            hydro_lang::sim::quiesce().await;
            for m in 0..N as u32 {
                let a: Vec<KvPayload<u32, u32>> = applied_recv.collect(m).await;
                for p in a {
                    evs.borrow_mut().push(json!({"e":"apply","m":m,"idx":p.key,"v":p.value}));
                }
                let c: Vec<usize> = checkpoint_recv.collect(m).await;
                for x in c {
                    evs.borrow_mut().push(json!({"e":"checkpoint","m":m,"next":x}));
                }
            }
            evs.borrow_mut().push(json!({"e":"phase"}));
        }
    };

    // expected applied prefix per member: the non-hole slots below the first undelivered slot
    let expect = |log: &Vec<Option<u32>>, script: &Vec<Vec<(u32, usize)>>| -> Vec<Vec<u32>> {
        (0..N as u32)
            .map(|m| {
                let got: std::collections::BTreeSet<usize> =
                    script.iter().flatten().filter(|(mm, _)| *mm == m).map(|(_, s)| *s).collect();
                let mut out = Vec::new();
                for s in 0..log.len() {
                    if !got.contains(&s) {
                        break;
                    }
                    if log[s].is_some() {
                        out.push(s as u32 + 1);
                    }
                }
                out
            })
            .collect()
    };

    match mode.as_str() {
        "fuzz" => {
            let count: usize = args[2].parse().unwrap();
            let mut tr = Trace::create(&args[3]);
            let (mut applies, mut panics, mut nontrivial) = (0usize, 0usize, 0usize);
            for case in 1..=count {
                let mut rng = Rng::new(hv_common::seed().wrapping_mul(7_000_003).wrapping_add(case as u64));
                let (log, script) = gen_script(&mut rng);
                let bytes: Vec<u8> = (0..4096).map(|_| rng.next() as u8).collect();
                let logj: Vec<i64> = log.iter().map(|x| x.map(|v| v as i64).unwrap_or(-1)).collect();
                tr.ev(json!({"e":"reset","case":case,"n":N,"src":"kv_replica","log":logj,"script":script,
                    "expect":expect(&log, &script)}));
                let evs = RefCell::new(Vec::new());
                let ctx = AssertUnwindSafe((&log, &script, &evs, &run_script));
                let res = hv_common::catch(|| {
                    compiled.fuzz_repro(bytes, async |inst| {
                        let c = &ctx;
                        inst.run_with_scheduler_and_logger(std::io::sink(), async {
                            (c.0.3)(c.0.0, c.0.1, c.0.2).await;
                        })
                        .await;
                    });
                });
                let evs = evs.into_inner();
                let na = evs.iter().filter(|e| e["e"] == "apply").count();
                applies += na;
                if script.len() >= 2 && log.iter().any(|x| x.is_none()) && na >= 3 {
                    nontrivial += 1;
                }
                for e in evs {
                    tr.ev(e);
                }
                if let Err(msg) = res {
                    panics += 1;
                    tr.ev(json!({"e":"panic","msg":msg}));
                }
                tr.ev(json!({"e":"end"}));
            }
            tr.ev(json!({"e":"eof"}));
            let events = tr.lines;
            tr.finish();
            println!("{}", json!({"cases":count,"events":events,"applies":applies,"panics":panics,
                "nontrivial":nontrivial,"compile_s":compile_s}));
        }
        "exhaustive" => {
            let slots: usize = args[2].parse().unwrap();
            let tr = RefCell::new(Trace::create(&args[3]));
            let max_runs: usize = args[4].parse().unwrap();
            let log: Vec<Option<u32>> = (0..slots).map(|s| if s == 1 { None } else { Some(100 + s as u32) }).collect();
            // every replica gets every slot in one unordered instalment
            let script: Vec<Vec<(u32, usize)>> =
                vec![(0..N as u32).flat_map(|m| (0..slots).map(move |s| (m, s))).collect()];
            let ex = expect(&log, &script);
            let logj: Vec<i64> = log.iter().map(|x| x.map(|v| v as i64).unwrap_or(-1)).collect();
            let case = RefCell::new(0usize);
            let ctx = AssertUnwindSafe((&log, &script, &tr, &case, &run_script, ex, logj));
            let res = hv_common::catch(|| {
                compiled.exhaustive(async || {
                    let c = &ctx;
                    *c.0.3.borrow_mut() += 1;
                    let k = *c.0.3.borrow();
                    if k > max_runs {
                        panic!("hv_raft: exhaustive budget reached");
                    }
                    let evs = RefCell::new(Vec::new());
                    (c.0.4)(c.0.0, c.0.1, &evs).await;
                    let mut t = c.0.2.borrow_mut();
                    t.ev(json!({"e":"reset","case":k,"n":N,"src":"kv_replica_x","log":c.0.6,"script":c.0.1,"expect":c.0.5}));
                    for e in evs.into_inner() {
                        t.ev(e);
                    }
                    t.ev(json!({"e":"end"}));
                })
            });
            let runs = *case.borrow();
            let mut tr = tr.into_inner();
            let (complete, explored, err) = match res {
                Ok(nx) => (true, nx, String::new()),
                Err(msg) => (false, runs, msg),
            };
            tr.ev(json!({"e":"eof"}));
            let events = tr.lines;
            tr.finish();
            println!("{}", json!({"cases":runs.min(max_runs),"explored":explored,"complete":complete,
                "events":events,"err":err,"compile_s":compile_s}));
        }
        _ => {
            eprintln!("usage: paxos_replica fuzz|exhaustive ...");
            std::process::exit(2);
        }
    }
}
