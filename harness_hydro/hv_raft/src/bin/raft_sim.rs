//! C40 simulator-level harness: the REAL `raft_server` dataflow (hydro_test::cluster::raft) on a
//! 3-member cluster over `TCP.fail_stop()`, run under the Hydro simulator.  Timers and client
//! requests are simulator inputs; the schedule (batch boundaries, delivery interleavings, tick
//! order) is decided by the simulator from a decision byte string derived from VERIF_SEED, so
//! every run is reproducible.  Recorded per run: each member's committed entries in emission
//! order and each member's leader-view transitions.
//!
//!   raft_sim fuzz <count> <trace_out.ndjson> [first_case]
//!   raft_sim exhaustive <scenario 0..> <trace_out.ndjson> <max_runs>
//!
//! stdout: one JSON summary line.
use std::cell::RefCell;
use std::panic::AssertUnwindSafe;

use hv_common::{Rng, Value, json};
use hydro_lang::live_collections::stream::{ExactlyOnce, TotalOrder};
use hydro_lang::prelude::*;
use hydro_test::cluster::raft::{LeaderView, LogEntry, RaftConfig, Replica, raft_server};

const N: usize = 3;

/// ndjson writer flushed after every event: a protocol assert inside the simulated dataflow can
/// abort the whole process, and everything recorded before must already be on disk.
struct Trace {
    f: std::fs::File,
    lines: usize,
}
impl Trace {
    fn create(path: &str) -> Self {
        Trace { f: std::fs::File::create(path).expect("create trace"), lines: 0 }
    }
    fn ev(&mut self, v: Value) {
        use std::io::Write;
        let mut s = serde_json::to_string(&v).unwrap();
        s.push('\n');
        self.f.write_all(s.as_bytes()).unwrap();
        self.lines += 1;
    }
    fn finish(self) {}
}

#[derive(Clone, Copy, Debug)]
enum Inp {
    El(u32),
    Hb(u32),
    Req(u32, u32),
}

fn inp_json(i: &Inp) -> Value {
    match i {
        Inp::El(m) => json!(["el", m]),
        Inp::Hb(m) => json!(["hb", m]),
        Inp::Req(m, v) => json!(["req", m, v]),
    }
}

fn shuffle<T>(v: &mut [T], rng: &mut Rng) {
    for i in (1..v.len()).rev() {
        let j = rng.below(i as u64 + 1) as usize;
        v.swap(i, j);
    }
}

/// A script is a list of phases; the inputs of one phase are sent without any await in between
/// (all concurrently outstanding), then the simulation is quiesced and the outputs are drained.
fn gen_script(rng: &mut Rng) -> Vec<Vec<Inp>> {
    let mut val = 1u32;
    let mut nv = || {
        val += 1;
        val - 1
    };
    let mut phases = Vec::new();
    match rng.below(3) {
        0 => {
            // fully concurrent: everything up front
            let mut p = Vec::new();
            let waves = 1 + rng.below(2);
            for _ in 0..waves {
                for m in 0..N as u32 {
                    if rng.chance(4, 5) {
                        p.push(Inp::El(m));
                    }
                    if rng.chance(4, 5) {
                        p.push(Inp::Req(m, nv()));
                    }
                }
            }
            let pumps = 3 + rng.below(4);
            for _ in 0..pumps {
                for m in 0..N as u32 {
                    p.push(Inp::Hb(m));
                }
            }
            if rng.chance(1, 2) {
                shuffle(&mut p, rng);
            }
            phases.push(p);
        }
        1 => {
            // establish a leader with a committed seed entry, then racy bursts
            let l = rng.below(N as u64) as u32;
            phases.push(vec![Inp::El(l)]);
            phases.push(vec![Inp::Req(l, nv()), Inp::Hb(l)]);
            phases.push(vec![Inp::Hb(l)]);
            let rounds = 1 + rng.below(3);
            for _ in 0..rounds {
                let ch = (l + 1 + rng.below(N as u64 - 1) as u32) % N as u32;
                let mut p = vec![
                    Inp::El(ch),
                    Inp::Req(l, nv()),
                    Inp::Req(ch, nv()),
                    Inp::Hb(l),
                    Inp::El(ch),
                    Inp::Hb(l),
                ];
                if rng.chance(1, 2) {
                    p.push(Inp::El((ch + 1) % N as u32));
                }
                if rng.chance(1, 3) {
                    shuffle(&mut p, rng);
                }
                phases.push(p);
                let settle = 1 + rng.below(2);
                for _ in 0..settle {
                    phases.push((0..N as u32).map(Inp::Hb).collect());
                }
            }
        }
        _ => {
            // random phases
            let np = 2 + rng.below(4);
            for _ in 0..np {
                let k = 1 + rng.below(7);
                let mut p = Vec::new();
                for _ in 0..k {
                    let m = rng.below(N as u64) as u32;
                    p.push(match rng.below(10) {
                        0..=2 => Inp::El(m),
                        3..=6 => Inp::Hb(m),
                        _ => Inp::Req(m, nv()),
                    });
                }
                phases.push(p);
            }
            phases.push((0..N as u32).map(Inp::Hb).collect());
        }
    }
    phases
}

fn exhaustive_script(scenario: usize) -> Vec<Vec<Inp>> {
    match scenario {
        0 => vec![vec![Inp::El(0), Inp::El(1)]],
        1 => vec![vec![Inp::El(0)], vec![Inp::Req(0, 1), Inp::Hb(0), Inp::El(1)]],
        _ => vec![vec![Inp::El(0)], vec![Inp::Req(0, 1), Inp::Hb(0)], vec![Inp::Hb(0), Inp::El(1), Inp::El(1)]],
    }
}

fn main() {
    if std::env::var("CARGO_MANIFEST_DIR").is_err() {
        // the simulator compiles the staged dataflow with cargo relative to the calling crate
        unsafe { std::env::set_var("CARGO_MANIFEST_DIR", env!("CARGO_MANIFEST_DIR")) };
    }
    let mut args: Vec<String> = std::env::args().collect();
    let mode = args.get(1).cloned().unwrap_or_default();
    // `cargo metadata` of the simulator's staged build runs in the current directory: it must be
    // inside this crate.  Output paths are made absolute first.
    if args.len() > 3 {
        args[3] = std::path::absolute(&args[3]).unwrap().to_str().unwrap().to_owned();
    }
    std::env::set_current_dir(env!("CARGO_MANIFEST_DIR")).unwrap();

    let mut flow = FlowBuilder::new();
    let cluster = flow.cluster::<Replica>();
    let (el_send, election_timer_interrupts) = cluster.sim_input();
    let (hb_send, heartbeat_timer_interrupts) = cluster.sim_input();
    let (req_send, requests) = cluster.sim_input::<u32, TotalOrder, ExactlyOnce>();
    let outputs = raft_server(
        &cluster,
        requests,
        election_timer_interrupts,
        heartbeat_timer_interrupts,
        RaftConfig { cluster_size: N },
        TCP.fail_stop().bincode(),
        nondet!(/** which member leads and how concurrent requests are ordered is non-deterministic; the committed sequence must not be */),
    );
    let committed_recv = outputs.committed.end_atomic().sim_cluster_output();
    let redirected_recv = outputs.redirected.sim_cluster_output();
    let view_recv = outputs.leader_views.sim_cluster_output();

    let t0 = std::time::Instant::now();
    let compiled = flow
        .sim()
        .skip_consistency_assertions()
        .with_cluster_size(&cluster, N)
        .compiled();
    let compile_s = t0.elapsed().as_secs_f64();

    // one run of `script`; events are appended to `evs` as they are observed
    let run_script = async |script: &Vec<Vec<Inp>>, evs: &RefCell<Vec<Value>>| {
        for phase in script {
            for inp in phase {
                match *inp {
                    Inp::El(m) => el_send.send(m, ()),
                    Inp::Hb(m) => hb_send.send(m, ()),
                    Inp::Req(m, v) => req_send.send(m, v),
                }
            }
            hydro_lang::sim::quiesce().await;
            for m in 0..N as u32 {
                let c: Vec<LogEntry<u32>> = committed_recv.collect(m).await;
                for e in c {
                    evs.borrow_mut().push(json!({"e":"commit","m":m,"idx":e.index,"term":e.term_received,"v":e.message}));
                }
                let v: Vec<LeaderView<Replica>> = view_recv.collect(m).await;
                for w in v {
                    let l = w.leader.as_ref().map(|x| x.get_raw_id() as i64).unwrap_or(-1);
                    evs.borrow_mut().push(json!({"e":"view","m":m,"term":w.term,"leader":l}));
                }
                let r: Vec<(u32, Option<hydro_lang::location::MemberId<Replica>>)> = redirected_recv.collect(m).await;
                for (v, _) in r {
                    evs.borrow_mut().push(json!({"e":"redirect","m":m,"v":v}));
                }
            }
            evs.borrow_mut().push(json!({"e":"phase"}));
        }
    };

    match mode.as_str() {
        "fuzz" => {
            let count: usize = args[2].parse().unwrap();
            let mut tr = Trace::create(&args[3]);
            let first: usize = args.get(4).map(|s| s.parse().unwrap()).unwrap_or(1);
            let (mut commits, mut panics, mut nontrivial, mut multi_leader) = (0usize, 0usize, 0usize, 0usize);
            for case in first..first + count {
                let mut rng = Rng::new(hv_common::seed().wrapping_mul(1_000_003).wrapping_add(case as u64));
                let script = gen_script(&mut rng);
                let bytes: Vec<u8> = (0..4096).map(|_| rng.next() as u8).collect();
                let sj: Vec<Vec<Value>> = script.iter().map(|p| p.iter().map(inp_json).collect()).collect();
                tr.ev(json!({"e":"reset","case":case,"n":N,"src":"sim","script":sj}));
                let evs = RefCell::new(Vec::new());
                let ctx = AssertUnwindSafe((&script, &evs, &run_script));
                let res = hv_common::catch(|| {
                    compiled.fuzz_repro(bytes, async |inst| {
                        let c = &ctx;
                        inst.run_with_scheduler_and_logger(std::io::sink(), async {
                            (c.0.2)(c.0.0, c.0.1).await;
                        })
                        .await;
                    });
                });
                let evs = evs.into_inner();
                let nc = evs.iter().filter(|e| e["e"] == "commit").count();
                let leaders: std::collections::BTreeSet<u64> = evs
                    .iter()
                    .filter(|e| e["e"] == "view" && e["leader"] == e["m"])
                    .map(|e| e["term"].as_u64().unwrap())
                    .collect();
                commits += nc;
                if leaders.len() >= 2 {
                    multi_leader += 1;
                }
                if leaders.len() >= 2 && nc >= 2 {
                    nontrivial += 1;
                }
                for e in evs {
                    tr.ev(e);
                }
                if let Err(msg) = res {
                    panics += 1;
                    tr.ev(json!({"e":"panic","msg":msg}));
                }
            }
            tr.ev(json!({"e":"eof"}));
            let events = tr.lines;
            tr.finish();
            println!("{}", json!({"cases":count,"events":events,"commits":commits,"panics":panics,
                "nontrivial":nontrivial,"multi_leader":multi_leader,"compile_s":compile_s,
                "run_s":t0.elapsed().as_secs_f64() - compile_s}));
        }
        "exhaustive" => {
            let scenario: usize = args[2].parse().unwrap();
            let tr = RefCell::new(Trace::create(&args[3]));
            let max_runs: usize = args[4].parse().unwrap();
            let script = exhaustive_script(scenario);
            let sj: Vec<Vec<Value>> = script.iter().map(|p| p.iter().map(inp_json).collect()).collect();
            let case = RefCell::new(0usize);
            let ctx = AssertUnwindSafe((&script, &tr, &case, &run_script, sj));
            let res = hv_common::catch(|| {
                compiled.exhaustive(async || {
                    let c = &ctx;
                    *c.0.2.borrow_mut() += 1;
                    let k = *c.0.2.borrow();
                    if k > max_runs {
                        // bounded: stop exploring (reported as truncated)
                        panic!("hv_raft: exhaustive budget reached");
                    }
                    let evs = RefCell::new(Vec::new());
                    (c.0.3)(c.0.0, &evs).await;
                    // only completed instances are recorded (the explorer ends forked instances early)
                    let mut t = c.0.1.borrow_mut();
                    t.ev(json!({"e":"reset","case":k,"n":N,"src":"simx","script":c.0.4}));
                    for e in evs.into_inner() {
                        t.ev(e);
                    }
                })
            });
            let runs = *case.borrow();
            let mut tr = tr.into_inner();
            let (complete, explored, err) = match res {
                Ok(nx) => (true, nx, String::new()),
                Err(msg) => (false, runs, msg),
            };
            tr.ev(json!({"e":"eof"}));
            let events = tr.lines;
            tr.finish();
            println!("{}", json!({"cases":runs.min(max_runs),"explored":explored,"complete":complete,"events":events,
                "err":err,"compile_s":compile_s}));
        }
        _ => {
            eprintln!("usage: raft_sim fuzz|exhaustive ...");
            std::process::exit(2);
        }
    }
}
