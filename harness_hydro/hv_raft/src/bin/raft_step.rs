//! C40 step-level harness: N real `RaftServerState`s advanced by the REAL
//! `hydro_test::cluster::raft::raft_step`, connected by a harness-owned fail-stop network
//! (no loss, no duplication, arbitrary delay/reordering/batching, members may crash = stop
//! taking steps). Every call is logged after it returns with its complete input batch, its
//! outputs and the member's complete real state.
//!
//!   raft_step random <count> <n> <max_steps> <trace_out.ndjson>
//!   raft_step replay <cases.ndjson> <trace_out.ndjson>
//!       case: {"n":3,"steps":[{"m":0,"el":1,"hb":0,"reqs":[7],"msgs":[<msg record>..]},..]}
//!
//! stdout: one JSON summary line.
use hv_common::{Rng, Trace, Value, json};
use hv_raft::{Rpc, State, mid, rpc_from_json, rpc_json, state_json};
use hydro_test::cluster::raft::{RaftState, RaftStepInput, raft_step};

struct Cluster {
    n: usize,
    states: Vec<State>,
    /// messages in flight: (src, dst, rpc)
    net: Vec<(usize, usize, Rpc)>,
}

impl Cluster {
    fn new(n: usize) -> Self {
        Cluster { n, states: (0..n).map(|_| State::new()).collect(), net: Vec::new() }
    }

    /// One real step of member `m` consuming the in-flight messages at positions `take`
    /// (indices into self.net, all addressed to m). Returns false if the real code panicked.
    fn step(&mut self, m: usize, el: bool, hb: bool, reqs: &[u32], take: &[usize], tr: &mut Trace) -> bool {
        let mut batch = Vec::new();
        let mut recs = Vec::new();
        let mut keep = Vec::new();
        for (i, msg) in std::mem::take(&mut self.net).into_iter().enumerate() {
            if take.contains(&i) {
                assert_eq!(msg.1, m);
                recs.push(rpc_json(msg.0, msg.1, &msg.2));
                batch.push((mid(msg.0), msg.2));
            } else {
                keep.push(msg);
            }
        }
        self.net = keep;
        let n = self.n;
        let input = RaftStepInput {
            me: mid(m),
            other_members: (0..n).filter(|o| *o != m).map(mid).collect(),
            cluster_size: n,
            election_timer_fired: el,
            heartbeat_timer_fired: hb,
            requests: reqs.to_vec(),
            messages: batch,
        };
        let state = &mut self.states[m];
        let res = hv_common::catch(move || raft_step(state, input));
        match res {
            Err(msg) => {
                tr.ev(json!({"e":"panic","m":m,"el":el as u8,"hb":hb as u8,"reqs":reqs,"msgs":recs,"msg":msg}));
                false
            }
            Ok(out) => {
                let outs: Vec<Value> = out
                    .outbound
                    .iter()
                    .map(|(t, r)| rpc_json(m, t.get_raw_id() as usize, r))
                    .collect();
                let com: Vec<Value> = out
                    .committed
                    .iter()
                    .map(|e| json!([e.index, e.term_received, e.message]))
                    .collect();
                for (t, r) in out.outbound {
                    self.net.push((m, t.get_raw_id() as usize, r));
                }
                tr.ev(json!({"e":"step","m":m,"el":el as u8,"hb":hb as u8,"reqs":reqs,"msgs":recs,
                    "out":outs,"com":com,"post":state_json(n, &self.states[m])}));
                true
            }
        }
    }
}

fn main() {
    let args: Vec<String> = std::env::args().collect();
    match args.get(1).map(|s| s.as_str()) {
        Some("random") => {
            let count: usize = args[2].parse().unwrap();
            let n: usize = args[3].parse().unwrap();
            let max_steps: usize = args[4].parse().unwrap();
            let mut tr = Trace::create(&args[5]);
            let mut rng = Rng::new(hv_common::seed() ^ 0xC40);
            let (mut steps, mut commits, mut panics, mut nontrivial) = (0usize, 0usize, 0usize, 0usize);
            let mut max_term = 0usize;
            for case in 1..=count {
                tr.ev(json!({"e":"reset","case":case,"n":n,"src":"step"}));
                let mut c = Cluster::new(n);
                // per-case schedule profile
                let p_deliver = [25u64, 50, 80, 100][rng.below(4) as usize];
                let p_el = [2u64, 6, 15, 30][rng.below(4) as usize];
                let p_hb = [20u64, 40, 70][rng.below(3) as usize];
                let p_req = [10u64, 30, 60][rng.below(3) as usize];
                let crash_at = if rng.chance(3, 10) { Some((rng.below(n as u64) as usize, rng.below(max_steps as u64) as usize)) } else { None };
                // every third case: biased toward RE-ELECTIONS of former leaders that still hold
                // unreplicated entries, with client requests interleaved between the leader's
                // AppendEntries and their acks (the figure-8 / Raft 5.4.2 situations)
                let reelect = case % 3 == 0;
                let mut ever_led = vec![false; n];
                let (p_deliver, p_hb, p_req) = if reelect { (75, 22, 45) } else { (p_deliver, p_hb, p_req) };
                let mut next_val = 1u32;
                let mut leaders_terms = std::collections::BTreeSet::new();
                let mut case_commits = 0usize;
                // a leader is needed for anything to happen: fire one election timer first
                let first = rng.below(n as u64) as usize;
                let mut ok = c.step(first, true, false, &[], &[], &mut tr);
                steps += 1;
                let mut k = 0;
                while ok && k < max_steps {
                    k += 1;
                    let m = rng.below(n as u64) as usize;
                    if let Some((cm, at)) = crash_at {
                        if cm == m && k >= at {
                            continue;
                        }
                    }
                    let take: Vec<usize> = c
                        .net
                        .iter()
                        .enumerate()
                        .filter(|(_, msg)| msg.1 == m)
                        .map(|(i, _)| i)
                        .filter(|_| rng.chance(p_deliver, 100))
                        .collect();
                    let is_leader = c.states[m].role == RaftState::Leader;
                    let el = if reelect {
                        rng.chance(if ever_led[m] && !is_leader { 40 } else { 14 }, 100)
                    } else {
                        rng.chance(p_el, 100)
                    };
                    let hb = rng.chance(p_hb, 100);
                    let mut reqs = Vec::new();
                    while (!reelect || is_leader) && rng.chance(p_req, 100) && reqs.len() < 2 {
                        reqs.push(next_val);
                        next_val += 1;
                    }
                    if take.is_empty() && !el && !hb && reqs.is_empty() {
                        continue;
                    }
                    let before = c.states[m].emitted_index;
                    ok = c.step(m, el, hb, &reqs, &take, &mut tr);
                    steps += 1;
                    if ok {
                        case_commits += c.states[m].emitted_index - before;
                        if c.states[m].role == RaftState::Leader {
                            ever_led[m] = true;
                            leaders_terms.insert(c.states[m].term);
                        }
                        max_term = max_term.max(c.states[m].term);
                    }
                }
                if !ok {
                    panics += 1;
                }
                commits += case_commits;
                if leaders_terms.len() >= 2 && case_commits >= 2 {
                    nontrivial += 1;
                }
            }
            tr.ev(json!({"e":"eof"}));
            let events = tr.lines;
            tr.finish();
            println!("{}", json!({"cases":count,"steps":steps,"events":events,"commits":commits,
                "panics":panics,"nontrivial":nontrivial,"max_term":max_term}));
        }
        Some("replay") => {
            let input = hv_common::read_ndjson(&args[2]);
            let mut tr = Trace::create(&args[3]);
            let mut diverged: Vec<Value> = Vec::new();
            let (mut steps, mut cases) = (0usize, 0usize);
            for (ci, case) in input.iter().enumerate() {
                let n = case["n"].as_u64().unwrap() as usize;
                tr.ev(json!({"e":"reset","case":ci + 1,"n":n,"src":"replay"}));
                cases += 1;
                let mut c = Cluster::new(n);
                'steps: for (si, st) in case["steps"].as_array().unwrap().iter().enumerate() {
                    let m = st["m"].as_u64().unwrap() as usize;
                    let el = st["el"].as_u64().unwrap() == 1;
                    let hb = st["hb"].as_u64().unwrap() == 1;
                    let reqs: Vec<u32> = st["reqs"].as_array().map(|a| a.iter().map(|x| x.as_u64().unwrap() as u32).collect()).unwrap_or_default();
                    // find the model's batch among the REAL in-flight messages
                    let mut take: Vec<usize> = Vec::new();
                    for want in st["msgs"].as_array().map(|a| a.as_slice()).unwrap_or(&[]) {
                        let (ws, wd, wr) = rpc_from_json(want);
                        let wj = rpc_json(ws, wd, &wr);
                        let found = c.net.iter().enumerate().position(|(i, msg)| {
                            !take.contains(&i) && msg.1 == m && rpc_json(msg.0, msg.1, &msg.2) == wj
                        });
                        match found {
                            Some(i) => take.push(i),
                            None => {
                                if diverged.len() < 20 {
                                    diverged.push(json!({"case":ci + 1,"step":si + 1,"missing":wj}));
                                }
                                break 'steps;
                            }
                        }
                    }
                    steps += 1;
                    if !c.step(m, el, hb, &reqs, &take, &mut tr) {
                        break;
                    }
                }
            }
            tr.ev(json!({"e":"eof"}));
            let events = tr.lines;
            tr.finish();
            println!("{}", json!({"cases":cases,"steps":steps,"events":events,"diverged":diverged}));
        }
        _ => {
            eprintln!("usage: raft_step random|replay ...");
            std::process::exit(2);
        }
    }
}
