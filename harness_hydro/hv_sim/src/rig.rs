//! A rig holds REAL simulator hooks (`hydro_lang::sim::runtime::*`) together with the handles the
//! generated simulation code would hold: the shared input queue (`Rc<RefCell<..>>`) that the
//! async DFIR pushes into, and the receiving end of the unsync channel the tick DFIR reads from.
//! Items are `u32` ids, unique per case; keys are positional (1 = the key the hook's
//! `FxHashMap` iterates first).
use std::cell::RefCell;
use std::collections::VecDeque;
use std::marker::PhantomData;
use std::rc::Rc;
use std::task::{Context, Poll};

use dfir_rs::rustc_hash::FxHashMap;
use dfir_rs::util::unsync::mpsc::{Receiver, unbounded};
use hv_common::{Value, json};
use hydro_lang::live_collections::stream::{NoOrder, TotalOrder};
use hydro_lang::sim::runtime::*;

pub type Q = Rc<RefCell<VecDeque<u32>>>;
pub type KQ = Rc<RefCell<FxHashMap<u32, VecDeque<u32>>>>;

pub enum Io {
    Plain { q: Q, rx: Receiver<u32> },
    Keyed { q: KQ, rx: Receiver<(u32, u32)> },
    Fold { q: Q, rx: Receiver<Vec<u32>> },
    Merge { q1: Q, q2: Q, rx: Receiver<u32> },
}

pub const KINDS: &[&str] = &[
    "ord", "unord", "kord", "kunord", "single", "ksingle", "pass", "top1", "topk1", "toppo",
    "topmerge", "fold",
];

pub fn is_keyed(kind: &str) -> bool {
    matches!(kind, "kord" | "kunord" | "ksingle" | "topk1" | "toppo")
}

const LOC: (&str, &str, &str) = ("verif", "", "");
fn dbg_item(v: &u32) -> Option<String> {
    Some(v.to_string())
}
fn dbg_pair(v: &(u32, u32)) -> Option<String> {
    Some(format!("{:?}", v))
}

/// Real keys used for positional keys 1 and 2: chosen so that the hook's FxHashMap iterates
/// `real[0]` before `real[1]` whatever the insertion order.
pub fn probe_keys() -> [u32; 2] {
    let order = |a: u32, b: u32| -> Vec<u32> {
        let mut m: FxHashMap<u32, VecDeque<u32>> = FxHashMap::default();
        m.entry(a).or_default();
        m.entry(b).or_default();
        #[allow(clippy::disallowed_methods)]
        m.keys().copied().collect()
    };
    for (a, b) in [(1u32, 2u32), (10, 20), (3, 4), (100, 7)] {
        let o1 = order(a, b);
        let o2 = order(b, a);
        if o1 == o2 {
            return [o1[0], o1[1]];
        }
    }
    panic!("no pair of keys with insertion-independent FxHashMap iteration order found");
}

pub struct Rig {
    pub kinds: Vec<String>,
    pub hooks: Vec<Box<dyn SimHook>>,
    pub ios: Vec<Io>,
    pub real_keys: [u32; 2],
}

impl Rig {
    pub fn new(kinds: &[String], real_keys: [u32; 2]) -> Rig {
        let mut hooks: Vec<Box<dyn SimHook>> = vec![];
        let mut ios = vec![];
        for k in kinds {
            match k.as_str() {
                "ord" | "unord" | "single" | "pass" | "top1" => {
                    let q: Q = Rc::new(RefCell::new(VecDeque::new()));
                    let (tx, rx) = unbounded::<u32>();
                    let h: Box<dyn SimHook> = match k.as_str() {
                        "ord" => Box::new(StreamHook::<u32, TotalOrder> {
                            input: q.clone(),
                            to_release: None,
                            output: tx,
                            batch_location: LOC,
                            format_item_debug: dbg_item,
                            _order: PhantomData,
                        }),
                        "unord" => Box::new(StreamHook::<u32, NoOrder> {
                            input: q.clone(),
                            to_release: None,
                            output: tx,
                            batch_location: LOC,
                            format_item_debug: dbg_item,
                            _order: PhantomData,
                        }),
                        "single" => Box::new(SingletonHook::new(q.clone(), tx, LOC, dbg_item)),
                        "pass" => {
                            Box::new(PassthroughSingletonHook::new(q.clone(), tx, LOC, dbg_item))
                        }
                        _ => Box::new(TopLevelStreamOrderHook::<u32> {
                            input: q.clone(),
                            to_release: None,
                            output: tx,
                            location: LOC,
                            format_item_debug: dbg_item,
                        }),
                    };
                    hooks.push(h);
                    ios.push(Io::Plain { q, rx });
                }
                "kord" | "kunord" | "ksingle" | "topk1" | "toppo" => {
                    let q: KQ = Rc::new(RefCell::new(FxHashMap::default()));
                    let (tx, rx) = unbounded::<(u32, u32)>();
                    let h: Box<dyn SimHook> = match k.as_str() {
                        "kord" => Box::new(KeyedStreamHook::<u32, u32, TotalOrder> {
                            input: q.clone(),
                            to_release: None,
                            output: tx,
                            batch_location: LOC,
                            format_item_debug: dbg_pair,
                            _order: PhantomData,
                        }),
                        "kunord" => Box::new(KeyedStreamHook::<u32, u32, NoOrder> {
                            input: q.clone(),
                            to_release: None,
                            output: tx,
                            batch_location: LOC,
                            format_item_debug: dbg_pair,
                            _order: PhantomData,
                        }),
                        "ksingle" => Box::new(KeyedSingletonHook::new(
                            q.clone(),
                            tx,
                            LOC,
                            dbg_item,
                            dbg_item,
                        )),
                        "topk1" => Box::new(TopLevelKeyedStreamOrderHook::<u32, u32> {
                            input: q.clone(),
                            to_release: None,
                            output: tx,
                            location: LOC,
                            format_item_debug: dbg_pair,
                        }),
                        _ => Box::new(TopLevelPartiallyOrderedStreamHook::<u32, u32> {
                            input: q.clone(),
                            to_release: None,
                            output: tx,
                            location: LOC,
                            format_item_debug: dbg_pair,
                        }),
                    };
                    hooks.push(h);
                    ios.push(Io::Keyed { q, rx });
                }
                "fold" => {
                    let q: Q = Rc::new(RefCell::new(VecDeque::new()));
                    let (tx, rx) = unbounded::<Vec<u32>>();
                    hooks.push(Box::new(TopLevelFoldHook::<u32> {
                        input: q.clone(),
                        to_release: None,
                        output: tx,
                        location: LOC,
                        format_item_debug: dbg_item,
                    }));
                    ios.push(Io::Fold { q, rx });
                }
                "topmerge" => {
                    let q1: Q = Rc::new(RefCell::new(VecDeque::new()));
                    let q2: Q = Rc::new(RefCell::new(VecDeque::new()));
                    let (tx, rx) = unbounded::<u32>();
                    hooks.push(Box::new(TopLevelMergeOrderedHook::<u32> {
                        first: q1.clone(),
                        second: q2.clone(),
                        to_release: None,
                        release_source: None,
                        output: tx,
                        location: LOC,
                        format_item_debug: dbg_item,
                    }));
                    ios.push(Io::Merge { q1, q2, rx });
                }
                other => panic!("unknown hook kind {other}"),
            }
        }
        Rig {
            kinds: kinds.to_vec(),
            hooks,
            ios,
            real_keys,
        }
    }

    fn real(&self, k: u32) -> u32 {
        self.real_keys[(k - 1) as usize]
    }
    fn pos(&self, real: u32) -> u32 {
        if real == self.real_keys[0] { 1 } else { 2 }
    }

    /// What the async DFIR does when an item arrives at the hook boundary.
    pub fn enqueue(&mut self, h: usize, k: u32, v: u32) {
        let rk = self.real(k);
        match &self.ios[h] {
            Io::Plain { q, .. } | Io::Fold { q, .. } => q.borrow_mut().push_back(v),
            Io::Keyed { q, .. } => q.borrow_mut().entry(rk).or_default().push_back(v),
            Io::Merge { q1, q2, .. } => {
                if k == 1 {
                    q1.borrow_mut().push_back(v)
                } else {
                    q2.borrow_mut().push_back(v)
                }
            }
        }
    }

    /// Items sitting in the output channel, as [[k, item], ...] (positional keys).
    /// For a fold hook every released Vec is one message; messages are concatenated.
    pub fn drain(&mut self, h: usize) -> Vec<(u32, u32)> {
        let waker = std::task::Waker::noop();
        let cx = Context::from_waker(waker);
        let mut out = vec![];
        let rk = self.real_keys;
        let pos = |real: u32| if real == rk[0] { 1 } else { 2 };
        match &mut self.ios[h] {
            Io::Plain { rx, .. } => {
                while let Poll::Ready(Some(v)) = rx.poll_recv(&cx) {
                    out.push((1, v));
                }
            }
            Io::Merge { rx, .. } => {
                // the source of a merged item is recovered from the id: harness enqueues
                // ids < 500 on the first input and >= 500 on the second
                while let Poll::Ready(Some(v)) = rx.poll_recv(&cx) {
                    out.push((if v % 1000 < 500 { 1 } else { 2 }, v));
                }
            }
            Io::Keyed { rx, .. } => {
                while let Poll::Ready(Some((k, v))) = rx.poll_recv(&cx) {
                    out.push((pos(k), v));
                }
            }
            Io::Fold { rx, .. } => {
                while let Poll::Ready(Some(vs)) = rx.poll_recv(&cx) {
                    out.extend(vs.into_iter().map(|v| (1, v)));
                }
            }
        }
        out
    }

    /// The hook's pending queue as the implementation holds it: [[k, [items]], ...].
    pub fn queue(&self, h: usize) -> Value {
        match &self.ios[h] {
            Io::Plain { q, .. } | Io::Fold { q, .. } => {
                json!([[1, q.borrow().iter().copied().collect::<Vec<u32>>()]])
            }
            Io::Merge { q1, q2, .. } => json!([
                [1, q1.borrow().iter().copied().collect::<Vec<u32>>()],
                [2, q2.borrow().iter().copied().collect::<Vec<u32>>()]
            ]),
            Io::Keyed { q, .. } => {
                let m = q.borrow();
                let mut v: Vec<(u32, Vec<u32>)> = vec![];
                for rk in self.real_keys {
                    if let Some(d) = m.get(&rk) {
                        v.push((self.pos(rk), d.iter().copied().collect()));
                    }
                }
                json!(v)
            }
        }
    }

    /// The scheduler's `SimTick::can_run` on the hooks `hs`.
    pub fn can_run(&self, hs: &[usize]) -> bool {
        hs.iter().all(|&h| self.hooks[h].is_ready())
            && hs.iter().any(|&h| {
                let hook = &self.hooks[h];
                hook.current_decision().unwrap_or(false) || hook.can_make_nontrivial_decision()
            })
    }
}
