//! Drivers for the simulator's decision requests.
//!
//! The sim hooks take their choices from whatever `bolero_generator` driver is installed in the
//! thread-local scope (`any::scope::with`).  Two drivers are defined here:
//!
//! * [`ScriptDriver`]: answers from an explicit *choice script* and records every request
//!   `(lo, hi, answer)`.  Requests with a single possible answer (`lo == hi`) are answered without
//!   consuming the script and are not recorded (the real exhaustive driver does not track them
//!   either).  When the script is exhausted it answers `lo`, so a depth-first search over the
//!   recorded ranges enumerates the implementation's whole decision tree.
//! * [`Tee`]: wraps a real bolero driver (bytes / rng / exhaustive) and records what it answered.
use std::cell::RefCell;
use std::ops::Bound;
use std::rc::Rc;

use bolero::generator::bolero_generator as bg;
use bg::driver::object::DynDriver;

/// One recorded request: inclusive range and the answer given. Booleans are `(0, 1, b)`.
pub type Req = (u64, u64, u64);

#[derive(Default, Debug)]
pub struct Rec {
    /// answers to give, in order (absolute values)
    pub script: Vec<u64>,
    /// next script position
    pub pos: usize,
    /// non-degenerate requests seen
    pub log: Vec<Req>,
    /// number of degenerate (single-answer) requests seen
    pub degenerate: usize,
    /// a script answer was outside the requested range (script does not fit this run)
    pub misfit: bool,
    /// a request with an empty range was made
    pub empty_range: bool,
}

#[derive(Clone, Default)]
pub struct Shared(pub Rc<RefCell<Rec>>);

impl Shared {
    pub fn with_script(script: Vec<u64>) -> Self {
        Shared(Rc::new(RefCell::new(Rec {
            script,
            ..Default::default()
        })))
    }
    pub fn take_log(&self) -> Vec<Req> {
        std::mem::take(&mut self.0.borrow_mut().log)
    }
    pub fn log(&self) -> Vec<Req> {
        self.0.borrow().log.clone()
    }
    pub fn misfit(&self) -> bool {
        let r = self.0.borrow();
        r.misfit || r.empty_range
    }
    fn choose(&self, lo: u64, hi: u64) -> Option<u64> {
        let mut r = self.0.borrow_mut();
        if hi < lo {
            r.empty_range = true;
            return None;
        }
        if lo == hi {
            r.degenerate += 1;
            return Some(lo);
        }
        let ans = if r.pos < r.script.len() {
            let a = r.script[r.pos];
            if a < lo || a > hi {
                r.misfit = true;
                a.clamp(lo, hi)
            } else {
                a
            }
        } else {
            lo
        };
        r.pos += 1;
        r.log.push((lo, hi, ans));
        Some(ans)
    }
}

/// Next script of a depth-first enumeration, given the requests recorded for the previous one:
/// increment the last request that still has a larger answer, drop everything after it.
pub fn next_script(log: &[Req]) -> Option<Vec<u64>> {
    for i in (0..log.len()).rev() {
        let (_lo, hi, ans) = log[i];
        if ans < hi {
            let mut s: Vec<u64> = log[..i].iter().map(|r| r.2).collect();
            s.push(ans + 1);
            return Some(s);
        }
    }
    None
}

pub struct ScriptDriver {
    pub shared: Shared,
    depth: usize,
}

impl ScriptDriver {
    pub fn new(shared: Shared) -> Self {
        ScriptDriver { shared, depth: 0 }
    }
}

fn lo_of<T: Copy + Into<u128>>(b: Bound<&T>) -> u128 {
    match b {
        Bound::Included(v) => (*v).into(),
        Bound::Excluded(v) => (*v).into() + 1,
        Bound::Unbounded => 0,
    }
}
fn hi_of<T: Copy + Into<u128>>(b: Bound<&T>, max: u128) -> Option<u128> {
    match b {
        Bound::Included(v) => Some((*v).into()),
        Bound::Excluded(v) => {
            let x: u128 = (*v).into();
            if x == 0 { None } else { Some(x - 1) }
        }
        Bound::Unbounded => Some(max),
    }
}

macro_rules! unsigned {
    ($name:ident, $ty:ty) => {
        fn $name(&mut self, min: Bound<&$ty>, max: Bound<&$ty>) -> Option<$ty> {
            let lo = lo_of::<$ty>(min);
            let hi = match hi_of::<$ty>(max, <$ty>::MAX as u128) {
                Some(h) => h,
                None => {
                    self.shared.0.borrow_mut().empty_range = true;
                    return None;
                }
            };
            // the sim hooks only ask for small ranges
            let lo64 = u64::try_from(lo).ok()?;
            let hi64 = u64::try_from(hi.min(u64::MAX as u128)).ok()?;
            self.shared.choose(lo64, hi64).map(|v| v as $ty)
        }
    };
}

macro_rules! unsupported {
    ($name:ident, $ty:ty) => {
        fn $name(&mut self, _min: Bound<&$ty>, _max: Bound<&$ty>) -> Option<$ty> {
            panic!(concat!("ScriptDriver: unsupported request ", stringify!($name)));
        }
    };
}

impl DynDriver for ScriptDriver {
    fn depth(&self) -> usize {
        self.depth
    }
    fn set_depth(&mut self, depth: usize) {
        self.depth = depth;
    }
    fn max_depth(&self) -> usize {
        64
    }
    fn gen_variant(&mut self, variants: usize, _base_case: usize) -> Option<usize> {
        if variants == 0 {
            return None;
        }
        self.shared.choose(0, variants as u64 - 1).map(|v| v as usize)
    }
    unsigned!(gen_u8, u8);
    unsigned!(gen_u16, u16);
    unsigned!(gen_u32, u32);
    unsigned!(gen_u64, u64);
    fn gen_usize(&mut self, min: Bound<&usize>, max: Bound<&usize>) -> Option<usize> {
        let conv = |b: Bound<&usize>| -> Bound<u64> {
            match b {
                Bound::Included(v) => Bound::Included(*v as u64),
                Bound::Excluded(v) => Bound::Excluded(*v as u64),
                Bound::Unbounded => Bound::Unbounded,
            }
        };
        let (mn, mx) = (conv(min), conv(max));
        self.gen_u64(mn.as_ref(), mx.as_ref()).map(|v| v as usize)
    }
    unsupported!(gen_u128, u128);
    unsupported!(gen_i8, i8);
    unsupported!(gen_i16, i16);
    unsupported!(gen_i32, i32);
    unsupported!(gen_i64, i64);
    unsupported!(gen_i128, i128);
    unsupported!(gen_isize, isize);
    unsupported!(gen_f32, f32);
    unsupported!(gen_f64, f64);
    unsupported!(gen_char, char);
    fn gen_bool(&mut self, _probability: Option<f32>) -> Option<bool> {
        self.shared.choose(0, 1).map(|v| v == 1)
    }
    fn gen_from_bytes(
        &mut self,
        _hint: &mut dyn FnMut() -> (usize, Option<usize>),
        _produce: &mut dyn FnMut(&[u8]) -> Option<usize>,
    ) -> Option<()> {
        panic!("ScriptDriver: unsupported request gen_from_bytes");
    }
}

/// Install a [`ScriptDriver`] following `script` for the duration of `f`; returns `f`'s result.
/// The recorded requests are left in `shared`.
pub fn with_script<R>(shared: &Shared, f: impl FnOnce() -> R) -> R {
    let drv = Box::new(ScriptDriver::new(shared.clone()));
    let (_drv, r) = bg::any::scope::with(drv, f);
    r
}

/// Records the answers of a real bolero driver.
pub struct Tee<D: bg::Driver> {
    pub inner: D,
    pub shared: Shared,
}

macro_rules! tee_unsigned {
    ($name:ident, $ty:ty) => {
        fn $name(&mut self, min: Bound<&$ty>, max: Bound<&$ty>) -> Option<$ty> {
            let lo = lo_of::<$ty>(min);
            let hi = hi_of::<$ty>(max, <$ty>::MAX as u128);
            let v = bg::Driver::$name(&mut self.inner, min, max);
            let mut r = self.shared.0.borrow_mut();
            match (v, hi) {
                (Some(x), Some(hi)) => {
                    let (lo, hi) = (lo as u64, hi.min(u64::MAX as u128) as u64);
                    if lo == hi {
                        r.degenerate += 1;
                    } else {
                        r.log.push((lo, hi, x as u64));
                    }
                }
                _ => r.empty_range = true,
            }
            v
        }
    };
}
macro_rules! tee_pass {
    ($name:ident, $ty:ty) => {
        fn $name(&mut self, min: Bound<&$ty>, max: Bound<&$ty>) -> Option<$ty> {
            bg::Driver::$name(&mut self.inner, min, max)
        }
    };
}

impl<D: bg::Driver> DynDriver for Tee<D> {
    fn depth(&self) -> usize {
        bg::Driver::depth(&self.inner)
    }
    fn set_depth(&mut self, depth: usize) {
        bg::Driver::set_depth(&mut self.inner, depth)
    }
    fn max_depth(&self) -> usize {
        bg::Driver::max_depth(&self.inner)
    }
    fn gen_variant(&mut self, variants: usize, base_case: usize) -> Option<usize> {
        bg::Driver::gen_variant(&mut self.inner, variants, base_case)
    }
    tee_unsigned!(gen_u8, u8);
    tee_unsigned!(gen_u16, u16);
    tee_unsigned!(gen_u32, u32);
    tee_unsigned!(gen_u64, u64);
    fn gen_usize(&mut self, min: Bound<&usize>, max: Bound<&usize>) -> Option<usize> {
        let lo = match min {
            Bound::Included(v) => *v as u64,
            Bound::Excluded(v) => *v as u64 + 1,
            Bound::Unbounded => 0,
        };
        let hi = match max {
            Bound::Included(v) => Some(*v as u64),
            Bound::Excluded(v) => (*v as u64).checked_sub(1),
            Bound::Unbounded => Some(u64::MAX),
        };
        let v = bg::Driver::gen_usize(&mut self.inner, min, max);
        let mut r = self.shared.0.borrow_mut();
        match (v, hi) {
            (Some(x), Some(hi)) => {
                if lo == hi {
                    r.degenerate += 1;
                } else {
                    r.log.push((lo, hi, x as u64));
                }
            }
            _ => r.empty_range = true,
        }
        v
    }
    tee_pass!(gen_u128, u128);
    tee_pass!(gen_i8, i8);
    tee_pass!(gen_i16, i16);
    tee_pass!(gen_i32, i32);
    tee_pass!(gen_i64, i64);
    tee_pass!(gen_i128, i128);
    tee_pass!(gen_isize, isize);
    tee_pass!(gen_f32, f32);
    tee_pass!(gen_f64, f64);
    tee_pass!(gen_char, char);
    fn gen_bool(&mut self, probability: Option<f32>) -> Option<bool> {
        let v = bg::Driver::gen_bool(&mut self.inner, probability);
        let mut r = self.shared.0.borrow_mut();
        match v {
            Some(b) => r.log.push((0, 1, b as u64)),
            None => r.empty_range = true,
        }
        v
    }
    fn gen_from_bytes(
        &mut self,
        hint: &mut dyn FnMut() -> (usize, Option<usize>),
        produce: &mut dyn FnMut(&[u8]) -> Option<usize>,
    ) -> Option<()> {
        bg::Driver::gen_from_bytes(&mut self.inner, || hint(), |bytes| {
            let len = produce(bytes)?;
            Some((len, ()))
        })?;
        Some(())
    }
}

/// Run `f` with a real bolero driver installed, recording its answers into `shared`.
pub fn with_tee<D: bg::Driver + 'static, R>(inner: D, shared: &Shared, f: impl FnOnce() -> R) -> (D, R) {
    let drv = Box::new(Tee {
        inner,
        shared: shared.clone(),
    });
    let (drv, r) = bg::any::scope::with(drv, f);
    (drv.inner, r)
}
