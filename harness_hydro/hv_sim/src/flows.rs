//! Small end-to-end Hydro programs run under `flow.sim()`.  Each builds a flow on one process
//! and returns the simulator handles.  The tick-level outputs expose the simulator's release
//! decisions: one output element per executed tick.
use hydro_lang::live_collections::stream::{ExactlyOnce, NoOrder, TotalOrder};
use hydro_lang::prelude::*;
use hydro_lang::sim::{SimReceiver, SimSender};

pub type In<O> = SimSender<i32, O, ExactlyOnce>;
pub type Out<T> = SimReceiver<T, TotalOrder, ExactlyOnce>;

/// P1: a totally ordered input batched into a tick; every tick reports its batch.
pub fn p1_ord_batch<'a>(node: &Process<'a>) -> (In<TotalOrder>, Out<Vec<i32>>) {
    let tick = node.tick();
    let (send, input) = node.sim_input::<i32, TotalOrder, ExactlyOnce>();
    let out = input
        .batch(&tick, nondet!(/** verif */))
        .fold(q!(|| Vec::new()), q!(|acc: &mut Vec<i32>, v| acc.push(v)))
        .all_ticks()
        .sim_output();
    (send, out)
}

/// P2: an unordered input batched into a tick; every tick reports its batch as a sorted vector.
pub fn p2_unord_batch<'a>(node: &Process<'a>) -> (In<NoOrder>, Out<Vec<i32>>) {
    let tick = node.tick();
    let (send, input) = node.sim_input::<i32, NoOrder, ExactlyOnce>();
    let out = input
        .batch(&tick, nondet!(/** verif */))
        .fold(
            q!(|| Vec::new()),
            q!(
                |acc: &mut Vec<i32>, v| {
                    acc.push(v);
                    acc.sort();
                },
                commutative = manual_proof!(/** sorted vector = multiset */)
            ),
        )
        .all_ticks()
        .sim_output();
    (send, out)
}

/// P3: a top-level running count snapshotted into a tick; every tick reports the version it saw.
pub fn p3_snapshot<'a>(node: &Process<'a>) -> (In<TotalOrder>, Out<i32>) {
    let tick = node.tick();
    let (send, input) = node.sim_input::<i32, TotalOrder, ExactlyOnce>();
    let out = input
        .fold(q!(|| 0), q!(|acc: &mut i32, _v| *acc += 1))
        .snapshot(&tick, nondet!(/** verif */))
        .all_ticks()
        .sim_output();
    (send, out)
}

/// P4: two totally ordered inputs batched into the SAME tick (two hooks resolved by one
/// run_hooks call); every tick reports (batch of a, batch of b).
pub fn p4_two_batches<'a>(
    node: &Process<'a>,
) -> (In<TotalOrder>, In<TotalOrder>, Out<(Vec<i32>, Vec<i32>)>) {
    let tick = node.tick();
    let (send_a, a) = node.sim_input::<i32, TotalOrder, ExactlyOnce>();
    let (send_b, b) = node.sim_input::<i32, TotalOrder, ExactlyOnce>();
    let fa = a
        .batch(&tick, nondet!(/** verif */))
        .fold(q!(|| Vec::new()), q!(|acc: &mut Vec<i32>, v| acc.push(v)));
    let fb = b
        .batch(&tick, nondet!(/** verif */))
        .fold(q!(|| Vec::new()), q!(|acc: &mut Vec<i32>, v| acc.push(v)));
    let out = fa.zip(fb).all_ticks().sim_output();
    (send_a, send_b, out)
}

/// P5: a top-level commutative fold over an unordered input (fold hook + passthrough snapshot)
/// snapshotted into a tick that ALSO batches a second input.
pub fn p5_fold_snapshot_and_batch<'a>(
    node: &Process<'a>,
) -> (In<NoOrder>, In<TotalOrder>, Out<(Vec<i32>, i32)>) {
    let tick = node.tick();
    let (send_a, a) = node.sim_input::<i32, NoOrder, ExactlyOnce>();
    let (send_b, b) = node.sim_input::<i32, TotalOrder, ExactlyOnce>();
    let sum = a.fold(
        q!(|| 0),
        q!(
            |acc: &mut i32, v| *acc += v,
            commutative = manual_proof!(/** integer addition */)
        ),
    );
    let snap = sum.snapshot(&tick, nondet!(/** verif */));
    let fb = b
        .batch(&tick, nondet!(/** verif */))
        .fold(q!(|| Vec::new()), q!(|acc: &mut Vec<i32>, v| acc.push(v)));
    let out = fb.zip(snap).all_ticks().sim_output();
    (send_a, send_b, out)
}

/// P7: an unordered batch and a snapshot of a running count in the SAME tick; every tick reports
/// (sorted batch, version seen).
pub fn p7_batch_and_snapshot<'a>(
    node: &Process<'a>,
) -> (In<NoOrder>, In<TotalOrder>, Out<(Vec<i32>, i32)>) {
    let tick = node.tick();
    let (send_a, a) = node.sim_input::<i32, NoOrder, ExactlyOnce>();
    let (send_b, b) = node.sim_input::<i32, TotalOrder, ExactlyOnce>();
    let fa = a.batch(&tick, nondet!(/** verif */)).fold(
        q!(|| Vec::new()),
        q!(
            |acc: &mut Vec<i32>, v| {
                acc.push(v);
                acc.sort();
            },
            commutative = manual_proof!(/** sorted vector = multiset */)
        ),
    );
    let cnt = b
        .fold(q!(|| 0), q!(|acc: &mut i32, _v| *acc += 1))
        .snapshot(&tick, nondet!(/** verif */));
    let out = fa.zip(cnt).all_ticks().sim_output();
    (send_a, send_b, out)
}

/// P8 (C38 only): a keyed batch observed in a total order per key inside the tick
/// (`assume_ordering` on an unordered keyed stream = the INLINE KeyedStreamOrderHook); every
/// tick reports per key the order it observed.  The batch itself is cut by ONE decision (an
/// ordered batch hook, then the order is forgotten), so one decision byte 0xFF puts all keys
/// into the same tick.
pub fn p8_keyed_inline_order<'a>(
    node: &Process<'a>,
) -> (
    SimSender<(i32, i32), TotalOrder, ExactlyOnce>,
    SimReceiver<(i32, Vec<i32>), NoOrder, ExactlyOnce>,
) {
    let tick = node.tick();
    let (send, input) = node.sim_input::<(i32, i32), TotalOrder, ExactlyOnce>();
    let out = input
        .batch(&tick, nondet!(/** verif */))
        .weaken_ordering::<NoOrder>()
        .into_keyed()
        .assume_ordering::<TotalOrder>(nondet!(/** verif */))
        .fold(q!(|| Vec::new()), q!(|acc: &mut Vec<i32>, v| acc.push(v)))
        .entries()
        .all_ticks()
        .sim_output();
    (send, out)
}

/// P9 (C38 only): a batch observed in a total order inside the tick (the INLINE
/// StreamOrderHook); every tick reports the order it observed.
pub fn p9_inline_order<'a>(node: &Process<'a>) -> (In<TotalOrder>, Out<Vec<i32>>) {
    let tick = node.tick();
    let (send, input) = node.sim_input::<i32, TotalOrder, ExactlyOnce>();
    let out = input
        .batch(&tick, nondet!(/** verif */))
        .weaken_ordering::<NoOrder>()
        .assume_ordering::<TotalOrder>(nondet!(/** verif */))
        .fold(q!(|| Vec::new()), q!(|acc: &mut Vec<i32>, v| acc.push(v)))
        .all_ticks()
        .sim_output();
    (send, out)
}
