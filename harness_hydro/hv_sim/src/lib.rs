//! hv_sim: conformance harness for the Hydro deterministic simulator's decision hooks
//! (C36, C37, C38).  `driver` holds the recording/scripted bolero drivers; `flows` the small
//! end-to-end Hydro programs run under `flow.sim()`.
#[cfg(stageleft_runtime)]
hydro_lang::setup!();

pub mod driver;
pub mod rig;
pub mod flows;
