//! Drives the REAL sim hooks (`hydro_lang::sim::runtime`) and the real `run_hooks` (through
//! `verif_run_hooks`, hook H3) and records what happened.  Verdicts come from TLC
//! (spec/SimHooks/SimHooksTrace.tla) evaluating the recorded ndjson.
//!
//!   hooks replay  <cases.ndjson> <trace.ndjson>
//!        every step of every case is scripted (cases printed by TLC from SimHooksImpl);
//!        prints {"cases":n,"drift":[..]} -- drift = the real hooks disagreed with the
//!        prediction of the implementation-shaped model (requests or released batches)
//!   hooks enum    <configs.ndjson> <trace.ndjson>
//!        the last step of every config is a tick whose whole decision tree is enumerated
//!        (a) depth-first with the recording ScriptDriver, (b) by the real bolero exhaustive
//!        engine exactly as `CompiledSim::exhaustive` sets it up; every run is logged as a
//!        case, and two `cover` events per config carry the sets of outcomes reached.
//!
//! case / config:  {"id":n,"hooks":[kind..],"steps":[step..]}
//!   step: ["enq",h,k,item] | ["tick",[ans..]] | ["dec",h,force,[ans..]] | ["tick*"] | ["dec*",h,force]
//!   (h 1-based; k positional key, 1 for unkeyed hooks; answers are absolute values of the
//!    non-degenerate driver requests in order)
use std::cell::RefCell;
use std::collections::BTreeSet;

use bolero::generator::bolero_generator as bg;
use hv_common::{Trace, Value, catch, json, read_ndjson};
use hv_sim::driver::{Req, Shared, next_script, with_script};
use hv_sim::rig::{Rig, probe_keys};
use hydro_lang::sim::compiled::verif_run_hooks;

/// where events go: the trace file, or memory (runs inside the bolero engine's closure)
trait Sink {
    fn put(&mut self, v: Value);
}
impl Sink for Trace {
    fn put(&mut self, v: Value) {
        self.ev(v)
    }
}
impl Sink for Vec<Value> {
    fn put(&mut self, v: Value) {
        self.push(v)
    }
}

#[derive(Clone, Debug)]
enum Step {
    Enq(usize, u32, u32),
    Tick(Option<Vec<u64>>),
    Dec(usize, bool, Option<Vec<u64>>),
}

struct Case {
    id: i64,
    kinds: Vec<String>,
    steps: Vec<Step>,
    /// predicted by the model, per tick/dec step: (requests, rels)
    pred: Vec<Value>,
}

fn parse_case(v: &Value) -> Case {
    let kinds: Vec<String> = v["hooks"]
        .as_array()
        .unwrap()
        .iter()
        .map(|s| s.as_str().unwrap().to_string())
        .collect();
    let mut steps = vec![];
    for s in v["steps"].as_array().unwrap() {
        let a = s.as_array().unwrap();
        let ans = |x: &Value| -> Vec<u64> { x.as_array().unwrap().iter().map(|n| n.as_u64().unwrap()).collect() };
        match a[0].as_str().unwrap() {
            "enq" => steps.push(Step::Enq(
                a[1].as_u64().unwrap() as usize - 1,
                a[2].as_u64().unwrap() as u32,
                a[3].as_u64().unwrap() as u32,
            )),
            "tick" => steps.push(Step::Tick(Some(ans(&a[1])))),
            "tick*" => steps.push(Step::Tick(None)),
            "dec" => steps.push(Step::Dec(
                a[1].as_u64().unwrap() as usize - 1,
                a[2].as_u64().unwrap() == 1,
                Some(ans(&a[3])),
            )),
            "dec*" => steps.push(Step::Dec(a[1].as_u64().unwrap() as usize - 1, a[2].as_u64().unwrap() == 1, None)),
            other => panic!("unknown step {other}"),
        }
    }
    let pred = v.get("pred").and_then(|p| p.as_array()).cloned().unwrap_or_default();
    Case {
        id: v["id"].as_i64().unwrap_or(0),
        kinds,
        steps,
        pred,
    }
}

/// Outcome of one tick/dec: per hook the released batch [[k,item]..] (None = hook not released)
type Rels = Vec<(usize, Vec<(u32, u32)>)>;

struct StepResult {
    rels: Rels,
    reqs: Vec<Req>,
    skipped: bool,
    panic: Option<String>,
    misfit: bool,
}

/// Run one tick (all hooks of the rig through the real run_hooks) or one direct decision on the
/// real hooks, with whatever driver `install` puts into scope; log the events.
fn run_step(
    rig: &mut Rig,
    step: &Step,
    t: &mut Option<&mut dyn Sink>,
    install: &mut dyn FnMut(&mut dyn FnMut()) -> (Vec<Req>, bool),
) -> StepResult {
    let n = rig.hooks.len();
    let (hs, must, dec): (Vec<usize>, bool, Option<(usize, bool)>) = match step {
        Step::Tick(_) => ((0..n).collect(), true, None),
        Step::Dec(h, force, _) => (vec![*h], *force, Some((*h, *force))),
        Step::Enq(..) => unreachable!(),
    };
    // the scheduler only runs a tick when SimTick::can_run; a direct decision needs the hook to
    // be ready, and to have input when it is forced
    let enabled = match dec {
        None => rig.can_run(&hs),
        Some((h, force)) => {
            // (a passthrough hook has no is_ready of its own: it needs input to decide at all)
            rig.hooks[h].is_ready()
                && ((!force && rig.kinds[h] != "pass") || rig.hooks[h].can_make_nontrivial_decision())
        }
    };
    if !enabled {
        return StepResult {
            rels: vec![],
            reqs: vec![],
            skipped: true,
            panic: None,
            misfit: false,
        };
    }
    if let Some(t) = t.as_deref_mut() {
        t.put(json!({"e":"tick","hs":hs.iter().map(|h| h+1).collect::<Vec<_>>(),"must": must as u8}));
    }
    let mut panic_msg = None;
    let (reqs, misfit) = {
        let hooks = &mut rig.hooks;
        let mut body = || {
            let r = catch(|| match dec {
                None => verif_run_hooks(&mut hooks[..], None),
                Some((h, force)) => {
                    bg::any::scope::borrow_with(|driver| {
                        hooks[h].autonomous_decision(driver, force);
                    });
                    hooks[h].release_decision(None);
                }
            });
            if let Err(m) = r {
                panic_msg = Some(m);
            }
        };
        install(&mut body)
    };
    let mut rels = vec![];
    for &h in &hs {
        let b = rig.drain(h);
        // a hook that was released shows up through its channel; an empty batch is a legal
        // (trivial) release, so every hook of the tick gets a rel event unless the call panicked
        if panic_msg.is_none() || !b.is_empty() {
            if let Some(t) = t.as_deref_mut() {
                t.put(json!({"e":"rel","h":h+1,"b":b.iter().map(|(k,v)| json!([k,v])).collect::<Vec<_>>(),"q":rig.queue(h)}));
            }
            rels.push((h, b));
        }
    }
    if let Some(t) = t.as_deref_mut() {
        if let Some(m) = &panic_msg {
            t.put(json!({"e":"panic","msg":m}));
        }
        t.put(json!({"e":"endtick"}));
    }
    StepResult {
        rels,
        reqs,
        skipped: false,
        panic: panic_msg,
        misfit,
    }
}

fn script_installer(script: Vec<u64>) -> impl FnMut(&mut dyn FnMut()) -> (Vec<Req>, bool) {
    move |body| {
        let sh = Shared::with_script(script.clone());
        with_script(&sh, || body());
        let left = {
            let r = sh.0.borrow();
            r.pos < r.script.len()
        };
        (sh.log(), sh.misfit() || left)
    }
}

/// Run the scripted steps `steps[..upto]` on a fresh rig, logging into `t`.
fn run_prefix(case: &Case, upto: usize, keys: [u32; 2], t: &mut Option<&mut dyn Sink>, drift: &mut Vec<Value>) -> Rig {
    let mut rig = Rig::new(&case.kinds, keys);
    let mut pi = 0;
    for step in &case.steps[..upto] {
        match step {
            Step::Enq(h, k, v) => {
                rig.enqueue(*h, *k, *v);
                if let Some(t) = t.as_deref_mut() {
                    t.put(json!({"e":"enq","h":h+1,"k":k,"v":v}));
                }
            }
            Step::Tick(Some(s)) | Step::Dec(_, _, Some(s)) => {
                let mut inst = script_installer(s.clone());
                let r = run_step(&mut rig, step, t, &mut inst);
                if let Some(p) = case.pred.get(pi) {
                    // prediction: {"skip":0/1,"reqs":[[lo,hi,ans]..],"rels":[[h,[[k,v]..]]..]}
                    let got_reqs = json!(r.reqs.iter().map(|x| json!([x.0, x.1, x.2])).collect::<Vec<_>>());
                    let got_rels = json!(r.rels.iter().map(|(h, b)| json!([h + 1, b.iter().map(|(k, v)| json!([k, v])).collect::<Vec<_>>()])).collect::<Vec<_>>());
                    let pskip = p["skip"].as_u64().unwrap_or(0) == 1;
                    let ppanic = p["panic"].as_u64().unwrap_or(0) == 1;
                    if pskip != r.skipped
                        || (!pskip && (p["reqs"] != got_reqs || p["rels"] != got_rels || ppanic != r.panic.is_some()))
                        || r.misfit
                    {
                        if drift.len() < 20 {
                            drift.push(json!({"case":case.id,"step":pi,"predicted":p,"got":{"skip":r.skipped as u8,"reqs":got_reqs,"rels":got_rels,"misfit":r.misfit,"panic":r.panic}}));
                        } else {
                            drift.push(json!({"case":case.id}));
                        }
                    }
                }
                pi += 1;
            }
            _ => panic!("unscripted step inside the scripted part of case {}", case.id),
        }
    }
    rig
}

/// state the scripted prefix left behind (all pending queues); equal for every run of a
/// situation unless the implementation is nondeterministic
fn prefix_sig(rig: &Rig) -> String {
    (0..rig.hooks.len()).map(|h| rig.queue(h).to_string()).collect::<Vec<_>>().join(";")
}

fn outcome_json(rels: &Rels, panic: &Option<String>) -> Value {
    let mut v: Vec<Value> = rels
        .iter()
        .map(|(h, b)| json!([h + 1, b.iter().map(|(k, v)| json!([k, v])).collect::<Vec<_>>()]))
        .collect();
    if panic.is_some() {
        v.push(json!([0, [[0, 0]]])); // marker hook 0: the call panicked
    }
    json!(v)
}

thread_local! {
    static SIGS: RefCell<BTreeSet<String>> = const { RefCell::new(BTreeSet::new()) };
    static EXH: RefCell<Vec<(String, Value, Vec<Value>)>> = const { RefCell::new(vec![]) };
}

fn main() {
    let args: Vec<String> = std::env::args().collect();
    let keys = probe_keys();
    match args.get(1).map(|s| s.as_str()) {
        Some("replay") => {
            let cases = read_ndjson(&args[2]);
            let mut t = Trace::create(&args[3]);
            let mut drift = vec![];
            let mut n = 0;
            for c in &cases {
                let case = parse_case(c);
                t.ev(json!({"e":"reset","case":case.id,"hooks":case.kinds}));
                let mut tt: Option<&mut dyn Sink> = Some(&mut t);
                run_prefix(&case, case.steps.len(), keys, &mut tt, &mut drift);
                n += 1;
            }
            t.ev(json!({"e":"eof"}));
            let lines = t.lines;
            t.finish();
            println!("{}", json!({"cases":n,"lines":lines,"drift_count":drift.len(),"drift":drift.into_iter().take(10).collect::<Vec<_>>(),"keys":keys}));
        }
        Some("enum") => {
            let configs = read_ndjson(&args[2]);
            let mut t = Trace::create(&args[3]);
            let mut drift = vec![];
            let (mut nruns, mut nexh) = (0usize, 0usize);
            let mut caseno = 0i64;
            let mut summary = vec![];
            for c in &configs {
                let cfg = parse_case(c);
                let last = cfg.steps.len() - 1;
                let fin = cfg.steps[last].clone();
                assert!(matches!(fin, Step::Tick(None) | Step::Dec(_, _, None)), "config must end with tick*/dec*");

                // (a) depth-first over the recorded ranges with the ScriptDriver
                let mut reached: BTreeSet<String> = BTreeSet::new();
                let mut scripts = 0usize;
                let mut script: Vec<u64> = vec![];
                let mut skipped = false;
                let mut sigs: BTreeSet<String> = BTreeSet::new();
                loop {
                    caseno += 1;
                    t.ev(json!({"e":"reset","case":caseno,"cfg":cfg.id,"hooks":cfg.kinds,"how":"dfs","script":script}));
                    let mut tt: Option<&mut dyn Sink> = Some(&mut t);
                    let mut rig = run_prefix(&cfg, last, keys, &mut tt, &mut drift);
                    sigs.insert(prefix_sig(&rig));
                    let mut inst = script_installer(script.clone());
                    let r = run_step(&mut rig, &fin, &mut tt, &mut inst);
                    nruns += 1;
                    if r.skipped {
                        skipped = true;
                        break;
                    }
                    scripts += 1;
                    reached.insert(outcome_json(&r.rels, &r.panic).to_string());
                    match next_script(&r.reqs) {
                        Some(s) => script = s,
                        None => break,
                    }
                }
                let dfs: Vec<Value> = reached.iter().map(|s| serde_json::from_str(s).unwrap()).collect();

                // (b) the real bolero exhaustive engine, set up as CompiledSim::exhaustive does
                EXH.with(|e| e.borrow_mut().clear());
                SIGS.with(|s| s.borrow_mut().clear());
                let mut exh_runs = 0usize;
                if !skipped {
                    let cfg_ref = &cfg;
                    let fin_ref = &fin;
                    let counter = std::sync::atomic::AtomicUsize::new(0);
                    let counter_ref = &counter;
                    bolero::test(bolero::TargetLocation {
                        package_name: "",
                        manifest_dir: "",
                        module_path: "",
                        file: "",
                        line: 0,
                        item_path: "<unknown>::__bolero_item_path__",
                        test_name: None,
                    })
                    .exhaustive()
                    .run_with_replay(move |_is_replay| {
                        counter_ref.fetch_add(1, std::sync::atomic::Ordering::Relaxed);
                        let mut events: Vec<Value> = vec![];
                        let mut d = vec![];
                        // the scripted prefix installs its own ScriptDriver inside the scope
                        // of the exhaustive driver and restores it afterwards; everything is
                        // logged from THIS run (prefix included)
                        let mut rig = {
                            let mut tt: Option<&mut dyn Sink> = Some(&mut events);
                            run_prefix(cfg_ref, last, keys, &mut tt, &mut d)
                        };
                        SIGS.with(|s| s.borrow_mut().insert(prefix_sig(&rig)));
                        let mut inst = |body: &mut dyn FnMut()| -> (Vec<Req>, bool) {
                            body();
                            (vec![], false)
                        };
                        let r = {
                            let mut tt: Option<&mut dyn Sink> = Some(&mut events);
                            run_step(&mut rig, fin_ref, &mut tt, &mut inst)
                        };
                        let o = outcome_json(&r.rels, &r.panic);
                        EXH.with(|e| e.borrow_mut().push((o.to_string(), o, events)));
                    });
                    exh_runs = counter.load(std::sync::atomic::Ordering::Relaxed);
                }
                let runs: Vec<(String, Value, Vec<Value>)> = EXH.with(|e| std::mem::take(&mut *e.borrow_mut()));
                let mut exh_set: BTreeSet<String> = BTreeSet::new();
                for (key, _o, events) in &runs {
                    exh_set.insert(key.clone());
                    caseno += 1;
                    nexh += 1;
                    t.ev(json!({"e":"reset","case":caseno,"cfg":cfg.id,"hooks":cfg.kinds,"how":"exhaustive"}));
                    for e in events {
                        t.ev(e.clone());
                    }
                }
                let exh: Vec<Value> = exh_set.iter().map(|s| serde_json::from_str(s).unwrap()).collect();

                // cover events: prefix replayed, then the two reached sets
                caseno += 1;
                t.ev(json!({"e":"reset","case":caseno,"cfg":cfg.id,"hooks":cfg.kinds,"how":"cover"}));
                {
                    let mut tt: Option<&mut dyn Sink> = Some(&mut t);
                    let mut d = vec![];
                    let rig = run_prefix(&cfg, last, keys, &mut tt, &mut d);
                    sigs.insert(prefix_sig(&rig));
                }
                SIGS.with(|s| sigs.extend(s.borrow().iter().cloned()));
                let unstable = (sigs.len() > 1) as u8;
                let n = cfg.kinds.len();
                let (hs, must): (Vec<usize>, bool) = match &fin {
                    Step::Tick(_) => ((1..=n).collect(), true),
                    Step::Dec(h, f, _) => (vec![h + 1], *f),
                    _ => unreachable!(),
                };
                t.ev(json!({"e":"cover","hs":hs,"must":must as u8,"how":"dfs","skipped":skipped as u8,"unstable":unstable,"reached":dfs}));
                t.ev(json!({"e":"cover","hs":hs,"must":must as u8,"how":"exhaustive","skipped":skipped as u8,"unstable":unstable,"reached":exh}));
                summary.push(json!({"cfg":cfg.id,"scripts":scripts,"dfs_outcomes":dfs.len(),"exh_runs":exh_runs,"exh_outcomes":exh.len(),"skipped":skipped}));
            }
            t.ev(json!({"e":"eof"}));
            let lines = t.lines;
            t.finish();
            println!("{}", json!({"configs":configs.len(),"dfs_runs":nruns,"exhaustive_runs":nexh,"lines":lines,"drift_count":drift.len(),"per_config":summary,"keys":keys}));
        }
        Some("det") => {
            // C38: the same decision input twice -> same decisions, outputs, verdict.
            // hooks det <count> <proc-tag> <trace.ndjson>
            let count: usize = args[2].parse().unwrap();
            let proc_tag = args[3].clone();
            let mut t = Trace::create(&args[4]);
            let mut rng = hv_common::Rng::new(hv_common::seed());
            let base = ["ord", "unord", "kord", "kunord", "single", "ksingle", "pass"];
            let top = ["top1", "topk1", "toppo", "topmerge", "fold"];
            let mut nontrivial = 0usize;
            for i in 0..count {
                // a random plan and a random byte string, both functions of (seed, i) only
                let kinds: Vec<String> = match rng.below(4) {
                    0 => vec![top[rng.below(5) as usize].to_string()],
                    1 => vec![base[rng.below(7) as usize].to_string()],
                    _ => vec![base[rng.below(7) as usize].to_string(), base[rng.below(7) as usize].to_string()],
                };
                let nsteps = 4 + rng.below(8) as usize;
                let mut plan: Vec<(u8, usize, u32)> = vec![]; // (0 enq | 1 tick, h, k)
                for _ in 0..nsteps {
                    if rng.chance(3, 5) {
                        plan.push((0, rng.below(kinds.len() as u64) as usize, 1 + rng.below(2) as u32));
                    } else {
                        plan.push((1, 0, 0));
                    }
                }
                plan.push((1, 0, 0));
                let bytes: Vec<u8> = (0..96).map(|_| rng.below(256) as u8).collect();
                let input = format!("hooks/{}/{}", hv_common::seed(), i);
                for rep in 1..=2 {
                    let sh = Shared::default();
                    let mut outputs: Vec<Value> = vec![];
                    let mut verdict = "ok".to_string();
                    let drv = bolero::bolero_engine::driver::bytes::Driver::new(bytes.clone(), &Default::default());
                    let mut rig = Rig::new(&kinds, keys);
                    let mut counters = std::collections::HashMap::new();
                    let (_d, ()) = hv_sim::driver::with_tee(drv, &sh, || {
                        for (what, h, k) in &plan {
                            if *what == 0 {
                                let k = if hv_sim::rig::is_keyed(&kinds[*h]) || kinds[*h] == "topmerge" { *k } else { 1 };
                                let c = counters.entry((*h, k)).or_insert(0u32);
                                *c += 1;
                                rig.enqueue(*h, k, (*h as u32 + 1) * 1000 + (k - 1) * 500 + *c);
                            } else {
                                let mut none: Option<&mut dyn Sink> = None;
                                let mut inst = |body: &mut dyn FnMut()| -> (Vec<Req>, bool) {
                                    body();
                                    (vec![], false)
                                };
                                let r = run_step(&mut rig, &Step::Tick(None), &mut none, &mut inst);
                                if r.skipped {
                                    outputs.push(json!([[0, [[0, 1]]]])); // marker: round not schedulable
                                } else {
                                    outputs.push(outcome_json(&r.rels, &r.panic));
                                }
                                if let Some(m) = r.panic {
                                    verdict = format!("panic: {m}");
                                    break;
                                }
                            }
                        }
                    });
                    let decisions: Vec<Value> = sh.log().iter().map(|x| json!([x.0, x.1, x.2])).collect();
                    if rep == 1 && decisions.len() >= 2 {
                        nontrivial += 1;
                    }
                    t.ev(json!({"e":"run","input":input,"proc":proc_tag,"rep":rep,"hooks":kinds,"decisions":json!(decisions).to_string(),"outputs":json!(outputs).to_string(),"verdict":verdict}));
                }
            }
            let lines = t.lines;
            t.finish();
            println!("{}", json!({"inputs":count,"runs":2*count,"lines":lines,"nontrivial":nontrivial}));
        }
        _ => {
            eprintln!("usage: hooks replay <cases> <trace> | hooks enum <configs> <trace>");
            std::process::exit(2);
        }
    }
}
