//! Runs the small end-to-end programs of hv_sim::flows under the REAL simulator.
//!   simprog <modes> <progs> <count> <proc-tag> <out.ndjson>      modes: exhaustive,repro
//!   exhaustive:
//!        flow.sim().exhaustive twice on the same compiled simulation; one `instance` line per
//!        explored instance of the first pass (its tick outputs) and one `run` line per pass
//!        (C38: the sequence of instances is the same)
//!   repro:
//!        <count> seeded random decision inputs, each replayed twice through
//!        CompiledSim::fuzz_repro + run_with_scheduler_and_logger; one `run` line per replay with
//!        the simulator's decision log, the outputs and the verdict
use std::sync::Mutex;

use hv_common::{Trace, Value, json};
use hydro_lang::prelude::*;

macro_rules! drive {
    ($flow:expr, $args:expr, $t:expr, $body:expr) => {{
        let sim = $flow.sim().compiled();
        let prog = $args[2].clone();
        for mode in $args[1].split(',') {
        match mode {
            "exhaustive" => {
                let mut passes: Vec<Vec<Value>> = vec![];
                let mut counts = vec![];
                for _pass in 0..2 {
                    let outs: Mutex<Vec<Value>> = Mutex::new(vec![]);
                    let n = sim.exhaustive(async || {
                        let v: Value = $body().await;
                        outs.lock().unwrap().push(v);
                    });
                    counts.push(n);
                    passes.push(outs.into_inner().unwrap());
                }
                for o in &passes[0] {
                    $t.ev(json!({"e":"instance","prog":prog,"out":o}));
                }
                for (i, p) in passes.iter().enumerate() {
                    $t.ev(json!({"e":"run","input":format!("exhaustive/{prog}"),"proc":$args[4],"rep":i+1,
                        "decisions":format!("instances={}", counts[i]),"outputs":json!(p).to_string(),"verdict":"ok"}));
                }
                println!("{}", json!({"prog":prog,"instances":counts[0],"recorded":passes[0].len()}));
            }
            "repro" | "repro4" => {
                // repro: 2 replays of 64 decision bytes; repro4: 4 replays of 256 decision bytes
                let (reps, nbytes) = if mode == "repro4" { (4, 320) } else { (2, 64) };
                let count: usize = $args[3].parse().unwrap();
                let mut rng = hv_common::Rng::new(hv_common::seed());
                colored::control::set_override(false);
                let mut nontrivial = 0;
                for i in 0..count {
                    #[allow(unused_mut)]
                    let mut bytes: Vec<u8> = (0..nbytes).map(|_| rng.below(256) as u8).collect();
                    if mode == "repro4" && i > 0 {
                        // first decision = size of the first batch: 0xFF releases everything at
                        // once, so that the inline order hooks see all keys in one tick
                        bytes[0] = 0xFF;
                    }
                    for rep in 1..=reps {
                        let mut log_out: Vec<u8> = Vec::new();
                        let out: Mutex<Option<Value>> = Mutex::new(None);
                        let r = std::panic::catch_unwind(std::panic::AssertUnwindSafe(|| {
                            sim.fuzz_repro(bytes.clone(), async |compiled| {
                                compiled
                                    .run_with_scheduler_and_logger(&mut log_out, async {
                                        let v: Value = $body().await;
                                        *out.lock().unwrap() = Some(v);
                                    })
                                    .await;
                            });
                        }));
                        let verdict = if r.is_ok() { "ok" } else { "panic" };
                        let log = String::from_utf8_lossy(&log_out).to_string();
                        if rep == 1 && log.matches("Running Tick").count() >= 2 {
                            nontrivial += 1;
                        }
                        $t.ev(json!({"e":"run","input":format!("repro/{prog}/{}/{i}", hv_common::seed()),"proc":$args[4],"rep":rep,
                            "decisions":log,"outputs":json!(out.into_inner().unwrap()).to_string(),"verdict":verdict}));
                    }
                }
                println!("{}", json!({"prog":prog,"inputs":count,"runs":reps*count,"nontrivial":nontrivial}));
            }
            other => panic!("unknown mode {other}"),
        }
        }
    }};
}

fn main() {
    // flow.sim() builds a trybuild project for the crate named by CARGO_MANIFEST_DIR and runs
    // `cargo metadata` in the current directory
    unsafe { std::env::set_var("CARGO_MANIFEST_DIR", env!("CARGO_MANIFEST_DIR")) };
    std::env::set_current_dir(env!("CARGO_MANIFEST_DIR")).unwrap();
    let raw: Vec<String> = std::env::args().collect();
    // simprog <modes> <progs> <count> <proc> <out>   (modes, progs: comma separated)
    if raw.len() != 6 {
        eprintln!("usage: simprog <exhaustive,repro> <p1,p2,..> <count> <proc-tag> <abs-out.ndjson>");
        std::process::exit(2);
    }
    assert!(std::path::Path::new(&raw[5]).is_absolute(), "output path must be absolute");
    let mut t = Trace::create(&raw[5]);
    for prog in raw[2].split(',') {
        let args: Vec<String> = vec![raw[0].clone(), raw[1].clone(), prog.to_string(), raw[3].clone(), raw[4].clone()];
        run_prog(&args, &mut t);
    }
    t.finish();
}

fn run_prog(args: &[String], t: &mut Trace) {
    let mut flow = FlowBuilder::new();
    let node = flow.process::<()>();
    match args[2].as_str() {
        "p1" => {
            let (send, out) = hv_sim::flows::p1_ord_batch(&node);
            drive!(flow, args, t, async || {
                send.send_many([1, 2, 3]);
                let all: Vec<Vec<i32>> = out.collect().await;
                json!(all)
            });
        }
        "p2" => {
            let (send, out) = hv_sim::flows::p2_unord_batch(&node);
            drive!(flow, args, t, async || {
                send.send_many_unordered([1, 2, 3]);
                let all: Vec<Vec<i32>> = out.collect().await;
                json!(all)
            });
        }
        "p3" => {
            let (send, out) = hv_sim::flows::p3_snapshot(&node);
            drive!(flow, args, t, async || {
                send.send_many([7, 8, 9]);
                let all: Vec<i32> = out.collect().await;
                json!(all)
            });
        }
        "p4" => {
            let (sa, sb, out) = hv_sim::flows::p4_two_batches(&node);
            drive!(flow, args, t, async || {
                sa.send_many([1, 2]);
                sb.send_many([11, 12]);
                let all: Vec<(Vec<i32>, Vec<i32>)> = out.collect().await;
                json!(all)
            });
        }
        "p5" => {
            let (sa, sb, out) = hv_sim::flows::p5_fold_snapshot_and_batch(&node);
            drive!(flow, args, t, async || {
                sa.send_many_unordered([5]);
                sb.send_many([1, 2]);
                let all: Vec<(Vec<i32>, i32)> = out.collect().await;
                json!(all)
            });
        }
        "p7" => {
            let (sa, sb, out) = hv_sim::flows::p7_batch_and_snapshot(&node);
            drive!(flow, args, t, async || {
                sa.send_many_unordered([1, 2]);
                sb.send_many([9]);
                let all: Vec<(Vec<i32>, i32)> = out.collect().await;
                json!(all)
            });
        }
        "p8" => {
            let (send, out) = hv_sim::flows::p8_keyed_inline_order(&node);
            drive!(flow, args, t, async || {
                // 5 keys with 2..5 values each, all sent before the first tick
                let mut items = vec![];
                for (k, n) in [(1, 2), (2, 3), (3, 4), (4, 5), (5, 2), (6, 3)] {
                    for v in 0..n {
                        items.push((k, 10 * k + v));
                    }
                }
                send.send_many(items);
                let all: Vec<(i32, Vec<i32>)> = out.collect_sorted::<Vec<_>>().await;
                json!(all)
            });
        }
        "p9" => {
            let (send, out) = hv_sim::flows::p9_inline_order(&node);
            drive!(flow, args, t, async || {
                send.send_many([1, 2, 3, 4, 5, 6]);
                let all: Vec<Vec<i32>> = out.collect().await;
                json!(all)
            });
        }
        other => panic!("unknown program {other}"),
    }
}
