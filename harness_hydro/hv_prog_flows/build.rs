fn main() {
    println!("cargo::rustc-check-cfg=cfg(hydro_verif)");
    println!("cargo::rerun-if-changed=src");
    stageleft_tool::gen_final!();
}
