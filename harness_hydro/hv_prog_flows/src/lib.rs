//! hv_prog_flows: Hydro programs for C41 (every well-typed Hydro flow compiles to a valid
//! dataflow) and the Hydro half of C42 (deterministic code generation).
//!
//! `hand`       hand-written programs (calibration; a few deliberately ill-formed ones);
//! `progs`      programs rendered by tools/gen_hydro_progs.py from the well-typed terms that TLC
//!              enumerates from spec/HydroProg/HydroProg.tla (file `src/gen/progs.rs`).
//! Every program is a function `(p2, c1, in1, in2) -> Stream<i32 | (i32,i32), _, Unbounded,
//! TotalOrder, ExactlyOnce>`; the I/O is attached by the drivers (`embedded_input`/`embedded_output`
//! for the production generator in hv_prog_embedded's build script, `sim_input`/`sim_output` for
//! the simulator builder in `bin/progsim.rs`).  Closures come from a closed vocabulary.
#[cfg(stageleft_runtime)]
hydro_lang::setup!();

pub mod hand;
pub mod types;

#[path = "gen/progs.rs"]
pub mod progs;
