//! Hand-written calibration programs.  `h_*` are well-formed (each is also described as a
//! HydroProg term in tools/gen_hydro_progs.py, HAND_TERMS); `n_*` are deliberately ill-formed in the one
//! way Rust's types cannot see (a forward reference completed with a stream that depends on it
//! synchronously) -- the generator is documented to reject those.
use hydro_lang::live_collections::stream::{ExactlyOnce, NoOrder, TotalOrder};
use hydro_lang::prelude::*;

use crate::types::*;

type S1<'a, T> = Stream<T, L1<'a>, Unbounded, TotalOrder, ExactlyOnce>;

/// top-level pipeline
pub fn h_pipeline<'a>(_p2: &L2<'a>, _c1: &LC<'a>, in1: S1<'a, i32>, _in2: S1<'a, i32>) -> S1<'a, i32> {
    in1.map(q!(|x| x + 1))
        .filter(q!(|x| *x % 2 == 0))
        .flat_map_ordered(q!(|x| [x, x + 10]))
}

/// batch -> fold in a tick -> all_ticks
pub fn h_tick_fold<'a>(_p2: &L2<'a>, _c1: &LC<'a>, in1: S1<'a, i32>, _in2: S1<'a, i32>) -> S1<'a, i32> {
    let tick = in1.location().tick();
    in1.batch(&tick, nondet!(/** verif */))
        .fold(q!(|| 0i32), q!(|acc, x| *acc += x))
        .all_ticks()
}

/// tick cycle: every tick re-emits last tick's items (incremented) together with the new batch
pub fn h_tick_cycle<'a>(_p2: &L2<'a>, _c1: &LC<'a>, in1: S1<'a, i32>, _in2: S1<'a, i32>) -> S1<'a, i32> {
    let tick = in1.location().tick();
    let (handle, prev) =
        tick.cycle::<Stream<i32, Tick<L1<'a>>, Bounded, TotalOrder, ExactlyOnce>, _>();
    let cur = prev
        .chain(in1.batch(&tick, nondet!(/** verif */)))
        .map(q!(|x| x + 1))
        .filter(q!(|x| *x < 5));
    handle.complete_next_tick(cur.clone());
    cur.all_ticks()
}

/// a shared subexpression feeding both top-level state and a tick (the situation named in C41)
pub fn h_tee_state_and_tick<'a>(_p2: &L2<'a>, _c1: &LC<'a>, in1: S1<'a, i32>, _in2: S1<'a, i32>) -> S1<'a, KV> {
    let tick = in1.location().tick();
    let shared = in1.map(q!(|x| x + 1));
    let total = shared
        .clone()
        .fold(q!(|| 0i32), q!(|acc, x| *acc += x));
    shared
        .batch(&tick, nondet!(/** verif */))
        .cross_singleton(total.snapshot(&tick, nondet!(/** verif */)))
        .all_ticks()
}

/// top-level forward reference completed later by an independent stream
pub fn h_forward_ref<'a>(_p2: &L2<'a>, _c1: &LC<'a>, in1: S1<'a, i32>, in2: S1<'a, i32>) -> S1<'a, i32> {
    let p = in1.location().clone();
    let (handle, fwd) = p.forward_ref::<Stream<i32, L1<'a>, Unbounded, NoOrder, ExactlyOnce>>();
    let out = in1.merge_unordered(fwd).map(q!(|x| x + 1));
    handle.complete(in2.map(q!(|x| x * 2)).weaken_ordering::<NoOrder>());
    out.assume_ordering::<TotalOrder>(nondet!(/** verif */))
}

/// asynchronous cycle through the network: p1 -> p2 -> p1, closed by a forward reference
pub fn h_network_cycle<'a>(p2: &L2<'a>, _c1: &LC<'a>, in1: S1<'a, i32>, _in2: S1<'a, i32>) -> S1<'a, i32> {
    let p = in1.location().clone();
    let (handle, fwd) = p.forward_ref::<Stream<i32, L1<'a>, Unbounded, NoOrder, ExactlyOnce>>();
    let merged = in1.merge_unordered(fwd).filter(q!(|x| *x < 5));
    let back = merged
        .clone()
        .send(p2, TCP.fail_stop().bincode().name("h_there"))
        .map(q!(|x| x + 1))
        .send(&p, TCP.fail_stop().bincode().name("h_back"));
    handle.complete(back);
    merged.assume_ordering::<TotalOrder>(nondet!(/** verif */))
}

/// singleton reference captured by a closure inside a tick
pub fn h_singleton_ref<'a>(_p2: &L2<'a>, _c1: &LC<'a>, in1: S1<'a, i32>, in2: S1<'a, i32>) -> S1<'a, i32> {
    let tick = in1.location().tick();
    let total = in2
        .batch(&tick, nondet!(/** verif */))
        .fold(q!(|| 0i32), q!(|acc, x| *acc += x));
    let total_ref = total.by_ref();
    in1.batch(&tick, nondet!(/** verif */))
        .map(q!(|x| x + *total_ref))
        .all_ticks()
}

/// keyed fold in a tick
pub fn h_keyed_fold<'a>(_p2: &L2<'a>, _c1: &LC<'a>, in1: S1<'a, i32>, _in2: S1<'a, i32>) -> S1<'a, KV> {
    let tick = in1.location().tick();
    in1.map(q!(|x| (x % 3, x)))
        .batch(&tick, nondet!(/** verif */))
        .into_keyed()
        .fold(q!(|| 0i32), q!(|acc, v| *acc += v))
        .entries()
        .all_ticks()
        .assume_ordering::<TotalOrder>(nondet!(/** verif */))
}

/// round trip through a cluster
pub fn h_cluster_roundtrip<'a>(_p2: &L2<'a>, c1: &LC<'a>, in1: S1<'a, i32>, _in2: S1<'a, i32>) -> S1<'a, i32> {
    let p = in1.location().clone();
    in1.broadcast(c1, TCP.fail_stop().bincode().name("h_bcast"), nondet!(/** verif */))
        .map(q!(|x| x + 1))
        .send(&p, TCP.fail_stop().bincode().name("h_gather"))
        .values()
        .assume_ordering::<TotalOrder>(nondet!(/** verif */))
}

/// ILL-FORMED: the forward reference is completed with a stream that depends on it in the same
/// tick (no defer_tick, no network hop).  `Location::forward_ref` documents a panic for this.
pub fn n_forward_ref_sync_cycle<'a>(_p2: &L2<'a>, _c1: &LC<'a>, in1: S1<'a, i32>, _in2: S1<'a, i32>) -> S1<'a, i32> {
    let p = in1.location().clone();
    let (handle, fwd) = p.forward_ref::<Stream<i32, L1<'a>, Unbounded, NoOrder, ExactlyOnce>>();
    let merged = in1.merge_unordered(fwd).filter(q!(|x| *x < 5));
    handle.complete(merged.clone().map(q!(|x| x + 1)));
    merged.assume_ordering::<TotalOrder>(nondet!(/** verif */))
}
