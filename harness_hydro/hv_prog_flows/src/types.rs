//! Location tags and type aliases shared by the hand-written and the generated programs.
use hydro_lang::prelude::*;

/// Tag of the second process (network hops).
pub struct P2 {}
/// Tag of the cluster.
pub struct C1 {}

pub type L1<'a> = Process<'a, ()>;
pub type L2<'a> = Process<'a, P2>;
pub type LC<'a> = Cluster<'a, C1>;
pub type KV = (i32, i32);
