//! C41 / C42 (simulator builder): builds every listed program with the SIMULATOR builder
//! (`flow.sim().compiled()`: SimBuilder emission -> FlatGraphBuilder -> partition_graph ->
//! as_code -> rustc through the trybuild project) and records a verdict per program.  A panic
//! anywhere (flow construction, emission, partitioning, rustc failure) is caught and logged.
//!
//!   progsim <prog,prog,..|all> <proc-tag> <runs> <abs-out.ndjson> [slice i/n]
//!
//! One event per program and run:
//!   {"e":"sim","prog":..,"proc":..,"run":..,"verdict":"ok"|"panic"|"env" (cargo environment failure),"msg":..,"crate":<content-hash
//!    crate/bin name chosen by trybuild>,"src":<hash of the generated source>,"srclen":..}
//! The crate name is observed through the `hydro_build` tracing spans of
//! hydro_lang::compile::trybuild::generate (field `bin_name`), the generated source is read back
//! from the trybuild project.
use std::sync::{Arc, Mutex};

use hv_common::{Trace, json};
use hv_prog_flows::types::*;
use hydro_lang::live_collections::stream::{ExactlyOnce, TotalOrder};
use hydro_lang::prelude::*;
use tracing::field::{Field, Visit};
use tracing_subscriber::layer::{Context, SubscriberExt};
use tracing_subscriber::Layer;

#[derive(Clone, Default)]
struct BinNames(Arc<Mutex<Vec<String>>>);

struct V<'a>(&'a mut Option<String>);
impl Visit for V<'_> {
    fn record_debug(&mut self, field: &Field, value: &dyn std::fmt::Debug) {
        if field.name() == "bin_name" {
            *self.0 = Some(format!("{:?}", value).trim_matches('"').to_string());
        }
    }
    fn record_str(&mut self, field: &Field, value: &str) {
        if field.name() == "bin_name" {
            *self.0 = Some(value.to_string());
        }
    }
}

impl<S: tracing::Subscriber> Layer<S> for BinNames {
    fn on_new_span(&self, attrs: &tracing::span::Attributes<'_>, _id: &tracing::span::Id, _ctx: Context<'_, S>) {
        if attrs.metadata().target() == "hydro_build" {
            let mut name = None;
            attrs.record(&mut V(&mut name));
            if let Some(n) = name {
                self.0.lock().unwrap().push(n);
            }
        }
    }
}

fn fnv_hex(s: &str) -> String {
    let mut a: u64 = 0xcbf29ce484222325;
    let mut b: u64 = 0x84222325cbf29ce4;
    for &c in s.as_bytes() {
        a ^= c as u64;
        a = a.wrapping_mul(0x100000001b3);
        b ^= (c as u64) ^ 0x5a;
        b = b.wrapping_mul(0x100000001b3).rotate_left(7);
    }
    format!("{:016x}{:016x}", a, b)
}

struct Outcome {
    verdict: &'static str,
    msg: String,
}

macro_rules! hv_programs {
    ($set:ident; $(($m:ident, $f:ident, $exp:ident, $run:ident);)*) => {
        mod $set {
            use super::*;
            pub const ALL: &[&str] = &[$(stringify!($f)),*];
            pub fn build_one(name: &str) -> Option<Outcome> {
                match name {
                    $(stringify!($f) => Some(run_isolated(|| {
                        let mut flow = FlowBuilder::new();
                        let p1 = flow.process::<()>();
                        let p2 = flow.process::<P2>();
                        let c1 = flow.cluster::<C1>();
                        let (_s1, in1) = p1.sim_input::<i32, TotalOrder, ExactlyOnce>();
                        let (_s2, in2) = p1.sim_input::<i32, TotalOrder, ExactlyOnce>();
                        let out = hv_prog_flows::$m::$f(&p2, &c1, in1, in2);
                        let _recv = out.sim_output();
                        let _compiled = flow.sim().with_cluster_size(&c1, 2).compiled();
                    })),)*
                    _ => None,
                }
            }
        }
    };
}
include!("../gen/list.in");
include!("../gen/list_thorough.in");

/// Run `f` on a fresh thread (fresh thread-locals, big stack); a panic becomes the verdict.
fn run_isolated(f: impl FnOnce() + Send + 'static) -> Outcome {
    let h = std::thread::Builder::new()
        .stack_size(256 << 20)
        .spawn(f)
        .expect("spawn");
    match h.join() {
        Ok(()) => Outcome { verdict: "ok", msg: String::new() },
        Err(e) => Outcome {
            verdict: "panic",
            msg: if let Some(s) = e.downcast_ref::<&str>() {
                s.to_string()
            } else if let Some(s) = e.downcast_ref::<String>() {
                s.clone()
            } else {
                "panic".to_string()
            },
        },
    }
}

fn is_env_failure(msg: &str) -> bool {
    msg.contains("unexpected recompilation in final build")
        || msg.contains("dep prebuild failed")
        || msg.contains("Blocking waiting for file lock")
        || msg.contains("No space left on device")
        || msg.contains("PoisonError")
}

fn build_one(name: &str) -> Outcome {
    q::build_one(name).or_else(|| t::build_one(name)).unwrap_or_else(|| panic!("unknown program {name}"))
}

/// `runs` builds in THIS process (child mode): prints one JSON line {"verdict","msg","crate"} each.
fn child_main(name: &str, runs: usize) {
    std::panic::set_hook(Box::new(|_| {}));
    let bins = BinNames::default();
    let sub = tracing_subscriber::registry()
        .with(tracing_subscriber::filter::LevelFilter::DEBUG)
        .with(bins.clone());
    tracing::subscriber::set_global_default(sub).expect("set tracing subscriber");
    for _ in 0..runs {
        bins.0.lock().unwrap().clear();
        let o = build_one(name);
        let krate = bins.0.lock().unwrap().last().cloned().unwrap_or_default();
        println!("{}", json!({"verdict": o.verdict, "msg": o.msg, "crate": krate}));
    }
}

/// Run one build in a child process: hydro_lang keeps process-wide state (static mutexes that a
/// panic poisons, thread-locals), so one failing program must not influence the next one.
/// The child's stderr carries rustc's diagnostics for generated code that does not compile.
fn build_in_child(name: &str, tag: &str, runs: usize) -> Vec<(Outcome, String)> {
    let exe = std::env::current_exe().unwrap();
    let out = std::process::Command::new(exe)
        .args(["--one", name, &runs.to_string()])
        .env("VERIF_PROC_TAG", tag)
        .stdin(std::process::Stdio::null())
        .output()
        .expect("spawn child");
    let stdout = String::from_utf8_lossy(&out.stdout);
    let stderr = String::from_utf8_lossy(&out.stderr);
    let mut res = Vec::new();
    for line in stdout.lines().filter(|l| l.starts_with("{\"")) {
        let Ok(v) = serde_json::from_str::<hv_common::Value>(line) else { continue };
        let verdict = match v["verdict"].as_str() {
            Some("ok") => "ok",
            _ => "panic",
        };
        let mut msg = v["msg"].as_str().unwrap_or("").to_string();
        if verdict != "ok" && msg.contains("final build failed") {
            // rustc's rendered diagnostics (hydro_lang prints them on stderr): keep the first errors
            let clean = strip_ansi(&stderr);
            let errs: Vec<&str> = clean.split("\n\n").filter(|b| b.contains("error")).take(6).collect();
            msg.push_str("\n--- rustc:\n");
            msg.push_str(&errs.join("\n\n"));
        }
        res.push((Outcome { verdict, msg }, v["crate"].as_str().unwrap_or("").to_string()));
    }
    while res.len() < runs {
        let tail: String = strip_ansi(&stderr).chars().rev().take(1500).collect::<String>().chars().rev().collect();
        res.push((
            Outcome { verdict: "panic", msg: format!("builder process died ({:?}): {}", out.status, tail) },
            String::new(),
        ));
    }
    res
}

fn strip_ansi(s: &str) -> String {
    let mut out = String::new();
    let mut it = s.chars().peekable();
    while let Some(c) = it.next() {
        if c == '\u{1b}' {
            for d in it.by_ref() {
                if d.is_ascii_alphabetic() {
                    break;
                }
            }
        } else {
            out.push(c);
        }
    }
    out
}

fn main() {
    // flow.sim() builds a trybuild project for the crate named by CARGO_MANIFEST_DIR and runs
    // `cargo metadata` in the current directory
    unsafe { std::env::set_var("CARGO_MANIFEST_DIR", env!("CARGO_MANIFEST_DIR")) };
    std::env::set_current_dir(env!("CARGO_MANIFEST_DIR")).unwrap();
    let args: Vec<String> = std::env::args().collect();
    if args.len() == 4 && args[1] == "--one" {
        // heap ballast differing per process tag (addresses must not influence the output)
        let tagn: usize = std::env::var("VERIF_PROC_TAG").unwrap_or_default().bytes().map(|b| b as usize).sum();
        let _ballast: Vec<Vec<u8>> = (0..(tagn % 97 + 5)).map(|i| vec![0u8; 1000 + 13 * i]).collect();
        child_main(&args[2], args[3].parse().unwrap());
        return;
    }
    if args.len() < 5 {
        eprintln!("usage: progsim <p1,p2,..|all> <proc-tag> <runs> <abs-out.ndjson> [i/n]");
        std::process::exit(2);
    }
    assert!(std::path::Path::new(&args[4]).is_absolute(), "output path must be absolute");
    let mut names: Vec<String> = if args[1] == "all" {
        q::ALL.iter().map(|s| s.to_string()).collect()
    } else if args[1] == "all+" {
        q::ALL.iter().chain(t::ALL.iter()).map(|s| s.to_string()).collect()
    } else {
        args[1].split(',').map(|s| s.to_string()).collect()
    };
    if let Some(sl) = args.get(5) {
        let (i, n) = sl.split_once('/').expect("slice i/n");
        let (i, n): (usize, usize) = (i.parse().unwrap(), n.parse().unwrap());
        names = names.into_iter().enumerate().filter(|(k, _)| k % n == i).map(|(_, s)| s).collect();
    }
    let runs: usize = args[3].parse().unwrap();
    let examples = std::path::Path::new(env!("CARGO_MANIFEST_DIR"))
        .join("../target/hydro_trybuild/hv_prog_flows/dylib-examples/examples");
    let mut t = Trace::create(&args[4]);
    let mut ok = 0;
    for name in &names {
        let mut results = build_in_child(name, &args[2], runs);
        // The trybuild target directory is shared with other harness crates; a concurrent build
        // of another project can invalidate the prebuilt dependencies under our feet.  That is
        // an environment failure (cargo), not a verdict about the program: retry, then say so.
        let mut attempts = 1;
        // A rustc failure of the generated code is retried as well: a genuine one is deterministic
        // and persists, one caused by a concurrent rewrite of the shared staged sources does not.
        while results.iter().any(|(o, _)| o.verdict == "panic" && (is_env_failure(&o.msg) || o.msg.contains("final build failed")))
            && attempts < 4
        {
            std::thread::sleep(std::time::Duration::from_secs(5 * attempts));
            results = build_in_child(name, &args[2], runs);
            attempts += 1;
        }
        for (i, (mut o, krate)) in results.into_iter().enumerate() {
            if o.verdict == "panic" && is_env_failure(&o.msg) {
                o.verdict = "env";
            }
            let src = if krate.is_empty() {
                String::new()
            } else {
                std::fs::read_to_string(examples.join(format!("{krate}.rs"))).unwrap_or_default()
            };
            if o.verdict == "ok" {
                ok += 1;
            }
            t.ev(json!({"e":"sim","prog":name,"proc":args[2],"run":i + 1,"verdict":o.verdict,"attempts":attempts,
                        "msg": o.msg.chars().take(6000).collect::<String>(),
                        "crate":krate,"src":if src.is_empty() { String::new() } else { fnv_hex(&src) },"srclen":src.len()}));
        }
    }
    t.finish();
    println!("{}", json!({"programs": names.len(), "runs": runs, "ok": ok}));
}
