//! Emitted production code (`generate_embedded`) of the hv_prog_flows programs, one module per
//! program the generator accepted, compiled by rustc as part of this crate; plus the build-time log.
#[allow(unused_imports, unused_qualifications, missing_docs, non_snake_case, unused, clippy::all)]
pub mod gen_progs {
    include!(concat!(env!("OUT_DIR"), "/gen_progs.rs"));
}

/// One verdict per program, written by the build script (JSON array).
pub const BUILD_LOG: &str = include_str!(concat!(env!("OUT_DIR"), "/build_log.json"));
