//! C41 / C42 (production builder): drives the REAL production code generator on the programs of
//! hv_prog_flows and records what it did; verdicts come from TLC (HydroProgTrace / DeterminismTrace).
//!
//!   progc prod <abs-out.ndjson> <all|all+|p1,p2,..>
//!        per program one {"e":"prod",...} event (generator verdict at build time and now, whether
//!        the emitted code is compiled into this binary, content hashes) and per location one
//!        {"e":"prog",...} record in the format of hv_graph (Partition.tla):
//!          G   flat graph of the location as the production emission (ProdDfirBuilder) built it,
//!          G1  after eliminate_extra_unions_tees,
//!          P   the partitioned graph baked into the emitted code by `generate_embedded`
//!              (the meta-graph JSON literal of `Dfir::new`), reloaded like the runtime does,
//!          P2  the partition of G1 computed here with the same public functions
//!        (the flat graph is not observable through `generate_embedded`; it is rebuilt from a deep
//!        clone of the very same IR with the public `compile_network` / `emit` / `build` steps that
//!        `compile_internal` performs, and P2 = P shows that the rebuilt graph is the emitted one).
//!   progc det <abs-out.ndjson> <proc-tag> <runs> <all|all+|p1,..> [withbuild]
//!        every program compiled <runs> times in this process: hashes of the per-location
//!        meta-graph JSON and of the emitted Rust text -> rows for Determinism.tla
//!   progc run <abs-out.ndjson> <all|all+|p1,..>
//!        instantiate the emitted function of every single-location program with channel inputs and
//!        run 4 ticks; one {"e":"run","prog","verdict":"ok"|"panic"|"absent","outs":..} event each
//!   progc show <prog>      print the emitted code of one program (replay aid)
use std::collections::{BTreeMap, HashMap, HashSet};

use dfir_lang::diagnostic::Diagnostics;
use dfir_lang::graph::{
    DfirGraph, FlatGraphBuilderOutput, eliminate_extra_unions_tees, partition_graph,
};
use hv_common::{Trace, Value, json};
use hv_graph::{dump_graph, empty_dump, fnv_hex, parse_cycle_labels};
use hv_prog_flows::types::*;
use hydro_lang::compile::builder::FlowBuilder;
use hydro_lang::compile::embedded::{EmbeddedDeploy, EmbeddedInstantiateEnv, EmbeddedNode};
use hydro_lang::compile::ir;
use hydro_lang::location::{Location, LocationKey};
use slotmap::SparseSecondaryMap;
use syn::visit::Visit;

/// What one run of the production generator on one program produced.
#[derive(Default)]
struct ProdRun {
    /// emitted Rust text (prettyplease) if `generate_embedded` returned
    code: Option<String>,
    /// per generated function (location name): meta-graph JSON baked into the code
    meta: BTreeMap<String, String>,
    /// per generated function: its own text
    fn_text: BTreeMap<String, String>,
    /// records of the shadow compilation, per location name
    shadow: BTreeMap<String, Shadow>,
    shadow_err: String,
}

#[derive(Default)]
struct Shadow {
    g: Value,
    g1: Value,
    p2: Value,
    p2_json: String,
    verdict: String,
    msgs: Vec<String>,
    cyc: Vec<String>,
    cycok: bool,
}

struct MetaFinder {
    found: Option<String>,
}
impl<'ast> Visit<'ast> for MetaFinder {
    fn visit_lit_str(&mut self, l: &'ast syn::LitStr) {
        if self.found.is_none() {
            let s = l.value();
            if s.starts_with('{') && s.contains("\"nodes\"") && serde_json::from_str::<DfirGraph>(&s).is_ok() {
                self.found = Some(s);
            }
        }
    }
    fn visit_macro(&mut self, m: &'ast syn::Macro) {
        // the literal may sit inside a macro invocation: scan its tokens
        fn scan(ts: proc_macro2::TokenStream, me: &mut MetaFinder) {
            for t in ts {
                match t {
                    proc_macro2::TokenTree::Group(g) => scan(g.stream(), me),
                    proc_macro2::TokenTree::Literal(l) => {
                        if let Ok(ls) = syn::parse_str::<syn::LitStr>(&l.to_string()) {
                            me.visit_lit_str(&ls);
                        }
                    }
                    _ => {}
                }
            }
        }
        scan(m.tokens.clone(), self);
    }
}

fn analyse_file(file: &syn::File, run: &mut ProdRun) {
    for item in &file.items {
        if let syn::Item::Fn(f) = item {
            let name = f.sig.ident.to_string();
            let mut mf = MetaFinder { found: None };
            mf.visit_item_fn(f);
            if let Some(j) = mf.found {
                run.meta.insert(name.clone(), j);
            }
            run.fn_text.insert(name, quote::ToTokens::to_token_stream(f).to_string());
        }
    }
}

fn loc_name(key: LocationKey, names: &[(LocationKey, &'static str)]) -> String {
    names.iter().find(|(k, _)| *k == key).map(|(_, n)| n.to_string()).unwrap_or_else(|| format!("{key}"))
}

/// The steps of `DeployFlow::compile_internal` + `build_inner`, performed with the same public
/// functions on a deep clone of the IR, keeping the intermediate graphs.
fn shadow_compile(mut irc: Vec<ir::HydroRoot>, names: &[(LocationKey, &'static str)], run: &mut ProdRun) {
    let mut processes: SparseSecondaryMap<LocationKey, EmbeddedNode> = SparseSecondaryMap::new();
    let mut clusters: SparseSecondaryMap<LocationKey, EmbeddedNode> = SparseSecondaryMap::new();
    let externals: SparseSecondaryMap<LocationKey, EmbeddedNode> = SparseSecondaryMap::new();
    for (k, n) in names {
        let node = EmbeddedNode { fn_name: n.to_string(), location_key: *k };
        if n.starts_with("clu") {
            clusters.insert(*k, node);
        } else {
            processes.insert(*k, node);
        }
    }
    let mut env = EmbeddedInstantiateEnv::default();
    let mut seen_tees: HashMap<_, _> = HashMap::new();
    let mut seen_cluster_members = HashSet::new();
    let mut extra_stmts = SparseSecondaryMap::new();
    for leaf in irc.iter_mut() {
        leaf.compile_network::<EmbeddedDeploy>(
            &mut extra_stmts,
            &mut seen_tees,
            &mut seen_cluster_members,
            &processes,
            &clusters,
            &externals,
            &mut env,
        );
    }
    let builders = ir::emit(&mut irc);
    for (key, b) in builders {
        let name = loc_name(key, names);
        let mut sh = Shadow { g: empty_dump(), g1: empty_dump(), p2: empty_dump(), ..Default::default() };
        match b.build() {
            Err(d) => {
                sh.verdict = "build-error".into();
                sh.msgs = hv_graph::diag_summary(&d);
            }
            Ok(FlatGraphBuilderOutput { mut flat_graph, .. }) => {
                sh.g = dump_graph(&flat_graph);
                eliminate_extra_unions_tees(&mut flat_graph);
                sh.g1 = dump_graph(&flat_graph);
                match partition_graph(flat_graph) {
                    Ok(p) => {
                        sh.verdict = "ok".into();
                        sh.p2_json = serde_json::to_string(&p).unwrap();
                        sh.p2 = dump_graph(&p);
                    }
                    Err(e) => {
                        sh.verdict = "err".into();
                        let msg = e.diagnostic.message.clone();
                        if let Some(c) = parse_cycle_labels(&msg) {
                            sh.cyc = c;
                            sh.cycok = true;
                        }
                        sh.msgs = vec![msg];
                    }
                }
            }
        }
        run.shadow.insert(name, sh);
    }
}

fn panic_msg(e: Box<dyn std::any::Any + Send>) -> String {
    if let Some(s) = e.downcast_ref::<&str>() {
        s.to_string()
    } else if let Some(s) = e.downcast_ref::<String>() {
        s.clone()
    } else {
        "panic".to_string()
    }
}

/// (generator verdict, message, run)
type Outcome = (String, String, ProdRun);

macro_rules! runnable {
    ($f:ident, run) => {
        stringify!($f)
    };
    ($f:ident, norun) => {
        ""
    };
}

macro_rules! hv_programs {
    ($set:ident; $(($m:ident, $f:ident, $exp:ident, $run:ident);)*) => {
        mod $set {
            use super::*;
            pub const ALL: &[(&str, &str)] = &[$((stringify!($f), stringify!($exp))),*];
            pub const RUNNABLE: &[&str] = &[$(runnable!($f, $run)),*];
            /// Build the flow and run `generate_embedded` on a fresh thread.
            pub fn compile(name: &str, with_shadow: bool) -> Option<Outcome> {
                match name {
                    $(stringify!($f) => {
                        // stage 1: flow construction + production generator
                        let h = std::thread::Builder::new().stack_size(256 << 20).spawn(move || {
                            let mut flow = FlowBuilder::new();
                            let p1 = flow.process::<()>();
                            let p2 = flow.process::<P2>();
                            let c1 = flow.cluster::<C1>();
                            let names = vec![
                                (Location::id(&p1).key(), "loc1"),
                                (Location::id(&p2).key(), "loc2"),
                                (Location::id(&c1).key(), "clu1"),
                            ];
                            let o = hv_prog_flows::$m::$f(&p2, &c1, p1.embedded_input("in1"), p1.embedded_input("in2"));
                            o.embedded_output("out");
                            let deploy = flow
                                .with_process(&p1, "loc1")
                                .with_process(&p2, "loc2")
                                .with_cluster(&c1, "clu1");
                            let irc = if with_shadow { Some(ir::deep_clone(deploy.ir())) } else { None };
                            let mut run = ProdRun::default();
                            let r = std::panic::catch_unwind(std::panic::AssertUnwindSafe(|| {
                                deploy.generate_embedded("hv_prog_flows")
                            }));
                            let verdict = match r {
                                Ok(file) => {
                                    analyse_file(&file, &mut run);
                                    run.code = Some(prettyplease::unparse(&file));
                                    ("ok".to_string(), String::new())
                                }
                                Err(e) => ("panic".to_string(), panic_msg(e)),
                            };
                            if let Some(irc) = irc {
                                let sr = std::panic::catch_unwind(std::panic::AssertUnwindSafe(|| {
                                    shadow_compile(irc, &names, &mut run)
                                }));
                                if let Err(e) = sr {
                                    run.shadow_err = panic_msg(e);
                                }
                            }
                            (verdict.0, verdict.1, run)
                        }).expect("spawn");
                        Some(match h.join() {
                            Ok(o) => o,
                            // panic while the flow was being constructed (before the generator ran)
                            Err(e) => ("panic-in-flow".to_string(), panic_msg(e), ProdRun::default()),
                        })
                    })*
                    _ => None,
                }
            }
        }
    };
}
include!("../../../hv_prog_flows/src/gen/list.in");
#[cfg(feature = "thorough")]
include!("../../../hv_prog_flows/src/gen/list_thorough.in");
#[cfg(not(feature = "thorough"))]
mod t {
    pub const ALL: &[(&str, &str)] = &[];
    pub const RUNNABLE: &[&str] = &[];
    pub fn compile(_name: &str, _s: bool) -> Option<super::Outcome> {
        None
    }
}

fn compile(name: &str, with_shadow: bool) -> Outcome {
    q::compile(name, with_shadow)
        .or_else(|| t::compile(name, with_shadow))
        .unwrap_or_else(|| panic!("unknown program {name}"))
}

fn select(arg: &str) -> Vec<(String, String)> {
    let all: Vec<(String, String)> = q::ALL.iter().chain(t::ALL.iter()).map(|(a, b)| (a.to_string(), b.to_string())).collect();
    match arg {
        "all" => q::ALL.iter().map(|(a, b)| (a.to_string(), b.to_string())).collect(),
        "all+" => all,
        list => list
            .split(',')
            .map(|n| all.iter().find(|(a, _)| a == n).cloned().unwrap_or_else(|| panic!("unknown program {n}")))
            .collect(),
    }
}

fn reload(json_text: &str) -> Result<(DfirGraph, usize), String> {
    let mut g: DfirGraph = serde_json::from_str(json_text).map_err(|e| e.to_string())?;
    let mut d = Diagnostics::new();
    g.insert_node_op_insts_all(&mut d);
    Ok((g, d.len()))
}

fn cmd_prod(args: &[String]) {
    let mut tr = Trace::create(&args[0]);
    let build_log: Vec<Value> = serde_json::from_str(hv_prog_embedded::BUILD_LOG).unwrap();
    let mut n_ok = 0;
    let mut n_graphs = 0;
    let progs = select(&args[1]);
    for (name, expect) in &progs {
        let (verdict, msg, run) = compile(name, true);
        let bl = build_log.iter().find(|b| b["prog"] == json!(name)).cloned().unwrap_or(json!({}));
        let code_hash = run.code.as_deref().map(fnv_hex).unwrap_or_default();
        if verdict == "ok" {
            n_ok += 1;
        }
        let mut locs: Vec<String> = run.meta.keys().cloned().collect();
        for l in run.shadow.keys() {
            if !locs.contains(l) {
                locs.push(l.clone());
            }
        }
        locs.sort();
        tr.ev(json!({"e":"prod","prog":name,"expect":expect,"verdict":verdict,
            "msg": msg.chars().take(3000).collect::<String>(),
            "build_verdict": bl.get("verdict").cloned().unwrap_or(json!("missing")),
            "build_msg": bl.get("msg").cloned().unwrap_or(json!("")),
            "compiled": bl.get("compiled").cloned().unwrap_or(json!(false)),
            "code": code_hash, "build_code": bl.get("code").cloned().unwrap_or(json!("")),
            "clen": run.code.as_ref().map(|c| c.len()).unwrap_or(0),
            "locs": locs, "shadow_err": run.shadow_err}));
        for l in &locs {
            let mut rec = json!({
                "e": "prog", "id": format!("{name}/{l}"), "prog": name, "loc": l, "stage": "done", "msgs": [],
                "G": empty_dump(), "G1": empty_dump(), "P": empty_dump(), "P2": empty_dump(), "GM": empty_dump(),
                "rewrite": "ok", "verdict": "", "cyc": [], "cycok": false, "refpanic": false,
                "codegen": "", "serde": "", "serde_diags": 0, "mod": "", "modn": 0,
                "shadow": "", "emitted": false,
            });
            if let Some(sh) = run.shadow.get(l) {
                rec["G"] = sh.g.clone();
                rec["G1"] = sh.g1.clone();
                rec["P2"] = sh.p2.clone();
                rec["shadow"] = json!(sh.verdict);
                rec["msgs"] = json!(sh.msgs);
                rec["cyc"] = json!(sh.cyc);
                rec["cycok"] = json!(sh.cycok);
            } else {
                rec["shadow"] = json!("missing");
            }
            match run.meta.get(l) {
                Some(j) => {
                    rec["emitted"] = json!(true);
                    rec["verdict"] = json!("ok");
                    rec["codegen"] = json!("ok");
                    match reload(j) {
                        Ok((g, nd)) => {
                            rec["serde"] = json!("ok");
                            rec["serde_diags"] = json!(nd);
                            rec["P"] = dump_graph(&g);
                        }
                        Err(e) => rec["serde"] = json!(format!("err: {e}")),
                    }
                    rec["pjson"] = json!(fnv_hex(j));
                    rec["p2json"] = json!(run.shadow.get(l).map(|s| fnv_hex(&s.p2_json)).unwrap_or_default());
                }
                None => {
                    // the generator emitted nothing for this location: its verdict is the shadow's
                    let sv = run.shadow.get(l).map(|s| s.verdict.clone()).unwrap_or_default();
                    rec["verdict"] = json!(if sv == "err" { "err" } else { "panic" });
                    rec["stage"] = json!(if sv == "err" { "partition-error" } else { "partition-panic" });
                }
            }
            n_graphs += 1;
            tr.ev(rec);
        }
    }
    tr.ev(json!({"e":"eof"}));
    tr.finish();
    println!("{}", json!({"programs": progs.len(), "ok": n_ok, "graphs": n_graphs}));
}

/// the first 200 characters of a panic message (what is compared across runs)
fn head(msg: &str) -> String {
    msg.chars().take(200).collect()
}

fn cmd_det(args: &[String]) {
    let mut tr = Trace::create(&args[0]);
    let proc_tag = &args[1];
    let runs: usize = args[2].parse().unwrap();
    let tagn: usize = proc_tag.bytes().map(|b| b as usize).sum();
    let _ballast: Vec<Vec<u8>> = (0..(tagn % 97 + 5)).map(|i| vec![0u8; 1000 + 13 * i]).collect();
    let progs = select(&args[3]);
    let mut n = 0;
    // the build script of this crate was one more process that ran the generator: its hashes
    if args.get(4).is_some_and(|s| s == "withbuild") {
        let build_log: Vec<Value> = serde_json::from_str(hv_prog_embedded::BUILD_LOG).unwrap();
        for (name, _expect) in &progs {
            if let Some(b) = build_log.iter().find(|b| b["prog"] == json!(name)) {
                let ok = b["verdict"] == json!("ok");
                let msg = b["msg"].as_str().unwrap_or("");
                tr.ev(json!({"e":"compile","input":format!("hydro/{name}/file"),"proc":"build-script","run":1,
                    "stage": if ok { "done".to_string() } else { format!("panic:{}", fnv_hex(&head(msg))) },
                    "verdict": if ok { "ok" } else { "panic" }, "graph": "", "code": b["code"], "glen": 0, "clen": b["clen"]}));
                n += 1;
            }
        }
    }
    for (name, _expect) in &progs {
        for run_no in 1..=runs {
            let (verdict, msg, run) = compile(name, false);
            // one row for the whole emitted file ...
            tr.ev(json!({"e":"compile","input":format!("hydro/{name}/file"),"proc":proc_tag,"run":run_no,
                "stage": if verdict == "ok" { "done".to_string() } else { format!("panic:{}", fnv_hex(&head(&msg))) },
                "verdict": if verdict == "ok" { "ok" } else { "panic" }, "graph": "", "code": run.code.as_deref().map(fnv_hex).unwrap_or_default(),
                "glen": 0, "clen": run.code.as_ref().map(|c| c.len()).unwrap_or(0)}));
            n += 1;
            // ... and one per location: partitioned graph JSON + the function's text
            for (l, j) in &run.meta {
                let ft = run.fn_text.get(l).cloned().unwrap_or_default();
                tr.ev(json!({"e":"compile","input":format!("hydro/{name}/{l}"),"proc":proc_tag,"run":run_no,
                    "stage":"done","verdict":"ok","graph":fnv_hex(j),"code":fnv_hex(&ft),
                    "glen": j.len(), "clen": ft.len()}));
                n += 1;
            }
        }
    }
    tr.finish();
    println!("{}", json!({"programs": progs.len(), "rows": n}));
}

/// Instantiate the emitted function of every single-location program and run it for a few ticks
/// (the emitted functions are generic over their input streams: rustc type-checks them when the
/// crate is built, this forces their monomorphisation and executes the generated glue).
fn cmd_run(args: &[String]) {
    let mut tr = Trace::create(&args[0]);
    let progs = select(&args[1]);
    let ticks = 4;
    let (mut n, mut ok) = (0, 0);
    for (name, _expect) in &progs {
        if !(q::RUNNABLE.contains(&name.as_str()) || t::RUNNABLE.contains(&name.as_str())) {
            continue;
        }
        let nm = name.clone();
        let h = std::thread::Builder::new()
            .stack_size(64 << 20)
            .spawn(move || hv_prog_embedded::gen_progs::run_prog(&nm, ticks))
            .expect("spawn");
        n += 1;
        match h.join() {
            Ok(Some(outs)) => {
                ok += 1;
                let trunc: Vec<Vec<String>> = outs.iter().map(|t| t.iter().take(12).cloned().collect()).collect();
                tr.ev(json!({"e":"run","prog":name,"verdict":"ok","msg":"","ticks":ticks,
                             "emitted": outs.iter().map(|t| t.len()).collect::<Vec<_>>(), "outs": trunc}));
            }
            // generator rejected it / rustc excluded it: nothing to run (the prod event says why)
            Ok(None) => tr.ev(json!({"e":"run","prog":name,"verdict":"absent","msg":"","ticks":0,"emitted":[],"outs":[]})),
            Err(e) => tr.ev(json!({"e":"run","prog":name,"verdict":"panic","msg":panic_msg(e).chars().take(2000).collect::<String>(),
                                   "ticks":ticks,"emitted":[],"outs":[]})),
        }
    }
    tr.finish();
    println!("{}", json!({"runnable": n, "ok": ok}));
}

fn cmd_show(args: &[String]) {
    let (verdict, msg, run) = compile(&args[0], true);
    println!("// verdict: {verdict} {msg}");
    for (l, sh) in &run.shadow {
        println!("// shadow {l}: {} {:?}", sh.verdict, sh.msgs);
    }
    println!("{}", run.code.unwrap_or_default());
}

fn main() {
    std::panic::set_hook(Box::new(|_| {}));
    // stageleft / proc_macro_crate resolve crate names through the manifest of the "current"
    // crate: the same one the build script of this crate ran under
    unsafe { std::env::set_var("CARGO_MANIFEST_DIR", env!("CARGO_MANIFEST_DIR")) };
    let args: Vec<String> = std::env::args().collect();
    match args.get(1).map(|s| s.as_str()) {
        Some("prod") => cmd_prod(&args[2..]),
        Some("det") => cmd_det(&args[2..]),
        Some("run") => cmd_run(&args[2..]),
        Some("show") => cmd_show(&args[2..]),
        _ => {
            eprintln!("usage: progc prod|det|show ...");
            std::process::exit(2);
        }
    }
}
