//! Runs the PRODUCTION code generator (`generate_embedded`) on every listed program of
//! hv_prog_flows, each on its own thread with panics caught, and writes
//!   OUT_DIR/<prog>.rs        the emitted Rust (only for programs the generator accepted)
//!   OUT_DIR/gen_progs.rs     `pub mod <prog> { include!(..) }` for those -- compiled into the lib,
//!                            so a rustc error in emitted code fails the build of this crate
//!   OUT_DIR/build_log.json   one verdict per program (ok | panic + message) with the content hash
//!                            of the emitted code -- the build never fails because of a program.
use hv_prog_flows::types::*;
use hydro_lang::compile::builder::FlowBuilder;
use hydro_lang::location::Location;

fn fnv_hex(s: &str) -> String {
    let mut a: u64 = 0xcbf29ce484222325;
    let mut b: u64 = 0x84222325cbf29ce4;
    for &c in s.as_bytes() {
        a ^= c as u64;
        a = a.wrapping_mul(0x100000001b3);
        b ^= (c as u64) ^ 0x5a;
        b = b.wrapping_mul(0x100000001b3).rotate_left(7);
    }
    format!("{:016x}{:016x}", a, b)
}

fn run_isolated(f: impl FnOnce() -> String + Send + 'static) -> Result<String, String> {
    let h = std::thread::Builder::new()
        .stack_size(256 << 20)
        .spawn(f)
        .expect("spawn");
    h.join().map_err(|e| {
        if let Some(s) = e.downcast_ref::<&str>() {
            s.to_string()
        } else if let Some(s) = e.downcast_ref::<String>() {
            s.clone()
        } else {
            "panic".to_string()
        }
    })
}

macro_rules! hv_programs {
    ($set:ident; $(($m:ident, $f:ident, $exp:ident, $run:ident);)*) => {
        mod $set {
            use super::*;
            pub fn generate_all(out: &mut Vec<(String, String, String, Result<String, String>)>) {
                $(
                    let r = run_isolated(|| {
                        let mut flow = FlowBuilder::new();
                        let p1 = flow.process::<()>();
                        let p2 = flow.process::<P2>();
                        let c1 = flow.cluster::<C1>();
                        let o = hv_prog_flows::$m::$f(
                            &p2,
                            &c1,
                            p1.embedded_input("in1"),
                            p1.embedded_input("in2"),
                        );
                        o.embedded_output("out");
                        let code = flow
                            .with_process(&p1, "loc1")
                            .with_process(&p2, "loc2")
                            .with_cluster(&c1, "clu1")
                            .generate_embedded("hv_prog_flows");
                        prettyplease::unparse(&code)
                    });
                    out.push((stringify!($f).to_string(), stringify!($exp).to_string(), stringify!($run).to_string(), r));
                )*
            }
        }
    };
}
include!("../hv_prog_flows/src/gen/list.in");
#[cfg(feature = "thorough")]
include!("../hv_prog_flows/src/gen/list_thorough.in");

/// Inputs: tick 0 gets in1 = [1, 2, 3], in2 = [5]; tick 1 gets in1 = [4, 5, 6], in2 = [6]; later
/// ticks get nothing.  Everything handed to the output callback during a tick is that tick's output.
const RUNNER: &str = r#"
pub fn run_NAME(ticks: usize) -> Vec<Vec<String>> {
    let cur: std::rc::Rc<std::cell::RefCell<Vec<String>>> = Default::default();
    let sink = cur.clone();
    let in1 = dfir_rs::util::unbounded_channel::<i32>();
    let in2 = dfir_rs::util::unbounded_channel::<i32>();
    let mut outs = NAME::loc1::EmbeddedOutputs { out: move |x| sink.borrow_mut().push(format!("{:?}", x)) };
    let mut flow = NAME::loc1(in1.1, in2.1, &mut outs);
    let mut res = Vec::new();
    for t in 0..ticks {
        if t < 2 {
            for k in 1..=3 {
                in1.0.send((3 * t + k) as i32).unwrap();
            }
            in2.0.send((5 + t) as i32).unwrap();
        }
        flow.run_tick_sync();
        res.push(std::mem::take(&mut *cur.borrow_mut()));
    }
    res
}
"#;

fn main() {
    println!("cargo::rerun-if-changed=build.rs");
    println!("cargo::rerun-if-changed=../hv_prog_flows/src/gen/list.in");
    println!("cargo::rerun-if-changed=../hv_prog_flows/src/gen/list_thorough.in");
    println!("cargo::rerun-if-env-changed=HV_PROG_EXCLUDE");
    // programs whose emitted code rustc rejected in an earlier attempt (set by lib/fam_hydroprog.py
    // so that one bad program does not block the others): generated and logged, not compiled
    let exclude: Vec<String> = std::env::var("HV_PROG_EXCLUDE")
        .unwrap_or_default()
        .split(',')
        .map(|s| s.to_string())
        .collect();
    std::panic::set_hook(Box::new(|_| {}));
    let out_dir = std::env::var("OUT_DIR").unwrap();
    let mut all = Vec::new();
    q::generate_all(&mut all);
    #[cfg(feature = "thorough")]
    t::generate_all(&mut all);
    let mut mods = String::new();
    let mut runners = String::new();
    let mut dispatch = String::new();
    let mut log = Vec::new();
    for (name, expect, run, r) in &all {
        match r {
            Ok(code) => {
                std::fs::write(format!("{out_dir}/{name}.rs"), code).unwrap();
                let excluded = exclude.contains(name);
                if !excluded {
                    mods.push_str(&format!(
                        "pub mod {name} {{ include!(concat!(env!(\"OUT_DIR\"), \"/{name}.rs\")); }}\n"
                    ));
                    if run == "run" {
                        // instantiate the emitted function of a single-location program and run it
                        runners.push_str(&RUNNER.replace("NAME", name));
                        dispatch.push_str(&format!("        \"{name}\" => Some(run_{name}(ticks)),\n"));
                    }
                }
                log.push(serde_json::json!({"prog": name, "expect": expect, "verdict": "ok", "msg": "",
                    "compiled": !excluded, "code": fnv_hex(code), "clen": code.len()}));
            }
            Err(msg) => {
                log.push(serde_json::json!({"prog": name, "expect": expect, "verdict": "panic",
                    "msg": msg.chars().take(4000).collect::<String>(), "compiled": false, "code": "", "clen": 0}));
            }
        }
    }
    mods.push_str(&runners);
    mods.push_str(&format!(
        "/// Runs the emitted dataflow of a single-location program for `ticks` ticks; per tick the items it emitted.\n\
         pub fn run_prog(name: &str, ticks: usize) -> Option<Vec<Vec<String>>> {{\n    match name {{\n{dispatch}        _ => None,\n    }}\n}}\n"
    ));
    std::fs::write(format!("{out_dir}/gen_progs.rs"), mods).unwrap();
    std::fs::write(
        format!("{out_dir}/build_log.json"),
        serde_json::to_string(&log).unwrap(),
    )
    .unwrap();
}
