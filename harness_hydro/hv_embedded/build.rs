//! Compiles every program of the hv_flows corpus with the PRODUCTION code generator
//! (`generate_embedded`) and writes one Rust file per program into OUT_DIR, plus `ops.json`:
//! the DFIR operators that the generated code of each program contains (read off the
//! `op_<id>__<operator>__<n>` helper functions emitted by dfir_lang's `as_code`).
use hydro_lang::compile::builder::FlowBuilder;
use hydro_lang::location::Location;

#[allow(dead_code)]
type KV = (i32, i32);

macro_rules! programs {
    ($($name:ident($($inp:ident : $ity:ty),*);)*) => {
        fn generate_all() -> Vec<(String, String)> {
            let mut files = Vec::new();
            $({
                let mut flow = FlowBuilder::new();
                let p = flow.process::<()>();
                hv_flows::flows::$name($(p.embedded_input(stringify!($inp))),*);
                let code = flow
                    .with_process(&p, stringify!($name))
                    .generate_embedded("hv_flows");
                files.push((stringify!($name).to_string(), prettyplease::unparse(&code)));
            })*
            files
        }
    };
}
include!("programs.in");

fn ops_of(code: &str) -> Vec<String> {
    // `fn op_3v1__fold__5<T>(thunk: impl ::std::ops::FnOnce() -> T) -> T`
    let mut ops = Vec::new();
    for line in code.lines() {
        let l = line.trim_start();
        if let Some(rest) = l.strip_prefix("fn op_") {
            if !rest.contains("<T>(thunk") {
                continue;
            }
            let parts: Vec<&str> = rest.split("__").collect();
            if parts.len() >= 3 {
                ops.push(parts[1].to_string());
            }
        }
    }
    ops.sort();
    ops
}

fn main() {
    println!("cargo::rerun-if-changed=build.rs");
    println!("cargo::rerun-if-changed=programs.in");
    let out_dir = std::env::var("OUT_DIR").unwrap();
    let files = generate_all();
    let mut all = String::new();
    let mut ops = String::from("{");
    for (i, (name, code)) in files.iter().enumerate() {
        std::fs::write(format!("{out_dir}/{name}.rs"), code).unwrap();
        all.push_str(&format!(
            "pub mod {name} {{ include!(concat!(env!(\"OUT_DIR\"), \"/{name}.rs\")); }}\n"
        ));
        if i > 0 {
            ops.push(',');
        }
        let list: Vec<String> = ops_of(code).iter().map(|o| format!("\"{o}\"")).collect();
        ops.push_str(&format!("\"{name}\":[{}]", list.join(",")));
    }
    ops.push('}');
    std::fs::write(format!("{out_dir}/gen_flows.rs"), all).unwrap();
    std::fs::write(format!("{out_dir}/ops.json"), ops).unwrap();
}
