//! Conformance runner for the HydroFlow family (C28, C29, C30, C32, C33).
//!   hydroflow replay <cases.ndjson> <trace.ndjson>   run every case on the REAL generated Dfir
//!   hydroflow describe                               print {"programs":[..],"ops":{..}}
//! A case is {"case":id,"prog":name,"ticks":[{"in1":[..],"in2":[..]},..]}: the items of tick k
//! are sent on the input channels, then `run_tick_sync()` is called once; everything the
//! program emits during that call is the tick's output.  The runner decides nothing: it logs
//! what went in and what came out (or the panic message) per tick.
use std::cell::RefCell;
use std::rc::Rc;

use hv_common::{Trace, Value, json};

type KV = (i32, i32);

trait FromJ {
    fn fj(v: &Value) -> Self;
}
impl FromJ for i32 {
    fn fj(v: &Value) -> Self {
        v.as_i64().expect("int item") as i32
    }
}
impl FromJ for KV {
    fn fj(v: &Value) -> Self {
        (
            v[0].as_i64().expect("pair item") as i32,
            v[1].as_i64().expect("pair item") as i32,
        )
    }
}

/// JSON normal form of an emitted item: booleans become 0/1 (TLC compares integers).
fn norm(v: Value) -> Value {
    match v {
        Value::Bool(b) => json!(if b { 1 } else { 0 }),
        Value::Array(a) => Value::Array(a.into_iter().map(norm).collect()),
        other => other,
    }
}

type RunFn = fn(&[Value]) -> Vec<Vec<Value>>;

macro_rules! programs {
    ($($name:ident($($inp:ident : $ity:ty),*);)*) => {
        $(
            fn $name(ticks: &[Value]) -> Vec<Vec<Value>> {
                let cur: Rc<RefCell<Vec<Value>>> = Rc::default();
                let sink = cur.clone();
                $( let $inp = dfir_rs::util::unbounded_channel::<$ity>(); )*
                let mut outs = hv_embedded::gen_flows::$name::$name::EmbeddedOutputs {
                    out: move |x| sink.borrow_mut().push(norm(serde_json::to_value(&x).unwrap())),
                };
                let mut flow = hv_embedded::gen_flows::$name::$name($($inp.1,)* &mut outs);
                let mut res = Vec::new();
                for t in ticks {
                    $(
                        if let Some(items) = t.get(stringify!($inp)).and_then(|x| x.as_array()) {
                            for it in items {
                                $inp.0.send(<$ity as FromJ>::fj(it)).unwrap();
                            }
                        }
                    )*
                    flow.run_tick_sync();
                    res.push(std::mem::take(&mut *cur.borrow_mut()));
                }
                res
            }
        )*
        const PROGRAMS: &[(&str, RunFn)] = &[$((stringify!($name), $name as RunFn)),*];
    };
}
include!("../../programs.in");

fn main() {
    let args: Vec<String> = std::env::args().collect();
    match args.get(1).map(|s| s.as_str()) {
        Some("describe") => {
            let ops: Value = serde_json::from_str(hv_embedded::OPS_JSON).unwrap();
            let names: Vec<&str> = PROGRAMS.iter().map(|p| p.0).collect();
            println!("{}", json!({"programs": names, "ops": ops}));
        }
        Some("replay") => {
            let cases = hv_common::read_ndjson(&args[2]);
            let mut tr = Trace::create(&args[3]);
            let (mut n, mut panics) = (0usize, 0usize);
            for c in &cases {
                let prog = c["prog"].as_str().expect("prog");
                let f = PROGRAMS
                    .iter()
                    .find(|p| p.0 == prog)
                    .unwrap_or_else(|| panic!("unknown program {prog}"))
                    .1;
                let ticks = c["ticks"].as_array().expect("ticks").clone();
                let r = hv_common::catch(|| f(&ticks));
                n += 1;
                match r {
                    Ok(outs) => tr.ev(json!({"e": "run", "case": c["case"], "prog": prog,
                                             "ticks": ticks, "outs": outs, "panic": 0})),
                    Err(msg) => {
                        panics += 1;
                        tr.ev(json!({"e": "run", "case": c["case"], "prog": prog,
                                     "ticks": ticks, "outs": [], "panic": 1, "msg": msg}))
                    }
                }
            }
            tr.ev(json!({"e": "eof"}));
            tr.finish();
            println!("{}", json!({"cases": n, "panics": panics}));
        }
        _ => {
            eprintln!("usage: hydroflow replay <cases.ndjson> <trace.ndjson> | describe");
            std::process::exit(2);
        }
    }
}
