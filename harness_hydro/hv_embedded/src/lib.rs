//! Generated (production `generate_embedded`) code of the hv_flows corpus, one module per program.
#[allow(unused_imports, unused_qualifications, missing_docs, non_snake_case, clippy::all)]
pub mod gen_flows {
    include!(concat!(env!("OUT_DIR"), "/gen_flows.rs"));
}

/// DFIR operators present in the generated code of each program (JSON object name -> [ops]).
pub const OPS_JSON: &str = include_str!(concat!(env!("OUT_DIR"), "/ops.json"));
