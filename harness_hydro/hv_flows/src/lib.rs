//! Corpus of small Hydro programs (closed closure vocabulary) for the HydroFlow family
//! (C28, C29, C30, C32, C33).  Each program is described in `corpus.json` by its HydroFlow.tla term.
#[cfg(stageleft_runtime)]
hydro_lang::setup!();

pub mod flows;
