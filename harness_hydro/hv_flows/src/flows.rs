//! The corpus.  Every function is one Hydro program written against the public API only;
//! closures come from the closed vocabulary of spec/HydroFlow/HydroFlow.tla (MapF, FilterP,
//! FlatF, FoldF, ReduceF, ScanF).  `corpus.json` names the HydroFlow term of each program.
//!
//! Observation conventions (the only uses of `nondet!`/`assume_ordering` in this file):
//!  * a top-level singleton / optional / keyed singleton is observed through a per-tick
//!    snapshot (`obs_snapshot!` / `obs_ksnapshot!`); only its FINAL value is promised (C28),
//!    the sequence of snapshots is what C33 speaks about;
//!  * an unordered stream is handed to `embedded_output` (which wants TotalOrder) through
//!    `obs_bag!`; the harness compares it as a bag (or per key);
//!  * `batch` of an input is the tick partition itself (the harness decides it).
use hydro_lang::live_collections::stream::{AtLeastOnce, NoOrder, TotalOrder};
use hydro_lang::prelude::*;

type P<'a> = Process<'a, ()>;
type In<'a, T> = Stream<T, P<'a>>;
type KV = (i32, i32);

macro_rules! obs_snapshot {
    ($s:expr) => {{
        let s = $s;
        let tick = s.location().tick();
        s.snapshot(&tick, nondet!(/** per-tick observation by the harness */))
            .all_ticks()
            .embedded_output("out");
    }};
}

macro_rules! obs_ksnapshot {
    ($s:expr) => {{
        let s = $s;
        let tick = s.location().tick();
        s.snapshot(&tick, nondet!(/** per-tick observation by the harness */))
            .entries()
            .all_ticks()
            .assume_ordering::<TotalOrder>(nondet!(/** compared as a bag by the harness */))
            .embedded_output("out");
    }};
}

macro_rules! obs_bag {
    ($s:expr) => {{
        $s.assume_ordering::<TotalOrder>(nondet!(/** compared as a bag by the harness */))
            .embedded_output("out");
    }};
}

macro_rules! batch {
    ($s:expr, $tick:expr) => {
        $s.batch($tick, nondet!(/** the tick partition is chosen by the harness */))
    };
}

// ------------------------------------------------------------------------------------------
// top-level (unbounded) programs: C28 / C29
// ------------------------------------------------------------------------------------------

pub fn map_unique<'a>(in1: In<'a, i32>) {
    in1.map(q!(|x| x % 3)).unique().embedded_output("out");
}

pub fn pipeline<'a>(in1: In<'a, i32>) {
    in1.map(q!(|x| x + 1))
        .filter(q!(|x| x % 2 == 0))
        .flat_map_ordered(q!(|x| [x, x + 10]))
        .embedded_output("out");
}

pub fn enumerate_top<'a>(in1: In<'a, i32>) {
    in1.enumerate().embedded_output("out");
}

pub fn scan_runsum<'a>(in1: In<'a, i32>) {
    in1.scan(
        q!(|| 0i32),
        q!(|s, x| {
            *s += x;
            Some(*s)
        }),
    )
    .embedded_output("out");
}

pub fn scan_stop<'a>(in1: In<'a, i32>) {
    in1.scan(
        q!(|| 0i32),
        q!(|s, x| {
            if *s + x > 5 {
                None
            } else {
                *s += x;
                Some(*s)
            }
        }),
    )
    .embedded_output("out");
}

pub fn fold_sum<'a>(in1: In<'a, i32>) {
    obs_snapshot!(in1.fold(
        q!(|| 0i32),
        q!(|acc, x| *acc += x, commutative = manual_proof!(/** integer sum */))
    ));
}

pub fn fold_vec<'a>(in1: In<'a, i32>) {
    obs_snapshot!(in1.collect_vec());
}

pub fn reduce_sum<'a>(in1: In<'a, i32>) {
    obs_snapshot!(in1.reduce(q!(
        |acc, x| *acc += x,
        commutative = manual_proof!(/** integer sum */)
    )));
}

pub fn max_top<'a>(in1: In<'a, i32>) {
    obs_snapshot!(in1.max());
}

pub fn count_top<'a>(in1: In<'a, i32>) {
    obs_snapshot!(in1.count());
}

pub fn first_top<'a>(in1: In<'a, i32>) {
    obs_snapshot!(in1.first());
}

pub fn last_top<'a>(in1: In<'a, i32>) {
    obs_snapshot!(in1.last());
}

pub fn join_top<'a>(in1: In<'a, KV>, in2: In<'a, KV>) {
    obs_bag!(in1.join(in2));
}

pub fn cross_top<'a>(in1: In<'a, i32>, in2: In<'a, i32>) {
    obs_bag!(in1.cross_product(in2));
}

pub fn interleave_top<'a>(in1: In<'a, i32>, in2: In<'a, i32>) {
    obs_bag!(in1.merge_unordered(in2));
}

pub fn chain_const<'a>(in1: In<'a, i32>) {
    let first = in1.location().source_iter(q!([7, 8]));
    first.chain(in1).embedded_output("out");
}

pub fn antijoin_const<'a>(in1: In<'a, KV>) {
    let neg = in1.location().source_iter(q!([1]));
    in1.anti_join(neg).embedded_output("out");
}

pub fn filter_not_in_const<'a>(in1: In<'a, i32>) {
    let neg = in1.location().source_iter(q!([1, 2]));
    in1.filter_not_in(neg).embedded_output("out");
}

pub fn cross_singleton_const<'a>(in1: In<'a, i32>) {
    let s = in1.location().source_iter(q!([1, 2, 3])).fold(
        q!(|| 0i32),
        q!(|acc, x| *acc += x, commutative = manual_proof!(/** integer sum */)),
    );
    in1.cross_singleton(s).embedded_output("out");
}

pub fn join_half_const<'a>(in1: In<'a, KV>) {
    let right = in1.location().source_iter(q!([(0, 5), (1, 6), (0, 7)]));
    in1.join(right).embedded_output("out");
}

pub fn keyed_fold<'a>(in1: In<'a, KV>) {
    obs_ksnapshot!(in1.into_keyed().fold(
        q!(|| 0i32),
        q!(|acc, x| *acc += x, commutative = manual_proof!(/** integer sum */))
    ));
}

pub fn keyed_reduce_max<'a>(in1: In<'a, KV>) {
    obs_ksnapshot!(in1.into_keyed().reduce(q!(
        |acc, x| {
            if x > *acc {
                *acc = x;
            }
        },
        commutative = manual_proof!(/** max */)
    )));
}

pub fn value_counts_top<'a>(in1: In<'a, KV>) {
    obs_ksnapshot!(in1.into_keyed().value_counts());
}

pub fn keyed_first<'a>(in1: In<'a, KV>) {
    obs_bag!(in1.into_keyed().first().entries());
}

pub fn keyed_scan<'a>(in1: In<'a, KV>) {
    obs_bag!(
        in1.into_keyed()
            .scan(
                q!(|| 0i32),
                q!(|s, x| {
                    *s += x;
                    Some(*s)
                })
            )
            .entries()
    );
}

pub fn keyed_scan_stop<'a>(in1: In<'a, KV>) {
    obs_bag!(
        in1.into_keyed()
            .scan(
                q!(|| 0i32),
                q!(|s, x| {
                    if *s + x > 5 {
                        None
                    } else {
                        *s += x;
                        Some(*s)
                    }
                })
            )
            .entries()
    );
}

pub fn keyed_enumerate<'a>(in1: In<'a, KV>) {
    obs_bag!(in1.into_keyed().enumerate().entries());
}

pub fn keyed_map<'a>(in1: In<'a, KV>) {
    obs_bag!(
        in1.into_keyed()
            .map(q!(|v| v + 1))
            .filter(q!(|v| v % 2 == 0))
            .entries()
    );
}

pub fn key_count_top<'a>(in1: In<'a, KV>) {
    obs_snapshot!(
        in1.into_keyed()
            .fold(
                q!(|| 0i32),
                q!(|acc, x| *acc += x, commutative = manual_proof!(/** integer sum */))
            )
            .key_count()
    );
}

// ------------------------------------------------------------------------------------------
// operators with internal order / retry assumptions: C32 (inputs typed NoOrder / AtLeastOnce)
// ------------------------------------------------------------------------------------------

pub fn max_noorder<'a>(in1: In<'a, i32>) {
    obs_snapshot!(in1.weaken_ordering::<NoOrder>().max());
}

pub fn min_alo<'a>(in1: In<'a, i32>) {
    obs_snapshot!(in1.weaken_ordering::<NoOrder>().weaken_retries::<AtLeastOnce>().min());
}

/// TotalOrder + AtLeastOnce: an element may be delivered again right after itself
pub fn first_alo<'a>(in1: In<'a, i32>) {
    obs_snapshot!(in1.weaken_retries::<AtLeastOnce>().first());
}

pub fn last_alo<'a>(in1: In<'a, i32>) {
    obs_snapshot!(in1.weaken_retries::<AtLeastOnce>().last());
}

pub fn count_noorder<'a>(in1: In<'a, i32>) {
    obs_snapshot!(in1.weaken_ordering::<NoOrder>().count());
}

pub fn unique_alo<'a>(in1: In<'a, i32>) {
    obs_bag!(in1.weaken_ordering::<NoOrder>().weaken_retries::<AtLeastOnce>().unique());
}

pub fn value_counts_noorder<'a>(in1: In<'a, KV>) {
    obs_ksnapshot!(in1.into_keyed().weaken_ordering::<NoOrder>().value_counts());
}

pub fn keys_noorder<'a>(in1: In<'a, KV>) {
    obs_bag!(in1.into_keyed().weaken_ordering::<NoOrder>().keys());
}

pub fn t_get_max_key_noorder<'a>(in1: In<'a, KV>) {
    let tick = in1.location().tick();
    batch!(in1.weaken_ordering::<NoOrder>(), &tick)
        .into_keyed()
        .fold(
            q!(|| 0i32),
            q!(|acc, x| *acc += x, commutative = manual_proof!(/** integer sum */)),
        )
        .get_max_key()
        .all_ticks()
        .embedded_output("out");
}

pub fn key_count_noorder<'a>(in1: In<'a, KV>) {
    obs_snapshot!(in1.into_keyed().weaken_ordering::<NoOrder>().value_counts().key_count());
}

pub fn t_is_empty_noorder<'a>(in1: In<'a, i32>) {
    let tick = in1.location().tick();
    batch!(in1.weaken_ordering::<NoOrder>(), &tick)
        .is_empty()
        .all_ticks()
        .embedded_output("out");
}

pub fn t_max_alo<'a>(in1: In<'a, i32>) {
    let tick = in1.location().tick();
    batch!(in1.weaken_ordering::<NoOrder>().weaken_retries::<AtLeastOnce>(), &tick)
        .max()
        .all_ticks()
        .embedded_output("out");
}

pub fn t_repeat_with_keys<'a>(in1: In<'a, i32>, in2: In<'a, KV>) {
    let tick = in1.location().tick();
    let keys = batch!(in2.weaken_ordering::<NoOrder>(), &tick)
        .into_keyed()
        .value_counts();
    obs_bag!(
        batch!(in1, &tick)
            .repeat_with_keys(keys)
            .entries()
            .all_ticks()
    );
}

/// join with a bounded right side preserves the left order: the result is typed TotalOrder
/// even when the right side is NoOrder.
pub fn t_join_noorder_right<'a>(in1: In<'a, KV>, in2: In<'a, KV>) {
    let tick = in1.location().tick();
    batch!(in1, &tick)
        .join(batch!(in2.weaken_ordering::<NoOrder>(), &tick))
        .all_ticks()
        .embedded_output("out");
}

// ------------------------------------------------------------------------------------------
// tick-scoped programs: C30
// ------------------------------------------------------------------------------------------

pub fn t_count<'a>(in1: In<'a, i32>) {
    let tick = in1.location().tick();
    batch!(in1, &tick).count().all_ticks().embedded_output("out");
}

pub fn t_fold_sum<'a>(in1: In<'a, i32>) {
    let tick = in1.location().tick();
    batch!(in1, &tick)
        .fold(
            q!(|| 0i32),
            q!(|acc, x| *acc += x, commutative = manual_proof!(/** integer sum */)),
        )
        .all_ticks()
        .embedded_output("out");
}

pub fn t_collect_vec<'a>(in1: In<'a, i32>) {
    let tick = in1.location().tick();
    batch!(in1, &tick)
        .collect_vec()
        .all_ticks()
        .embedded_output("out");
}

pub fn t_max<'a>(in1: In<'a, i32>) {
    let tick = in1.location().tick();
    batch!(in1, &tick).max().all_ticks().embedded_output("out");
}

pub fn t_first<'a>(in1: In<'a, i32>) {
    let tick = in1.location().tick();
    batch!(in1, &tick).first().all_ticks().embedded_output("out");
}

pub fn t_last<'a>(in1: In<'a, i32>) {
    let tick = in1.location().tick();
    batch!(in1, &tick).last().all_ticks().embedded_output("out");
}

pub fn t_sort<'a>(in1: In<'a, i32>) {
    let tick = in1.location().tick();
    batch!(in1, &tick).sort().all_ticks().embedded_output("out");
}

pub fn t_limit2<'a>(in1: In<'a, i32>) {
    let tick = in1.location().tick();
    batch!(in1, &tick)
        .limit(q!(2))
        .all_ticks()
        .embedded_output("out");
}

pub fn t_enumerate<'a>(in1: In<'a, i32>) {
    let tick = in1.location().tick();
    batch!(in1, &tick)
        .enumerate()
        .all_ticks()
        .embedded_output("out");
}

pub fn t_unique<'a>(in1: In<'a, i32>) {
    let tick = in1.location().tick();
    batch!(in1, &tick).unique().all_ticks().embedded_output("out");
}

pub fn t_scan_stop<'a>(in1: In<'a, i32>) {
    let tick = in1.location().tick();
    batch!(in1, &tick)
        .scan(
            q!(|| 0i32),
            q!(|s, x| {
                if *s + x > 5 {
                    None
                } else {
                    *s += x;
                    Some(*s)
                }
            }),
        )
        .all_ticks()
        .embedded_output("out");
}

pub fn t_cross_singleton<'a>(in1: In<'a, i32>, in2: In<'a, i32>) {
    let tick = in1.location().tick();
    let c = batch!(in2, &tick).count();
    batch!(in1, &tick)
        .cross_singleton(c)
        .all_ticks()
        .embedded_output("out");
}

pub fn t_join<'a>(in1: In<'a, KV>, in2: In<'a, KV>) {
    let tick = in1.location().tick();
    batch!(in1, &tick)
        .join(batch!(in2, &tick))
        .all_ticks()
        .embedded_output("out");
}

pub fn t_anti_join<'a>(in1: In<'a, KV>, in2: In<'a, i32>) {
    let tick = in1.location().tick();
    batch!(in1, &tick)
        .anti_join(batch!(in2, &tick))
        .all_ticks()
        .embedded_output("out");
}

pub fn t_chain<'a>(in1: In<'a, i32>, in2: In<'a, i32>) {
    let tick = in1.location().tick();
    batch!(in1, &tick)
        .chain(batch!(in2, &tick))
        .all_ticks()
        .embedded_output("out");
}

pub fn t_kfold<'a>(in1: In<'a, KV>) {
    let tick = in1.location().tick();
    obs_bag!(
        batch!(in1, &tick)
            .into_keyed()
            .fold(
                q!(|| 0i32),
                q!(|acc, x| *acc += x, commutative = manual_proof!(/** integer sum */))
            )
            .entries()
            .all_ticks()
    );
}

pub fn t_defer<'a>(in1: In<'a, i32>) {
    let tick = in1.location().tick();
    batch!(in1, &tick)
        .defer_tick()
        .all_ticks()
        .embedded_output("out");
}

pub fn t_defer_diff<'a>(in1: In<'a, i32>) {
    let tick = in1.location().tick();
    let b = batch!(in1, &tick);
    b.clone()
        .filter_not_in(b.defer_tick())
        .all_ticks()
        .embedded_output("out");
}

pub fn t_defer2_count<'a>(in1: In<'a, i32>) {
    let tick = in1.location().tick();
    batch!(in1, &tick)
        .defer_tick()
        .defer_tick()
        .count()
        .all_ticks()
        .embedded_output("out");
}

pub fn t_cycle_acc<'a>(in1: In<'a, i32>) {
    let tick = in1.location().tick();
    let b = batch!(in1, &tick);
    let (handle, prev) = tick.cycle::<Stream<i32, Tick<P<'a>>, Bounded>, _>();
    let cur = prev.chain(b);
    handle.complete_next_tick(cur.clone());
    cur.all_ticks().embedded_output("out");
}

pub fn t_across_count<'a>(in1: In<'a, i32>) {
    let tick = in1.location().tick();
    batch!(in1, &tick)
        .across_ticks(|s| s.count())
        .all_ticks()
        .embedded_output("out");
}

pub fn t_across_enumerate<'a>(in1: In<'a, i32>) {
    let tick = in1.location().tick();
    batch!(in1, &tick)
        .across_ticks(|s| s.enumerate())
        .all_ticks()
        .embedded_output("out");
}

pub fn t_snapshot_cross<'a>(in1: In<'a, i32>, in2: In<'a, i32>) {
    let tick = in1.location().tick();
    let total = in2.count().snapshot(&tick, nondet!(/** drift-level only */));
    batch!(in1, &tick)
        .cross_singleton(total)
        .all_ticks()
        .embedded_output("out");
}
