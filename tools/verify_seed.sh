#!/bin/sh
# tools/verify_seed.sh <worktree> "<existing-tests cmd>" "<demo cmd>"
# Confirms: with patch applied the existing tests pass and the demo FAILS; without the patch the demo PASSES.
wt="$1"; tests="$2"; demo="$3"
cd "$wt" || exit 2
git checkout -q -- . 2>/dev/null
git apply seeded_out/patch.diff || { echo "PATCH DOES NOT APPLY"; exit 2; }
echo "== existing tests WITH patch (demo file moved away): $tests"
demos=$(git ls-files --others --exclude-standard | grep -v "^seeded_out/" | grep -v "^target" )
rm -rf /tmp/vs_demo_stash; mkdir -p /tmp/vs_demo_stash; for f in $demos; do mkdir -p "/tmp/vs_demo_stash/$(dirname $f)"; mv "$f" "/tmp/vs_demo_stash/$f"; done
sh -c "$tests" > /tmp/vs_tests.log 2>&1; rc_t=$?
for f in $demos; do mv "/tmp/vs_demo_stash/$f" "$f"; done
grep -E "^test result|FAILED|^error" /tmp/vs_tests.log | sort | uniq -c | sort -rn | head -8
echo "   rc=$rc_t"
echo "== demo WITH patch: $demo"
sh -c "$demo" > /tmp/vs_demo1.log 2>&1; rc_d1=$?
grep -E "^test result|FAILED|panicked|^error" /tmp/vs_demo1.log | head -6
echo "   rc=$rc_d1 (must be non-zero)"
git apply -R seeded_out/patch.diff
echo "== demo WITHOUT patch"
sh -c "$demo" > /tmp/vs_demo2.log 2>&1; rc_d2=$?
grep -E "^test result|FAILED|panicked|^error" /tmp/vs_demo2.log | head -6
echo "   rc=$rc_d2 (must be zero)"
if [ $rc_t -eq 0 ] && [ $rc_d1 -ne 0 ] && [ $rc_d2 -eq 0 ]; then echo "SEED CONFIRMED"; else echo "SEED NOT CONFIRMED"; fi
