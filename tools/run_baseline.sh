#!/bin/sh
# Runs the repository's baseline suite with the guard OFF and compares with BASELINE.json stable_pass.
cd /repo || exit 2
cargo nextest run --workspace --no-fail-fast --tool-config-file pb:/w/lib/nextest.toml --profile pb --test-threads 8 --offline > /tmp/baseline_run.log 2>&1
python3 - <<'PY'
import json, xml.etree.ElementTree as ET, glob
base=set(json.load(open('/root/.vp/BASELINE.json'))['stable_pass'])
passed=set(); failed=set()
for fn in glob.glob('/repo/target/nextest/pb/junit.xml'):
    for tc in ET.parse(fn).getroot().iter('testcase'):
        tid=(tc.get('classname') or '')+'::'+(tc.get('name') or '')
        if tc.find('failure') is not None or tc.find('error') is not None: failed.add(tid)
        else: passed.add(tid)
passed-=failed
missing=sorted(base-passed)
print("baseline stable_pass:",len(base),"passed now:",len(passed),"failed now:",len(failed))
print("stable tests NOT passing now:",len(missing))
for m in missing[:40]: print("  ",m, "(FAILED)" if m in failed else "(not run)")
PY
