#!/usr/bin/env python3
"""Regenerates the table of DESIGN.md section 14 from seeded/*/meta.json (between the SEEDTABLE markers)."""
import glob, json, os, re
ROOT = os.path.dirname(os.path.dirname(os.path.abspath(__file__)))
rows = []
for d in sorted(glob.glob(os.path.join(ROOT, "seeded", "*", ""))):
    sid = os.path.basename(d.rstrip("/"))
    m = json.load(open(os.path.join(d, "meta.json")))
    def cell(x, n):
        x = re.sub(r"\s+", " ", str(x or "")).replace("|", "/")
        return x if len(x) <= n else x[: n - 1] + "…"
    res = cell(m.get("check_result"), 400)
    if m.get("check_result_after_strengthening"):
        res += " **Then:** " + cell(m["check_result_after_strengthening"], 400)
    rows.append("| %s | %s | %s | %s | %s |" % (sid, m.get("property"), cell(m.get("what_changed"), 260),
                                            cell(m.get("needs_to_manifest"), 220), res))
table = "| seed | property | change (still compiles, existing tests pass) | needs, to manifest | result of my checks |\n|---|---|---|---|---|\n" + "\n".join(rows)
p = os.path.join(ROOT, "DESIGN.md")
s = open(p).read()
s = re.sub(r"<!-- SEEDTABLE-BEGIN -->.*?<!-- SEEDTABLE-END -->", "<!-- SEEDTABLE-BEGIN -->\n" + table + "\n<!-- SEEDTABLE-END -->", s, flags=re.S)
open(p, "w").write(s)
print(len(rows), "seeds")
