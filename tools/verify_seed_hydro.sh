#!/bin/sh
# tools/verify_seed_hydro.sh <worktree> '<nextest filter for existing tests>' '<nextest filter for demo>'
# Hydro-level seeds: demo is a cfg(test) module (file + one mod line, see seeded_out/demo); uses cargo-nextest.
wt="$1"; tests="$2"; demo="$3"
cd "$wt" || exit 2
git checkout -q -- . 2>/dev/null
[ -f seeded_out/demo/demo_mod_line.diff ] && git apply seeded_out/demo/demo_mod_line.diff 2>/dev/null
git apply seeded_out/patch.diff || { echo "PATCH DOES NOT APPLY"; exit 2; }
echo "== existing tests WITH patch: $tests"
cargo nextest run --workspace --offline --no-fail-fast -E "($tests) & !($demo)" > /tmp/vsh_tests.log 2>&1; rc_t=$?
grep -E "Summary|FAIL |TIMEOUT " /tmp/vsh_tests.log | head -12 | cut -c1-160; echo "   rc=$rc_t"
echo "== demo WITH patch"
cargo nextest run --workspace --offline --no-fail-fast -E "$demo" > /tmp/vsh_demo1.log 2>&1; rc_d1=$?
grep -E "Summary|FAIL |PASS " /tmp/vsh_demo1.log | head -8 | cut -c1-160; echo "   rc=$rc_d1 (must be non-zero)"
git apply -R seeded_out/patch.diff
echo "== demo WITHOUT patch"
cargo nextest run --workspace --offline --no-fail-fast -E "$demo" > /tmp/vsh_demo2.log 2>&1; rc_d2=$?
grep -E "Summary|FAIL |PASS " /tmp/vsh_demo2.log | head -8 | cut -c1-160; echo "   rc=$rc_d2 (must be zero)"
if [ $rc_t -eq 0 ] && [ $rc_d1 -ne 0 ] && [ $rc_d2 -eq 0 ]; then echo "SEED CONFIRMED"; else echo "SEED NOT CONFIRMED (check logs /tmp/vsh_*.log)"; fi
