#!/usr/bin/env python3
"""Regenerate MANIFEST.json from lib/families.py + lib/manifest_data.py."""
import json
import os
import subprocess
import sys

ROOT = os.path.dirname(os.path.dirname(os.path.abspath(__file__)))
sys.path.insert(0, os.path.join(ROOT, "lib"))
from families import FAMILIES, FAMILY_OF, LEVEL_OF, MANIFEST as CHECKS, ENGINES  # noqa: E402
from manifest_data import NOT_APPLICABLE_REASON, READY_FAMILIES  # noqa: E402

props = [json.loads(l)["id"] for l in open(os.path.join(ROOT, "properties.jsonl"))]
hooks = subprocess.run(["git", "-C", "/repo", "log", "--format=%H %s"], stdout=subprocess.PIPE, text=True).stdout
hook_commits = [l.split()[0] for l in hooks.splitlines() if "verif hook" in l]

checks = []
for p in props:
    if p not in FAMILY_OF or FAMILY_OF[p] not in READY_FAMILIES:
        continue
    c = CHECKS[p]
    checks.append({
        "property_id": p,
        "quick_cmd": "./check %s --tier quick" % p,
        "thorough_cmd": "./check %s --tier thorough" % p,
        "evidence_file": "/verif/evidence/%s.json" % p,
        "replay_cmd_template": "./check %s --replay {path}" % p,
        "engine": FAMILY_OF[p],
        "level_claimed": {"category": LEVEL_OF[p], "text": c.get("text", ""), "design_ref": c.get("design_ref", "DESIGN.md §6")},
        "level_note": c.get("note", ""),
        "technique": c.get("technique", "TLA+ spec model-checked with TLC + conformance binding (replay / trace validation)"),
    })
na = [{"property_id": p, "reason": NOT_APPLICABLE_REASON.get(p, "check not built yet in this round; planned per DESIGN.md §7")}
      for p in props if p not in FAMILY_OF or FAMILY_OF[p] not in READY_FAMILIES]
m = {
    "version": 1,
    "setup_cmd": "./setup.sh",
    "hooks": {
        "guard": "hydro_verif",
        "enable": "rustflags --cfg hydro_verif (set in /verif/harness/.cargo/config.toml; the harness workspace depends on /repo crates by path)",
        "baseline_off_cmd": "cd /repo && cargo nextest run --workspace --no-fail-fast --tool-config-file pb:/w/lib/nextest.toml --profile pb --test-threads 8 --offline || cargo test --workspace --no-fail-fast --offline",
        "source_commits": hook_commits,
        "add_only": True,
    },
    "engines": [{"name": f, "path": "/verif/lib/fam_%s.py" % f, "serves_properties": ps,
                 "kind_free_text": ENGINES.get(f, "")} for f, ps in FAMILIES.items() if f in READY_FAMILIES],
    "checks": checks,
    "not_applicable": na,
    "notes": "Every check: TLA+ spec under /verif/spec model-checked by TLC + conformance binding to the real code "
             "(TLC-generated behaviours replayed into the implementation, and traces recorded from the implementation "
             "validated by TLC against the trace spec). See DESIGN.md.",
}
json.dump(m, open(os.path.join(ROOT, "MANIFEST.json"), "w"), indent=1)
print("checks:", len(checks), "not_applicable:", len(na))
