#!/bin/sh
# tools/keep_seed.sh <seed-id> <worktree> "<caught-by / result note>"
set -e
id="$1"; wt="$2"; note="$3"
d="/verif/seeded/$id"; mkdir -p "$d"
cp "$wt/seeded_out/patch.diff" "$d/patch.diff"
rm -rf "$d/demo"; cp -r "$wt/seeded_out/demo" "$d/demo"
python3 - "$wt/seeded_out/meta.json" "$d/meta.json" "$note" <<'PY'
import json,sys
try:
    m=json.load(open(sys.argv[1]))
except Exception as e:
    m={"raw": open(sys.argv[1]).read()}
m["verified_by_me"]="applied patch in scratch worktree: crate tests pass, demo fails; reverted: demo passes"
m["check_result"]=sys.argv[3]
json.dump(m,open(sys.argv[2],"w"),indent=1)
PY
echo kept $d
