#!/bin/sh
# tools/check_seed.sh <sandbox-name> <patch.diff> <ID> [<ID>...]
# Runs the quick checks in a (reused) sandbox copy of /verif + worktree of /repo with the patch applied, then reverts it.
name="$1"; patch="$2"; shift 2
if [ ! -d /tmp/sb_$name ]; then /verif/tools/mk_sandbox.sh "$name" >/dev/null || exit 2; fi
# refresh the sandbox's verif copy (specs / families may have changed since it was made)
rsync -a --exclude target --exclude runs --exclude .git --exclude __pycache__ --exclude states --exclude "*_TTrace_*" /verif/ /tmp/sb_$name/verif/ || [ $? -eq 24 ]
cd /tmp/sb_$name/repo && git checkout -q -- . && git checkout -q --detach "$(git -C /repo rev-parse HEAD)" && git apply "$patch" || { echo "patch does not apply to sandbox repo"; exit 2; }
cd /tmp/sb_$name/verif
for id in "$@"; do
  VERIF_NOCACHE=1 VERIF_REPO=/tmp/sb_$name/repo ./check $id > /tmp/cs_${name}_$id.log 2>&1; rc=$?
  echo "== $id rc=$rc"; grep -E "^VIOLATION|^KNOWN-FINDING|TOOL-ERROR" /tmp/cs_${name}_$id.log | cut -c1-220 | head -4
  grep -E "^\[verif\]   " /tmp/cs_${name}_$id.log | cut -c1-260 | head -3
done
cd /tmp/sb_$name/repo && git checkout -q -- .
