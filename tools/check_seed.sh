#!/bin/sh
# tools/check_seed.sh <name> <patch.diff> <ID> [<ID>...]: runs the quick checks in a sandbox copy with the patch applied
name="$1"; patch="$2"; shift 2
/verif/tools/mk_sandbox.sh "$name" >/dev/null || exit 2
cd /tmp/sb_$name/repo && git apply "$patch" || { echo "patch does not apply to sandbox repo"; exit 2; }
cd /tmp/sb_$name/verif
for id in "$@"; do
  VERIF_REPO=/tmp/sb_$name/repo ./check $id > /tmp/cs_$name_$id.log 2>&1; rc=$?
  echo "== $id rc=$rc"; grep -E "^VIOLATION|^KNOWN-FINDING|TOOL-ERROR" /tmp/cs_$name_$id.log | head -4
  grep -E "^\[verif\]   " /tmp/cs_$name_$id.log | head -3
done
