#!/usr/bin/env python3
"""Renders HydroProg terms (spec/HydroProg/HydroProg.tla; JSON as printed by HydroProgGen's CASE
lines) as Rust functions against the real Hydro API and writes the generated sources of
harness_hydro/hv_prog_flows:

    src/gen/progs.rs          one `pub fn <name>` per term (quick + thorough sets)
    src/gen/list.in           quick program list    (hand-written programs + quick terms)
    src/gen/list_thorough.in  the additional programs of the thorough tier
    src/gen/terms.json        name -> term (what the trace spec re-checks with WellTyped)

Every `let` carries the type the TLA+ typing rules computed, so rustc re-checks the grammar: a
term the grammar deems well-typed that does not type-check is an error of the grammar or of this
renderer (tool error), never a finding.  Closures come from a closed vocabulary.
Files are rewritten only when their content changes (cargo rebuilds only then).

Usage as a script:  gen_hydro_progs.py <cases.ndjson> [<quick n> <thorough n> <seed>]"""
import hashlib
import json
import os
import sys

ROOT = os.path.dirname(os.path.dirname(os.path.abspath(__file__)))
FLOWS = os.path.join(ROOT, "harness_hydro", "hv_prog_flows", "src", "gen")

HAND = [("h_pipeline", "ok"), ("h_tick_fold", "ok"), ("h_tick_cycle", "ok"), ("h_tee_state_and_tick", "ok"),
        ("h_forward_ref", "ok"), ("h_network_cycle", "ok"), ("h_singleton_ref", "ok"), ("h_keyed_fold", "ok"),
        ("h_cluster_roundtrip", "ok"), ("n_forward_ref_sync_cycle", "reject")]
# hand-written programs that live on process p1 only (the harness can instantiate and run them)
HAND_RUNNABLE = {"h_pipeline", "h_tick_fold", "h_tick_cycle", "h_tee_state_and_tick", "h_forward_ref",
                 "h_singleton_ref", "h_keyed_fold"}
NET_OPS = {"send12", "send21", "bcast", "gather"}


def _S(e, l, o):
    return {"k": "stream", "e": e, "l": l, "b": "B" if l in ("t1", "t2") else "U", "o": o}


def _V(k, e, l):
    return {"k": k, "e": e, "l": l, "b": "B" if l in ("t1", "t2") else "U", "o": "T"}


_NONE = {"k": "none", "e": "", "l": "", "b": "", "o": ""}


def _term(*stmts):
    t = [{"op": "in1", "a": [], "ty": _S("i", "p1", "T")}, {"op": "in2", "a": [], "ty": _S("i", "p1", "T")}]
    for op, a, ty in stmts:
        t.append({"op": op, "a": list(a), "ty": ty})
    return t


# The hand-written programs of hv_prog_flows/src/hand.rs as HydroProg terms (calibration: the
# trace spec checks that WellTyped agrees with the stated expectation of each).
HAND_TERMS = {
    "h_pipeline": _term(("map", [1], _S("i", "p1", "T")), ("filter", [3], _S("i", "p1", "T")),
                        ("flatmap", [4], _S("i", "p1", "T")), ("out", [5], _NONE)),
    "h_tick_fold": _term(("batch", [1], _S("i", "t1", "T")), ("fold", [3], _V("single", "i", "t1")),
                         ("all_ticks", [4], _S("i", "p1", "T")), ("out", [5], _NONE)),
    "h_tick_cycle": _term(("tcycle", [], _S("i", "t1", "T")), ("batch", [1], _S("i", "t1", "T")),
                          ("chain", [3, 4], _S("i", "t1", "T")), ("map", [5], _S("i", "t1", "T")),
                          ("filter", [6], _S("i", "t1", "T")), ("tcomplete", [3, 7], _NONE),
                          ("all_ticks", [7], _S("i", "p1", "T")), ("out", [9], _NONE)),
    "h_tee_state_and_tick": _term(("map", [1], _S("i", "p1", "T")), ("fold", [3], _V("single", "i", "p1")),
                                  ("batch", [3], _S("i", "t1", "T")), ("snapshot", [4], _V("single", "i", "t1")),
                                  ("cross_single", [5, 6], _S("kv", "t1", "T")), ("all_ticks", [7], _S("kv", "p1", "T")),
                                  ("out", [8], _NONE)),
    "h_forward_ref": _term(("fwd", [], _S("i", "p1", "N")), ("merge", [1, 3], _S("i", "p1", "N")),
                           ("map", [4], _S("i", "p1", "N")), ("map", [2], _S("i", "p1", "T")),
                           ("weaken", [6], _S("i", "p1", "N")), ("complete", [3, 7], _NONE),
                           ("assume", [5], _S("i", "p1", "T")), ("out", [9], _NONE)),
    "h_network_cycle": _term(("fwd", [], _S("i", "p1", "N")), ("merge", [1, 3], _S("i", "p1", "N")),
                             ("filter", [4], _S("i", "p1", "N")), ("send12", [5], _S("i", "p2", "N")),
                             ("map", [6], _S("i", "p2", "N")), ("send21", [7], _S("i", "p1", "N")),
                             ("complete", [3, 8], _NONE), ("assume", [5], _S("i", "p1", "T")), ("out", [10], _NONE)),
    "h_singleton_ref": _term(("batch", [2], _S("i", "t1", "T")), ("fold", [3], _V("single", "i", "t1")),
                             ("batch", [1], _S("i", "t1", "T")), ("map_ref", [5, 4], _S("i", "t1", "T")),
                             ("all_ticks", [6], _S("i", "p1", "T")), ("out", [7], _NONE)),
    "h_keyed_fold": _term(("mkkv", [1], _S("kv", "p1", "T")), ("batch", [3], _S("kv", "t1", "T")),
                          ("kfold", [4], _S("kv", "t1", "N")), ("all_ticks", [5], _S("kv", "p1", "N")),
                          ("assume", [6], _S("kv", "p1", "T")), ("out", [7], _NONE)),
    "h_cluster_roundtrip": _term(("bcast", [1], _S("i", "c1", "T")), ("map", [3], _S("i", "c1", "T")),
                                 ("gather", [4], _S("i", "p1", "N")), ("assume", [5], _S("i", "p1", "T")),
                                 ("out", [6], _NONE)),
    # ill-formed: the forward reference (3) is completed with 6, which depends on it synchronously
    "n_forward_ref_sync_cycle": _term(("fwd", [], _S("i", "p1", "N")), ("merge", [1, 3], _S("i", "p1", "N")),
                                      ("filter", [4], _S("i", "p1", "N")), ("map", [5], _S("i", "p1", "N")),
                                      ("complete", [3, 6], _NONE), ("assume", [5], _S("i", "p1", "T")),
                                      ("out", [8], _NONE)),
}


def runnable(term):
    """Single-location programs (no network hop): the emitted function needs only the two input
    streams and the output callback, so the harness can instantiate it and run a few ticks."""
    return not ({s["op"] for s in term} & NET_OPS)

LOC = {"p1": "L1<'a>", "p2": "L2<'a>", "c1": "LC<'a>", "t1": "Tick<L1<'a>>", "t2": "Tick<L2<'a>>"}
ELEM = {"i": "i32", "kv": "KV"}
BND = {"U": "Unbounded", "B": "Bounded"}
ORD = {"T": "TotalOrder", "N": "NoOrder"}
ND = "nondet!(/** verif */)"
SUM = "commutative = manual_proof!(/** integer sum */)"


def term_name(term):
    """Stable name: content hash of the term (independent of which sample it is part of)."""
    s = json.dumps(term, sort_keys=True, separators=(",", ":"))
    return "p" + hashlib.sha1(s.encode()).hexdigest()[:10]


def rty(t):
    if t["k"] == "stream":
        return "Stream<%s, %s, %s, %s, ExactlyOnce>" % (ELEM[t["e"]], LOC[t["l"]], BND[t["b"]], ORD[t["o"]])
    if t["k"] == "single":
        return "Singleton<%s, %s, %s>" % (ELEM[t["e"]], LOC[t["l"]], BND[t["b"]])
    if t["k"] == "opt":
        return "Optional<%s, %s, %s>" % (ELEM[t["e"]], LOC[t["l"]], BND[t["b"]])
    raise ValueError(t)


def tick_var(l):
    return {"t1": "t1", "t2": "t2"}[l]


def render(name, term):
    """term: list of statements {op, a, ty}.  Returns the Rust text of one function."""
    n = len(term)
    # consuming uses per value in program order; by_ref uses (map_ref's second argument) borrow
    uses = {}      # value -> list of (stmt index, arg position, consuming?)
    for j, s in enumerate(term, start=1):
        for m, v in enumerate(s["a"]):
            if s["op"] in ("tcomplete", "complete") and m == 0:
                continue       # the handle, not the placeholder value
            consuming = not (s["op"] == "map_ref" and m == 1)
            uses.setdefault(v, []).append((j, m, consuming))

    def arg(j, m):
        v = term[j - 1]["a"][m]
        us = uses[v]
        later = [u for u in us if (u[0], u[1]) > (j, m)]
        if later:
            return "v%d.clone()" % v      # a later use (move or borrow) still needs the variable
        return "v%d" % v

    used_ticks = set()
    for s in term:
        if s["ty"]["k"] != "none" and s["ty"]["l"] in ("t1", "t2"):
            used_ticks.add(s["ty"]["l"])
    lines = []
    lines.append("    let p1 = in1.location().clone();")
    if "t1" in used_ticks:
        lines.append("    let t1 = p1.tick();")
    if "t2" in used_ticks:
        lines.append("    let t2 = p2.tick();")
    ret = None
    for j, s in enumerate(term, start=1):
        op, ty = s["op"], s["ty"]
        if op == "in1":
            lines.append("    let v1: %s = in1;" % rty(ty))
            continue
        if op == "in2":
            lines.append("    let v2: %s = in2;" % rty(ty))
            continue
        if op == "tcycle":
            lines.append("    let (h%d, v%d) = %s.cycle::<%s, _>();" % (j, j, tick_var(ty["l"]), rty(ty)))
            continue
        if op == "fwd":
            locv = ty["l"] if ty["l"] in ("p1", "t1", "t2") else "p2"
            lines.append("    let (h%d, v%d) = %s.forward_ref::<%s>();" % (j, j, locv, rty(ty)))
            continue
        if op == "tcomplete":
            lines.append("    h%d.complete_next_tick(%s);" % (s["a"][0], arg(j, 1)))
            continue
        if op == "complete":
            lines.append("    h%d.complete(%s);" % (s["a"][0], arg(j, 1)))
            continue
        x = arg(j, 0)
        y = arg(j, 1) if len(s["a"]) > 1 else None
        xt = term[s["a"][0] - 1]["ty"]
        if op == "out":
            ret = (x, rty(xt))
            continue
        chan = "TCP.fail_stop().bincode().name(\"%s_ch%d\")" % (name, j)
        if op == "map":
            e = "%s.map(q!(|x| x + 1))" % x
        elif op == "mkkv":
            e = "%s.map(q!(|x| (x %% 3, x)))" % x
        elif op == "vals":
            e = "%s.map(q!(|(_k, v)| v))" % x
        elif op in ("filter", "sfilter"):
            e = ("%s.filter(q!(|x| *x %% 2 == 0))" if xt["e"] == "i" else "%s.filter(q!(|(_k, v)| *v %% 2 == 0))") % x
        elif op == "flatmap":
            e = "%s.flat_map_ordered(q!(|x| [x, x + 10]))" % x
        elif op == "unique":
            e = "%s.unique()" % x
        elif op == "enum":
            e = "%s.enumerate().map(q!(|(i, x)| x + i as i32))" % x
        elif op == "weaken":
            e = "%s.weaken_ordering::<NoOrder>()" % x
        elif op == "assume":
            e = "%s.assume_ordering::<TotalOrder>(%s)" % (x, ND)
        elif op == "sort":
            e = "%s.sort()" % x
        elif op == "fold":
            e = "%s.fold(q!(|| 0i32), q!(|acc, x| *acc += x, %s))" % (x, SUM)
        elif op == "count":
            e = "%s.count().map(q!(|c| c as i32))" % x
        elif op == "reduce":
            e = "%s.reduce(q!(|acc, x| *acc += x, %s))" % (x, SUM)
        elif op == "max":
            e = "%s.max()" % x
        elif op == "first":
            e = "%s.first()" % x
        elif op == "smap":
            e = "%s.map(q!(|x| x + 1))" % x
        elif op == "into_stream":
            e = "%s.into_stream()" % x
        elif op == "batch":
            e = "%s.batch(&%s, %s)" % (x, tick_var(ty["l"]), ND)
        elif op == "snapshot":
            e = "%s.snapshot(&%s, %s)" % (x, tick_var(ty["l"]), ND)
        elif op == "all_ticks":
            e = "%s.all_ticks()" % x
        elif op == "latest":
            e = "%s.latest()" % x
        elif op == "defer":
            e = "%s.defer_tick()" % x
        elif op == "kfold":
            e = "%s.into_keyed().fold(q!(|| 0i32), q!(|acc, v| *acc += v, %s)).entries()" % (x, SUM)
        elif op == "kreduce":
            e = "%s.into_keyed().reduce(q!(|acc, v| *acc += v, %s)).entries()" % (x, SUM)
        elif op == "kfold_snap":
            e = "%s.into_keyed().fold(q!(|| 0i32), q!(|acc, v| *acc += v, %s)).snapshot(&%s, %s).entries()" % (
                x, SUM, tick_var(ty["l"]), ND)
        elif op == "send12":
            e = "%s.send(p2, %s)" % (x, chan)
        elif op == "send21":
            e = "%s.send(&p1, %s)" % (x, chan)
        elif op == "bcast":
            e = "%s.broadcast(c1, %s, %s)" % (x, chan, ND)
        elif op == "gather":
            e = "%s.send(&p1, %s).values()" % (x, chan)
        elif op == "chain":
            e = "%s.chain(%s)" % (x, y)
        elif op == "merge":
            e = "%s.merge_unordered(%s)" % (x, y)
        elif op == "join":
            e = "%s.join(%s).map(q!(|(k, (a, b))| (k, a + b)))" % (x, y)
        elif op == "cross_single":
            e = "%s.cross_singleton(%s)" % (x, y)
        elif op == "filter_if_some":
            e = "%s.filter_if_some(%s)" % (x, y)
        elif op == "unwrap_or":
            e = "%s.unwrap_or(%s)" % (x, y)
        elif op == "zip":
            e = "%s.zip(%s)" % (x, y)
        elif op == "map_ref":
            # borrow the singleton variable itself (by_ref needs the value to be alive)
            e = "{ let r = v%d.by_ref(); %s.map(q!(|x| x + *r)) }" % (s["a"][1], x)
        else:
            raise ValueError("no rendering for operator %r" % op)
        lines.append("    let v%d: %s = %s;" % (j, rty(ty), e))
    if ret is None:
        raise ValueError("term without out statement")
    head = ("pub fn %s<'a>(p2: &L2<'a>, c1: &LC<'a>, in1: S1<'a>, in2: S1<'a>) -> %s {" % (name, ret[1]))
    doc = "/// " + " ; ".join("%d=%s%s" % (j, s["op"], tuple(s["a"]) if s["a"] else "") for j, s in enumerate(term, start=1))
    return "\n".join([doc, "#[allow(unused, deprecated)]", head] + lines + ["    " + ret[0], "}"]) + "\n"


HEADER = """//! GENERATED by tools/gen_hydro_progs.py from terms enumerated by TLC (spec/HydroProg) -- do not edit.
#![allow(unused_variables, unused_mut, deprecated, clippy::all)]
use hydro_lang::live_collections::stream::{ExactlyOnce, NoOrder, TotalOrder};
use hydro_lang::prelude::*;

use crate::types::*;

type S1<'a> = Stream<i32, L1<'a>, Unbounded, TotalOrder, ExactlyOnce>;

"""


def _write_if_changed(path, text):
    try:
        with open(path) as f:
            if f.read() == text:
                return False
    except OSError:
        pass
    os.makedirs(os.path.dirname(path), exist_ok=True)
    with open(path, "w") as f:
        f.write(text)
    return True


def read_terms(out_dir=FLOWS):
    """The sets written last time: {"quick": [names], "thorough": [names], "terms": {name: term}}."""
    try:
        with open(os.path.join(out_dir, "terms.json")) as f:
            return json.load(f)
    except (OSError, ValueError):
        return {"quick": [], "thorough": [], "terms": {}}


def write_all(quick_terms, thorough_terms, out_dir=FLOWS):
    """quick_terms: list of terms; thorough_terms: list of further terms, or None = keep the thorough
    set written last time (the quick tier does not regenerate it, so switching tiers does not
    invalidate the build).  Returns (names_quick, names_thorough, changed)."""
    prev = read_terms(out_dir)
    named = {}
    nq, nt = [], []
    for t in quick_terms:
        nm = term_name(t)
        if nm not in named:
            named[nm] = t
            nq.append(nm)
    if thorough_terms is None:
        for nm in prev["thorough"]:
            if nm not in named:
                named[nm] = prev["terms"][nm]
                nt.append(nm)
    else:
        for t in thorough_terms:
            nm = term_name(t)
            if nm not in named:
                named[nm] = t
                nt.append(nm)
    body = HEADER + "\n".join(render(nm, named[nm]) for nm in sorted(named))
    ql = ("// GENERATED by tools/gen_hydro_progs.py -- do not edit.\n"
          "// (module, function, expected: ok | reject, run: the harness instantiates and runs it | norun)\nhv_programs! { q;\n")
    ql += "".join("    (hand, %s, %s, %s);\n" % (h[0], h[1], "run" if h[0] in HAND_RUNNABLE else "norun") for h in HAND)
    ql += "".join("    (progs, %s, ok, %s);\n" % (nm, "run" if runnable(named[nm]) else "norun") for nm in nq) + "}\n"
    tl = "// GENERATED by tools/gen_hydro_progs.py -- do not edit.\nhv_programs! { t;\n"
    tl += "".join("    (progs, %s, ok, %s);\n" % (nm, "run" if runnable(named[nm]) else "norun") for nm in nt) + "}\n"
    terms = json.dumps({"quick": nq, "thorough": nt, "terms": {nm: named[nm] for nm in sorted(named)}},
                       sort_keys=True, separators=(",", ":"))
    changed = False
    changed |= _write_if_changed(os.path.join(out_dir, "progs.rs"), body)
    changed |= _write_if_changed(os.path.join(out_dir, "list.in"), ql)
    changed |= _write_if_changed(os.path.join(out_dir, "list_thorough.in"), tl)
    changed |= _write_if_changed(os.path.join(out_dir, "terms.json"), terms + "\n")
    return nq, nt, changed


if __name__ == "__main__":
    import random
    cases = [json.loads(l) for l in open(sys.argv[1]) if l.strip()]
    nq = int(sys.argv[2]) if len(sys.argv) > 2 else 20
    nth = int(sys.argv[3]) if len(sys.argv) > 3 else 0
    rnd = random.Random(int(sys.argv[4]) if len(sys.argv) > 4 else 1)
    rnd.shuffle(cases)
    q, t, ch = write_all(cases[:nq], cases[nq:nq + nth])
    print(json.dumps({"quick": len(q), "thorough": len(t), "changed": ch}))
