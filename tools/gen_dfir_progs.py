#!/usr/bin/env python3
"""Generator of the DfirTick conformance corpus (C21-C26).

Writes
  harness/hv_dfir/src/gen_progs.rs   one function per program (dfir_syntax!), only rewritten if changed
  <outdir>/progs.json                 the same programs as data for TLC (+ Rust text for compile_check)
  <outdir>/hist.json                  input histories per program

Deterministic for a given (seed, tier).  Program-as-data format: see spec/DfirTick/DfirTick.tla.
"""
import json
import os
import random
import sys

ROOT = os.path.dirname(os.path.dirname(os.path.abspath(__file__)))

RT = {"i": "i64", "p": "(i64, i64)", "kp": "(i64, (i64, i64))", "vi": "Vec<i64>",
      "pv": "(i64, Vec<i64>)", "u": "()", "mx": "v::MaxU", "kmx": "(i64, v::MaxU)", "kmn": "(i64, v::MinU)",
      "ss": "v::SingleI", "set": "v::SetI"}

# ---------------------------------------------------------------------------------------------
# vocabulary: name -> (input type, output type).  Same names in DfirTick.tla and vocab.rs
# ---------------------------------------------------------------------------------------------
MAPS = {"inc": ("i", "i"), "dbl": ("i", "i"), "mod3": ("i", "i"), "key_mod2": ("i", "p"),
        "key_mod3": ("i", "p"), "pair_self": ("i", "p"), "fst": ("p", "i"), "snd": ("p", "i"),
        "swap": ("p", "p"), "sum_pair": ("p", "i"), "val_inc": ("p", "p"), "join_sum": ("kp", "p"), "join_right": ("kp", "i"), "mul10": ("i", "i"), "add10": ("i", "i"),
        # lattice wrappers (Max<u64> / Min<u64>): identities in the model
        "to_max": ("i", "mx"), "from_max": ("mx", "i"), "kv_to_max": ("p", "kmx"), "kv_to_min": ("p", "kmn")}
PREDS = {"eq3": "i", "eq13": "i", "is_even": "i", "lt3": "i", "lt6": "i", "gt1": "i", "key_even": "p", "val_lt3": "p", "lt100": "i"}
RANDOM_PREDS = ["is_even", "lt3", "lt6", "gt1", "key_even", "val_lt3"]
RANDOM_MAPS = ["inc", "dbl", "mod3", "key_mod2", "key_mod3", "pair_self", "fst", "snd", "swap", "sum_pair", "val_inc", "join_sum", "join_right"]
FLATS = {"dup": ("i", "i"), "rep_mod3": ("i", "i"), "pair_flat": ("p", "i")}
OPTS = {"half_even": ("i", "i"), "dec_pos": ("i", "i")}
FOLDS = {"sum": ("i", "i"), "max": ("i", "i"), "count": ("*", "i"), "push": ("i", "vi"), "sum_snd": ("p", "i")}
REDS = ["sum", "max", "min"]
KFOLDS = ["sum", "max", "count"]
SCANS = ["running_sum", "sum_until_10"]
ORDER_SENSITIVE_FOLDS = {"push"}


class Node:
    def __init__(self, idx, op, ins, fn="", pers=(), k=0, items=(), lp=0, refs=(), din=None):
        self.idx = idx          # 1-based
        self.op = op
        self.ins = list(ins)    # list of (node idx, port 1-based)
        self.fn = fn
        self.pers = list(pers)
        self.k = k
        self.items = list(items)
        self.lp = lp
        self.refs = list(refs)
        self.din = din          # (node, port) for defer nodes
        self.otypes = []        # output type per port
        self.oord = []          # output order-determinism per port
        self.rust = None        # operator text, e.g. "map(v::inc)"
        self.inports = None     # rust input port names for multi-input ops
        self.outports = None    # rust output port names for multi-output ops
        self.post = ""          # text appended after the operator (e.g. -> map(v::enum_fix))
        self.portpost = None    # per output port: text appended to every use of that port
        self.pin_inputs = False  # multi-input: put a typed identity in front of every input port

    def desc(self):
        return {"op": self.op, "fn": self.fn, "pers": self.pers,
                "in": [[a, b] for a, b in self.ins],
                "din": list(self.din) if self.din else [],
                "k": self.k, "items": self.items, "lp": self.lp, "refs": self.refs}


class GenError(Exception):
    pass


class Reverser:
    """statement permutation: descending textual order"""
    def shuffle(self, lst):
        lst.reverse()


class Interleaver:
    """statement permutation: odd positions first, then the even ones backwards"""
    def shuffle(self, lst):
        lst[:] = lst[1::2] + lst[0::2][::-1]


def permuter(code):
    if code == "desc":
        return Reverser()
    if code == "inter":
        return Interleaver()
    return random.Random(code)


def pers_txt(pers):
    return "::<%s>" % ", ".join("'" + p for p in pers) if pers else ""


class Prog:
    """A program under construction: typed builder + Rust / JSON emission."""

    def __init__(self, name, prop):
        self.name = name
        self.prop = prop
        self.nodes = []
        self.loops = []         # dicts parent, first, last, root
        self.src_types = []
        self.sinks = []         # (node idx, ordered flag)
        self.avail_ok = True    # False: builder knows run_available may not terminate
        self.avail_cycle_ok = False   # True: builder vouches that the deferred cycle dies out
        self.avail_term = False
        self.cur_loop = 0
        self.expect = None      # calibration: list of histories with expected outputs
        self.tags = set()       # coverage tags "op/pers"
        self.pairs = []         # [push sink, pull sink]: must agree tick by tick (C22)
        self.mirror = []        # groups of source numbers that receive identical input
        self.allow_short_circuit = False    # only the dedicated known-finding programs
        self.gaps = False       # histories: data in the first tick, empty ticks later
        self.note = ""

    # -- low level
    def _add(self, op, ins, otypes, oord, rust, **kw):
        n = Node(len(self.nodes) + 1, op, ins, lp=self.cur_loop, **kw)
        n.otypes, n.oord, n.rust = list(otypes), list(oord), rust
        self.nodes.append(n)
        ptxt = "/".join(n.pers) if n.pers else "-"
        if op not in ("source_stream", "sink"):
            self.tags.add("%s|%s" % (op, ptxt))
        return (n.idx, 1)

    def ty(self, s):
        return self.nodes[s[0] - 1].otypes[s[1] - 1]

    def od(self, s):
        return self.nodes[s[0] - 1].oord[s[1] - 1]

    def need(self, s, *types):
        if self.ty(s) not in types:
            raise GenError("type %s not in %s" % (self.ty(s), types))

    # -- sources / sinks
    def src(self, ty="i"):
        self.src_types.append(ty)
        k = len(self.src_types)
        return self._add("source_stream", [], [ty], [True], "source_stream(r%d)" % k, k=k)

    def source_iter(self, items, ty="i"):
        def lit(x):
            return "(%s)" % ", ".join(lit(y) for y in x) if isinstance(x, (list, tuple)) else "%di64" % x
        txt = "source_iter(::std::vec::Vec::<%s>::from([%s]))" % (RT[ty], ", ".join(lit(x) for x in items))
        return self._add("source_iter", [], [ty], [True], txt, items=[list(x) if isinstance(x, tuple) else x for x in items])

    def sink(self, s, ordered=None):
        k = len(self.sinks) + 1
        o = self.od(s) if ordered is None else ordered
        self.sinks.append((len(self.nodes) + 1, bool(o)))
        txt = "for_each(|x| rt::sink(&lg%d, %d, context.current_tick().0, &x))" % (k, k)
        self._add("sink", [s], [], [], txt, k=k)

    # -- unary stateless
    def map(self, s, fn):
        it, ot = MAPS[fn]
        self.need(s, it)
        return self._add("map", [s], [ot], [self.od(s)], "map(v::%s)" % fn, fn=fn)

    def filter(self, s, fn):
        self.need(s, PREDS[fn])
        return self._add("filter", [s], [self.ty(s)], [self.od(s)], "filter(v::%s)" % fn, fn=fn)

    def flat_map(self, s, fn):
        it, ot = FLATS[fn]
        self.need(s, it)
        return self._add("flat_map", [s], [ot], [self.od(s)], "flat_map(v::%s)" % fn, fn=fn)

    def filter_map(self, s, fn):
        it, ot = OPTS[fn]
        self.need(s, it)
        return self._add("filter_map", [s], [ot], [self.od(s)], "filter_map(v::%s)" % fn, fn=fn)

    def flatten(self, s):
        self.need(s, "vi")
        return self._add("flatten", [s], ["i"], [self.od(s)], "flatten()")

    def simple(self, s, op):
        """identity / inspect / handoff / tee-like pass-through operators"""
        txt = {"identity": "identity()", "inspect": "inspect(|_| {})", "handoff": "handoff()"}[op]
        return self._add(op, [s], [self.ty(s)], [self.od(s)], txt)

    # -- accumulators
    def fold(self, s, fn, pers="tick", op="fold"):
        it, ot = FOLDS[fn]
        if it != "*":
            self.need(s, it)
        if fn in ORDER_SENSITIVE_FOLDS and not self.od(s):
            raise GenError("order sensitive fold on unordered stream")
        return self._add(op, [s], [ot], [True], "%s::<'%s>(v::%s_init, v::%s_acc)" % (op, pers, fn, fn),
                         fn=fn, pers=[pers])

    def reduce(self, s, fn, pers="tick", op="reduce"):
        self.need(s, "i")
        return self._add(op, [s], ["i"], [True], "%s::<'%s>(v::%s_red)" % (op, pers, fn), fn=fn, pers=[pers])

    def lattice(self, s, pers="tick", op="lattice_fold"):
        """lattice_fold / lattice_reduce over Max<i64>: modelled as fold / reduce with max"""
        self.need(s, "i")
        mx = "dfir_rs::lattices::Max"
        if op == "lattice_fold":
            txt = "map(%s::new) -> lattice_fold::<'%s>(|| %s::new(0i64)) -> map(|m: %s<i64>| m.into_reveal())" % (mx, pers, mx, mx)
            r = self._add("fold", [s], ["i"], [True], txt, fn="max", pers=[pers])
        else:
            txt = "map(%s::new) -> lattice_reduce::<'%s>() -> map(|m: %s<i64>| m.into_reveal())" % (mx, pers, mx)
            r = self._add("reduce", [s], ["i"], [True], txt, fn="max", pers=[pers])
        self.tags.add("%s|%s" % (op, pers))
        return r

    def fold_keyed(self, s, fn, pers="tick"):
        self.need(s, "p")
        return self._add("fold_keyed", [s], ["p"], [False],
                         "fold_keyed::<'%s>(v::%s_init, v::%s_acc)" % (pers, fn, fn), fn=fn, pers=[pers])

    def reduce_keyed(self, s, fn, pers="tick"):
        self.need(s, "p")
        return self._add("reduce_keyed", [s], ["p"], [False],
                         "reduce_keyed::<'%s>(v::%s_red)" % (pers, fn), fn=fn, pers=[pers])

    def scan(self, s, fn, pers="tick"):
        self.need(s, "i")
        if not self.od(s):
            raise GenError("scan on unordered")
        return self._add("scan", [s], ["i"], [True], "scan::<'%s>(v::sum_init, v::%s)" % (pers, fn),
                         fn=fn, pers=[pers])

    # -- binary
    def _bin(self, op, a, b, ot, oo, pers, ports, extra=""):
        r = self._add(op, [a, b], [ot], [oo], "%s%s(%s)" % (op, pers_txt(pers), extra), pers=list(pers))
        self.nodes[-1].inports = ports
        return r

    def join(self, a, b, pers=("tick", "tick"), op="join"):
        self.need(a, "p")
        self.need(b, "p")
        return self._bin(op, a, b, "kp", False, pers, ["0", "1"])

    def cross_join(self, a, b, pers=("tick", "tick"), op="cross_join"):
        self.need(a, "i")
        self.need(b, "i")
        oo = op == "cross_join_multiset" and self.od(a) and self.od(b)
        return self._bin(op, a, b, "p", oo, pers, ["0", "1"])

    def anti_join(self, pos, neg, pers=("tick", "tick")):
        self.need(pos, "p")
        self.need(neg, "i")
        return self._bin("anti_join", pos, neg, "p", self.od(pos), pers, ["pos", "neg"])

    def difference(self, pos, neg, pers=("tick", "tick")):
        if self.ty(pos) != self.ty(neg) or self.ty(pos) not in ("i", "p"):
            raise GenError("difference types")
        return self._bin("difference", pos, neg, self.ty(pos), self.od(pos), pers, ["pos", "neg"])

    def zip(self, a, b, pers=("tick", "tick")):
        self.need(a, "i")
        self.need(b, "i")
        if not (self.od(a) and self.od(b)):
            raise GenError("zip on unordered")
        return self._bin("zip", a, b, "p", True, pers, ["0", "1"])

    def chain(self, a, b):
        if self.ty(a) != self.ty(b):
            raise GenError("chain types")
        # chain == union codegen: order only promised on the pull side -> treat as unordered
        return self._bin("chain", a, b, self.ty(a), False, (), ["0", "1"])

    # Operators that do not pull an input to its end in every tick (cross_singleton: first `single`
    # item only, nothing from `input` without one; defer_signal / _lattice_fold_batch: first signal;
    # chain_first_n: take(n)) leave LAZY pull operators upstream half consumed.  If such an operator
    # keeps state across ticks (unique::<'static>, enumerate/scan::<'static>, multiset_delta) its state
    # misses the unpulled items and later ticks contradict the documented semantics -- the known
    # finding dfirtick/shortcircuit_*.  Everywhere else the generator keeps that pattern out.
    LAZY_CROSS_TICK = {"multiset_delta"}
    LAZY_PASS = {"map", "filter", "flat_map", "filter_map", "flatten", "identity", "inspect", "union", "chain",
                 "unique", "enumerate", "scan", "anti_join", "difference", "join_fused_lhs", "join_fused_rhs",
                 "join_multiset_half", "chain_first_n", "cross_singleton"}

    def short_circuit_hazard(self, s):
        seen, todo = set(), [s[0]]
        while todo:
            x = todo.pop()
            if x in seen:
                continue
            seen.add(x)
            n = self.nodes[x - 1]
            if n.op in self.LAZY_CROSS_TICK or (n.op in ("unique", "enumerate", "scan") and "static" in n.pers):
                return True
            if n.op in self.LAZY_PASS:
                todo.extend(a for a, _ in n.ins)
        return False

    def guard_short_circuit(self, *ss):
        if not self.allow_short_circuit and any(self.short_circuit_hazard(s) for s in ss):
            raise GenError("lazy cross-tick state upstream of a short-circuiting input")

    def cross_singleton(self, inp, single, pers="tick"):
        self.need(inp, "i")
        self.need(single, "i")
        self.guard_short_circuit(inp, single)
        if not self.od(single):
            raise GenError("cross_singleton single unordered")
        return self._bin("cross_singleton", inp, single, "p", self.od(inp), (pers,), ["input", "single"])

    def defer_signal(self, inp, sig):
        self.guard_short_circuit(sig)
        return self._bin("defer_signal", inp, sig, self.ty(inp), self.od(inp), (), ["input", "signal"])

    def union(self, *ss):
        t = self.ty(ss[0])
        for s in ss:
            self.need(s, t)
        r = self._add("union", list(ss), [t], [False], "union()")
        self.nodes[-1].inports = [str(i) for i in range(len(ss))]
        return r

    # -- unary stateful
    def unique(self, s, pers="tick"):
        if self.ty(s) not in ("i", "p"):
            raise GenError("unique type")
        return self._add("unique", [s], [self.ty(s)], [self.od(s)], "unique::<'%s>()" % pers, pers=[pers])

    def persist(self, s):
        return self._add("persist", [s], [self.ty(s)], [self.od(s)], "persist::<'static>()", pers=["static"])

    def multiset_delta(self, s):
        if self.ty(s) not in ("i", "p", "kp"):
            raise GenError("multiset_delta type")
        # multiset_delta() only compiles on the PULL side (its push codegen needs a type annotation:
        # rustc E0282 on `item.clone()`), so it is always emitted behind a binary union with an empty
        # source, which forces it into a pull position (see rust_body).
        return self._add("multiset_delta", [s], [self.ty(s)], [self.od(s)], "multiset_delta()")

    def sort(self, s):
        if self.ty(s) not in ("i", "p", "kp"):
            raise GenError("sort type")
        return self._add("sort", [s], [self.ty(s)], [True], "sort()", fn=self.ty(s))

    def sort_by_key(self, s, key):
        self.need(s, "i" if key == "id" else "p")
        # sort_unstable: equal keys come out in unspecified order
        return self._add("sort_by_key", [s], [self.ty(s)], [key == "id"], "sort_by_key(v::key_%s)" % key, fn=key)

    def enumerate(self, s, pers="tick"):
        if not self.od(s):
            raise GenError("enumerate on unordered")
        self.need(s, "i")
        r = self._add("enumerate", [s], ["p"], [True], "enumerate::<'%s>()" % pers, pers=[pers])
        self.nodes[-1].post = " -> map(v::enum_fix)"
        return r

    def chain_first_n(self, a, b, n):
        if self.ty(a) != self.ty(b) or not (self.od(a) and self.od(b)):
            raise GenError("chain_first_n")
        self.guard_short_circuit(a, b)
        r = self._add("chain_first_n", [a, b], [self.ty(a)], [True], "chain_first_n(%d)" % n, k=n)
        self.nodes[-1].inports = ["0", "1"]
        return r

    # -- multi output
    def partition(self, s, pred):
        self.need(s, PREDS[pred])
        t, o = self.ty(s), self.od(s)
        r = self._add("partition", [s], [t, t], [o, o], "partition(v::part(v::%s))" % pred, fn=pred)
        self.nodes[-1].outports = ["0", "1"]
        return (r[0], 1), (r[0], 2)

    def unzip(self, s):
        self.need(s, "p")
        o = self.od(s)
        r = self._add("unzip", [s], ["i", "i"], [o, o], "unzip()")
        self.nodes[-1].outports = ["0", "1"]
        return (r[0], 1), (r[0], 2)

    # -- operators added in the second round ------------------------------------------------
    def state(self, s, pers="tick"):
        """state::<'p, Max<u64>>(): [items] = inputs that raised the maximum, [state] = the maximum"""
        self.need(s, "i")
        r = self._add("state", [s], ["i", "i"], [self.od(s), True],
                      "map(v::to_max) -> state::<'%s, v::MaxU>()" % pers, fn="max", pers=[pers])
        n = self.nodes[-1]
        n.outports = ["items", "state"]
        n.portpost = [" -> map(v::from_max)", " -> map(v::from_max)"]
        return (r[0], 1), (r[0], 2)

    def state_by(self, s, pers="tick"):
        """state_by::<'p, SetUnionHashSet<i64>>: [items] = first occurrences, [state] = the set (sorted Vec)"""
        self.need(s, "i")
        r = self._add("state_by", [s], ["i", "vi"], [self.od(s), True],
                      "state_by::<'%s, v::SetI>(v::single, ::std::default::Default::default)" % pers, pers=[pers])
        n = self.nodes[-1]
        n.outports = ["items", "state"]
        n.portpost = ["", " -> map(v::set_sorted)"]
        return (r[0], 1), (r[0], 2)

    def state_set(self, s, pers="static"):
        """state::<'p, SetUnionHashSet<i64>>() kept in lattice form (feeds lattice_bimorphism): [items] are
        singleton sets, [state] the accumulated set; modelled like state_by"""
        self.need(s, "i")
        r = self._add("state_by", [s], ["ss", "set"], [self.od(s), True],
                      "map(v::single) -> state::<'%s, v::SetI>()" % pers, pers=[pers])
        self.nodes[-1].outports = ["items", "state"]
        self.tags.add("state|%s" % pers)
        return (r[0], 1), (r[0], 2)

    def lattice_bimorphism(self, dl, dr, cl, cr):
        """cartesian product bimorphism over set-union lattices: (delta_l x R) u (L x delta_r), one set per tick"""
        self.need(dl, "ss")
        self.need(dr, "ss")
        txt = ("lattice_bimorphism(dfir_rs::lattices::set_union::CartesianProductBimorphism::<::std::collections::HashSet<_>>::default(), "
               "#n%d, #n%d)" % (cl[0], cr[0]))
        r = self._add("lattice_bimorphism", [dl, dr], ["p"], [True], txt, refs=[cl[0], cr[0]])
        n = self.nodes[-1]
        n.inports = ["0", "1"]
        n.post = " -> flat_map(v::pairs_sorted)"
        return r

    def resolve_futures(self, s, op="resolve_futures"):
        self.need(s, "i")
        oo = self.od(s) if op.endswith("ordered") else False
        return self._add(op, [s], ["i"], [oo], "map(v::ready_fut) -> %s()" % op)

    def zip_longest(self, a, b):
        self.need(a, "i")
        self.need(b, "i")
        if not (self.od(a) and self.od(b)):
            raise GenError("zip_longest on unordered")
        r = self._bin("zip_longest", a, b, "kp", True, ("tick",), ["0", "1"])
        self.nodes[-1].post = " -> map(v::eob)"
        return r

    def demux_enum(self, s):
        self.need(s, "i")
        o = self.od(s)
        r = self._add("demux_enum", [s], ["i", "i"], [o, o], "map(v::classify) -> demux_enum::<v::Cls>()", fn="is_even")
        n = self.nodes[-1]
        n.outports = ["Even", "Odd"]
        n.portpost = [" -> map(v::untup)", " -> map(v::untup)"]
        return (r[0], 1), (r[0], 2)

    def join_fused(self, a, b, pers=("tick", "tick")):
        """join_fused(Reduce max, Fold sum)"""
        self.need(a, "p")
        self.need(b, "p")
        r = self._bin("join_fused", a, b, "kp", False, pers, ["0", "1"],
                      extra="dfir_rs::dfir_pipes::pull::Reduce::new(v::max_red), dfir_rs::dfir_pipes::pull::Fold::new(v::sum_init, v::sum_acc)")
        self.nodes[-1].k = 1
        self.nodes[-1].pin_inputs = True     # (key type inference fails behind some handoffs)
        return r

    def join_fused_side(self, a, b, pers=("tick", "tick"), side="lhs", fn="sum"):
        """join_fused_lhs / join_fused_rhs (Reduce fn on the fused side).  `pers` is given BY PORT; the
        operator's first persistence argument belongs to the FUSED side (vouched for by
        dfir_rs/tests/surface_join_fused.rs static_tick_lhs_streaming_rhs_blocking)"""
        self.need(a, "p")
        self.need(b, "p")
        op = "join_fused_" + side
        text_pers = pers if side == "lhs" else (pers[1], pers[0])
        stream = b if side == "lhs" else a
        r = self._add(op, [a, b], ["kp"], [self.od(stream)],
                      "%s%s(dfir_rs::dfir_pipes::pull::Reduce::new(v::%s_red))" % (op, pers_txt(text_pers), fn),
                      fn=fn, pers=list(pers))
        self.nodes[-1].inports = ["0", "1"]
        self.nodes[-1].pin_inputs = True
        return r

    def join_multiset_half(self, build, probe, pers=("tick", "tick")):
        self.need(build, "p")
        self.need(probe, "p")
        return self._bin("join_multiset_half", build, probe, "kp", self.od(build) and self.od(probe), pers,
                         ["build", "probe"])

    def lattice_fold_batch(self, inp, sig):
        self.need(inp, "mx")
        self.guard_short_circuit(sig)
        r = self._bin("lattice_fold_batch", inp, sig, "i", True, (), ["input", "signal"])
        self.nodes[-1].rust = "_lattice_fold_batch::<v::MaxU>()"
        self.tags.add("_lattice_fold_batch|-")
        self.nodes[-1].post = " -> map(v::from_max)"
        return r

    def lattice_join_fused_join(self, a, b, pers=("tick", "tick")):
        """_lattice_join_fused_join::<'a, 'b, Min<u64>, Max<u64>>()"""
        self.need(a, "kmn")
        self.need(b, "kmx")
        r = self._bin("join_fused", a, b, "kp", False, pers, ["0", "1"])
        n = self.nodes[-1]
        n.k = 2
        n.pin_inputs = True
        n.rust = "_lattice_join_fused_join::<%s, v::MinU, v::MaxU>()" % ", ".join("'" + q for q in pers)
        n.post = (" -> map(|m| { let dfir_rs::lattices::collections::SingletonMap(k, (a, b)) = "
                  "dfir_rs::lattices::DeepReveal::deep_reveal(m); (k, (a as i64, b as i64)) })")
        self.tags.add("_lattice_join_fused_join|%s" % "/".join(pers))
        self.tags.discard("join_fused|%s" % "/".join(pers))
        return r

    # -- delayed
    def defer(self, ty, lazy=False, ordered=True):
        """placeholder first (so that consumers may precede the producer), bind with defer_bind"""
        op = "defer_tick_lazy" if lazy else "defer_tick"
        return self._add(op, [], [ty], [ordered], op + "()")

    def defer_bind(self, d, s):
        self.need(s, self.ty(d))
        n = self.nodes[d[0] - 1]
        n.din = s
        if n.oord[0] and not self.od(s):
            n.oord[0] = False
            # (callers bind before using order-sensitive consumers, or declare ordered=False)

    # -- references (C25): `cell` = a handoff/singleton/optional node
    def cell(self, s, kind):
        """singleton() / optional() / handoff() target that can be referenced"""
        r = self._add(kind, [s], [self.ty(s)], [self.od(s)], kind + "()")
        return r

    def ref_map(self, s, cell, fn, group=None):
        """map whose closure reads (or mutates) the referenced cell"""
        g = "" if group is None else "{%d} " % group
        name = "n%d" % cell[0]
        txt = {
            "add_ref": "map(|x: i64| x + *#%s%s)" % (g, name),
            "add_opt": "map(|x: i64| x + #%s%s.unwrap_or(100))" % (g, name),
            "add_len": "map(|x: i64| x + (#%s%s.len() as i64))" % (g, name),
            "mul_ref": "map(|x: i64| x * *#%s%s)" % (g, name),
            "opt_mut": "map(|x: i64| { let r: &mut Option<i64> = #%smut %s; let old = r.unwrap_or(100); *r = Some(old + x); x + old })" % (g, name),
            "acc_mut": "map(|x: i64| { let r: &mut i64 = #%smut %s; let old = *r; *r += x; x + old })" % (g, name),
            "push_mut": "map(|x: i64| { let r: &mut _ = #%smut %s; let n = r.len() as i64; r.push(x); n })" % (g, name),
            "retain_gt": "map(|x: i64| { let r: &mut _ = #%smut %s; r.retain(|y: &i64| *y > x); x })" % (g, name),
        }[fn]
        self.need(s, "i")
        if fn in ("acc_mut", "push_mut", "opt_mut") and not self.od(s):
            raise GenError("order-sensitive mutating closure on an unordered stream")
        return self._add("ref_map", [s], ["i"], [self.od(s)], txt, fn=fn, refs=[cell[0]],
                         k=-1 if group is None else group)

    def ref_filter(self, s, cell, fn, group=None):
        g = "" if group is None else "{%d} " % group
        name = "n%d" % cell[0]
        txt = {
            "le_ref": "filter(|x: &i64| *x <= *#%s%s)" % (g, name),
            "le_opt": "filter(|x: &i64| *x <= #%s%s.unwrap_or(2))" % (g, name),
        }[fn]
        self.need(s, "i")
        return self._add("ref_filter", [s], ["i"], [self.od(s)], txt, fn=fn, refs=[cell[0]],
                         k=-1 if group is None else group)

    def iter_ref_g(self, cell, group):
        return self.iter_ref(cell, group)

    def iter_ref(self, cell, group=None):
        name = "n%d" % cell[0]
        g = "" if group is None else "{%d} " % group
        r = self._add("iter_ref", [], [self.ty(cell)], [self.od(cell)], "iter_ref(#%s%s)" % (g, name), refs=[cell[0]])
        self.nodes[-1].post = " -> map(|x: &%s| x.clone())" % RT[self.ty(cell)]
        return r

    # -- loops
    def loop_begin(self):
        parent = self.cur_loop
        self.loops.append({"parent": parent, "first": len(self.nodes) + 1, "last": 0, "root": parent == 0})
        self.cur_loop = len(self.loops)
        return self.cur_loop

    def loop_end(self):
        l = self.loops[self.cur_loop - 1]
        l["last"] = len(self.nodes)
        self.cur_loop = l["parent"]

    def window(self, s, op="batch"):
        return self._add(op, [s], [self.ty(s)], [self.od(s)], op + "()")

    def unwindow(self, s):
        """all_iterations(): in the PARENT context of the loop that contains s"""
        return self._add("all_iterations", [s], [self.ty(s)], [False], "all_iterations()")

    # ------------------------------------------------------------------------------------
    def consumers(self):
        """(node, port) -> list of (consumer idx, input position or 'd')"""
        c = {}
        for n in self.nodes:
            for i, s in enumerate(n.ins):
                c.setdefault(tuple(s), []).append((n.idx, i))
            if n.din:
                c.setdefault(tuple(n.din), []).append((n.idx, "d"))
        return c

    def check(self):
        self.avail_term = self.avail_cycle_ok or self.compute_avail_ok()
        cons = self.consumers()
        referenced = {r for n in self.nodes for r in n.refs}
        for n in self.nodes:
            if n.op in ("defer_tick", "defer_tick_lazy") and not n.din:
                raise GenError("unbound defer")
            for p in range(1, len(n.otypes) + 1):
                if (n.idx, p) not in cons and not (n.idx in referenced):
                    raise GenError("dangling output of node %d (%s)" % (n.idx, n.op))
            for (a, b) in n.ins:
                if a >= n.idx:
                    raise GenError("forward same-tick edge")

    def compute_avail_ok(self):
        """run_available terminates for every input iff no non-lazy defer_tick can keep receiving
        items without external input.  Conservative: the upstream cone (through same-tick and
        delayed edges) of every non-lazy defer_tick must consist of operators that emit nothing on
        empty input and keep no state that regenerates output; and must not contain the defer
        itself (cycles are only allowed where the builder set avail_ok explicitly)."""
        if not self.avail_ok:
            return False
        QUIET_STATIC = {"unique", "enumerate", "scan", "zip", "cross_singleton"}
        def noisy(n):
            if n.op in ("fold", "persist", "source_iter", "state", "state_by"):
                return True     # (state / state_by emit their [state] output in every tick)
            if n.op == "fold_no_replay":
                return False    # emits at tick 0 only
            if "static" in n.pers and n.op not in QUIET_STATIC:
                return True
            return False
        for d in self.nodes:
            if d.op != "defer_tick":
                continue
            seen, todo = set(), [d.din[0]]
            while todo:
                x = todo.pop()
                if x in seen:
                    continue
                seen.add(x)
                n = self.nodes[x - 1]
                if noisy(n) or x == d.idx:
                    return False
                todo.extend(a for a, _ in n.ins)
                todo.extend(n.refs)
                if n.din:
                    todo.append(n.din[0])
        return True

    def desc(self):
        return {"nodes": [n.desc() for n in self.nodes],
                "loops": self.loops, "nsrc": len(self.src_types), "nsink": len(self.sinks), "pairs": self.pairs,
                "ord": [o for (_, o) in self.sinks]}

    # ------------------------------------------------------------------------------------
    # Rust emission.  `deco`: dict edge (producer idx, port, consumer idx, pos) -> list of
    # decorations from {"identity","map_id","handoff","union_empty","tee_null"} (C22 variants)
    # ------------------------------------------------------------------------------------
    def rust_body(self, deco=None, shuffle=None):
        deco = deco or {}
        cons = self.consumers()
        lines = {0: []}     # loop id -> lines (nested emission afterwards)
        for li in range(1, len(self.loops) + 1):
            lines[li] = []
        extra = [0]

        def outname(s):
            n = self.nodes[s[0] - 1]
            if n.outports:
                if len(cons.get(tuple(s), [])) > 1 or n.portpost:
                    return "n%dp%d" % s
                return "n%d[%s]" % (s[0], n.outports[s[1] - 1])
            return "n%d" % s[0]

        def edge_src(s, consumer, pos, lp):
            """name to use on the consumer side of edge s -> (consumer,pos), after decorations"""
            cur = outname(s)
            for d in deco.get((s[0], s[1], consumer, pos), []):
                extra[0] += 1
                nm = "e%d" % extra[0]
                t = RT[self.ty(s)]
                if d == "identity":
                    lines[lp].append("%s = %s -> identity();" % (nm, cur))
                elif d == "map_id":
                    lines[lp].append("%s = %s -> map(v::id);" % (nm, cur))
                elif d == "handoff":
                    lines[lp].append("%s = %s -> handoff();" % (nm, cur))
                elif d == "union_empty":
                    lines[lp].append("%s = union();" % nm)
                    lines[lp].append("%s -> %s;" % (cur, nm))
                    lines[lp].append("source_iter(::std::vec::Vec::<%s>::new()) -> %s;" % (t, nm))
                elif d == "tee_null":
                    lines[lp].append("%s = %s -> tee();" % (nm, cur))
                    lines[lp].append("%s -> null();" % nm)
                else:
                    raise GenError("unknown decoration " + d)
                cur = nm
            return cur

        for n in self.nodes:
            lp = n.lp
            name = "n%d" % n.idx
            ntee = len(n.otypes) == 1 and len(cons.get((n.idx, 1), [])) > 1
            tail = n.post + (" -> tee()" if ntee else "")
            if n.op == "sink":
                s = n.ins[0]
                lines[lp].append("%s -> %s;" % (edge_src(s, n.idx, 0, lp), n.rust))
            elif n.din is not None:
                s = n.din
                lines[lp].append("%s = %s -> %s%s;" % (name, edge_src(s, n.idx, "d", lp), n.rust, tail))
            elif len(n.ins) == 0:
                lines[lp].append("%s = %s%s;" % (name, n.rust, tail))
            elif n.op == "multiset_delta":
                s = n.ins[0]
                lines[lp].append("%sq = union();" % name)
                lines[lp].append("%s -> %sq;" % (edge_src(s, n.idx, 0, lp), name))
                lines[lp].append("source_iter(::std::vec::Vec::<%s>::new()) -> %sq;" % (RT[self.ty(s)], name))
                lines[lp].append("%s = %sq -> %s%s;" % (name, name, n.rust, tail))
            elif len(n.ins) == 1 and not n.inports:
                s = n.ins[0]
                lines[lp].append("%s = %s -> %s%s;" % (name, edge_src(s, n.idx, 0, lp), n.rust, tail))
            else:
                lines[lp].append("%s = %s%s;" % (name, n.rust, tail))
                for i, s in enumerate(n.ins):
                    pin = " -> identity::<%s>()" % RT[self.ty(s)] if n.pin_inputs else ""
                    lines[lp].append("%s%s -> [%s]%s;" % (edge_src(s, n.idx, i, lp), pin, n.inports[i], name))
            if n.outports:
                for p in range(1, len(n.otypes) + 1):
                    many = len(cons.get((n.idx, p), [])) > 1
                    pp = n.portpost[p - 1] if n.portpost else ""
                    if many or n.portpost:
                        lines[lp].append("n%dp%d = n%d[%s]%s%s;" % (n.idx, p, n.idx, n.outports[p - 1], pp,
                                                                   " -> tee()" if many else ""))
        if shuffle is not None:
            # statement order is semantically irrelevant in DFIR: permute it (C22 / C25)
            for li in lines:
                shuffle.shuffle(lines[li])

        def emit(li, ind):
            out = []
            for ln in lines[li]:
                out.append(" " * ind + ln)
            for ci, l in enumerate(self.loops, start=1):
                if l["parent"] == li:
                    out.append(" " * ind + "loop {")
                    out.extend(emit(ci, ind + 4))
                    out.append(" " * ind + "};")
            return out
        return "\n".join(emit(0, 8))

    def _same_ctx(self, s, n):
        return self.nodes[s[0] - 1].lp == n.lp

    def rust_fn(self, fname, deco=None, shuffle=None):
        L = []
        L.append("pub fn %s(steps: &Value, out: &mut Trace) {" % fname)
        snd = []
        for k, t in enumerate(self.src_types, start=1):
            L.append("    let (s%d, r%d) = dfir_rs::util::unbounded_channel::<%s>();" % (k, k, RT[t]))
            snd.append("rt::sender(s%d)" % k)
        L.append("    let log = rt::new_log();")
        for k in range(1, len(self.sinks) + 1):
            L.append("    let lg%d = log.clone();" % k)
        L.append("    let mut df = dfir_syntax! {")
        L.append(self.rust_body(deco, shuffle))
        L.append("    };")
        L.append("    let senders: Vec<rt::Sender> = vec![%s];" % ", ".join(snd))
        L.append("    rt::drive(&mut df, &senders, &log, %d, steps, out);" % len(self.sinks))
        L.append("}")
        return "\n".join(L)


# ---------------------------------------------------------------------------------------------
# hand-written corpus: every operator x persistence, end to end
# ---------------------------------------------------------------------------------------------
def corpus():
    P = []

    def add(name, prop, build):
        p = Prog(name, prop)
        build(p)
        p.check()
        P.append(p)
        return p

    # --- stateless pipeline
    def b(p):
        s = p.src()
        a = p.map(s, "inc")
        c = p.filter(a, "is_even")
        d = p.flat_map(c, "dup")
        e = p.filter_map(d, "half_even")
        p.sink(e)
    add("stateless_chain", "C21", b)

    for op in ("fold", "fold_no_replay"):
        for pers in ("tick", "static"):
            def b(p, op=op, pers=pers):
                s = p.map(p.src(), "inc")
                p.sink(p.fold(s, "sum", pers, op=op))
                p.sink(p.flatten(p.fold(s, "push", pers, op=op)))
                p.sink(p.fold(p.map(s, "key_mod2"), "sum_snd", pers, op=op))
            add("%s_%s" % (op, pers), "C21", b)
    for op in ("reduce", "reduce_no_replay"):
        for pers in ("tick", "static"):
            def b(p, op=op, pers=pers):
                s = p.src()
                p.sink(p.reduce(s, "max" if pers == "tick" else "sum", pers, op=op))
            add("%s_%s" % (op, pers), "C21", b)
    for op in ("fold_keyed", "reduce_keyed"):
        for pers in ("tick", "static"):
            def b(p, op=op, pers=pers):
                s = p.map(p.src(), "key_mod2")
                r = p.fold_keyed(s, "sum", pers) if op == "fold_keyed" else p.reduce_keyed(s, "max", pers)
                p.sink(r)
            add("%s_%s" % (op, pers), "C21", b)
    for op in ("join", "join_multiset"):
        for pl in ("tick", "static"):
            def b(p, op=op, pl=pl):
                a = p.map(p.src(), "key_mod2")
                c = p.map(p.src(), "key_mod3")
                p.sink(p.join(a, c, (pl, "tick"), op=op))
                p.sink(p.join(a, c, (pl, "static"), op=op))
            add("%s_%s_x" % (op, pl), "C21", b)
    for op in ("cross_join", "cross_join_multiset"):
        def b(p, op=op):
            a, c = p.src(), p.src()
            for pl, pr in (("tick", "tick"), ("static", "tick"), ("tick", "static"), ("static", "static")):
                p.sink(p.cross_join(a, c, (pl, pr), op=op))
        add("%s_x" % op, "C21", b)
    for pl in ("tick", "static"):
        def b(p, pl=pl):
            pos = p.map(p.src(), "key_mod3")
            neg = p.src()
            p.sink(p.anti_join(pos, neg, (pl, "tick")))
            p.sink(p.anti_join(pos, neg, (pl, "static")))
        add("anti_join_%s_x" % pl, "C21", b)

        def b2(p, pl=pl):
            a, c = p.src(), p.src()
            p.sink(p.difference(a, c, (pl, "tick")))
            p.sink(p.difference(a, c, (pl, "static")))
        add("difference_%s_x" % pl, "C21", b2)
    for pers in ("tick", "static"):
        def b(p, pers=pers):
            p.sink(p.unique(p.src(), pers))
        add("unique_%s" % pers, "C21", b)

        def b(p, pers=pers):
            p.sink(p.enumerate(p.src(), pers))
        add("enumerate_%s" % pers, "C21", b)

        def b(p, pers=pers):
            p.sink(p.scan(p.src(), "sum_until_10", pers))
        add("scan_%s" % pers, "C21", b)

        def b(p, pers=pers):
            f = p.fold(p.src(), "max", "tick")
            p.sink(p.cross_singleton(p.src(), f, pers))
        add("cross_singleton_%s" % pers, "C21", b)
    for pl, pr in (("tick", "tick"), ("static", "static"), ("static", "tick")):
        def b(p, pl=pl, pr=pr):
            p.sink(p.zip(p.src(), p.src(), (pl, pr)))
        add("zip_%s_%s" % (pl, pr), "C21", b)

    def b(p):
        p.sink(p.persist(p.src()))
    add("persist", "C21", b)

    def b(p):
        p.sink(p.multiset_delta(p.src()))
    add("multiset_delta", "C21", b)

    def b(p):
        p.sink(p.multiset_delta(p.persist(p.src())))
    add("persist_multiset_delta", "C21", b)

    def b(p):
        p.sink(p.sort(p.src()))
    add("sort_i", "C21", b)

    def b(p):
        p.sink(p.sort(p.map(p.src(), "key_mod2")))
    add("sort_p", "C21", b)

    def b(p):
        p.sink(p.sort_by_key(p.src(), "id"))
        p.sink(p.sort_by_key(p.map(p.src(), "key_mod2"), "fst"))
    add("sort_by_key", "C21", b)

    def b(p):
        a, c = p.src(), p.src()
        p.sink(p.sort(p.chain(a, c)))
        p.sink(p.chain_first_n(p.src(), p.map(p.src(), "inc"), 3))
    add("chain_first_n", "C21", b)

    def b(p):
        s = p.src()
        t, f = p.partition(s, "is_even")
        p.sink(t)
        p.sink(p.map(f, "inc"))
        x, y = p.unzip(p.map(p.src(), "key_mod3"))
        p.sink(x)
        p.sink(y)
    add("partition_unzip", "C21", b)

    def b(p):
        p.sink(p.defer_signal(p.src(), p.src()))
    add("defer_signal", "C21", b)

    def b(p):
        a = p.src()
        u = p.union(p.map(a, "inc"), p.map(a, "dbl"), p.src())
        p.sink(u)
        p.sink(p.simple(p.simple(a, "inspect"), "identity"))
    add("union_tee", "C21", b)

    # --- pull vs push (C21 against the model AND C22 side against side): the same operator once
    #     directly behind a tee (push side, with a real downstream) and once fed directly by its
    #     own source and followed by a binary union (pull side); all sources of one program receive
    #     IDENTICAL input (p.mirror), so the two sinks of a pair must agree tick by tick (p.pairs)
    def side(name, fs, ty="i"):
        def b(p):
            s = p.src(ty)
            p.sink(s)                                   # extra consumer -> tee -> push side
            grp = [1]
            for f in fs:
                p.sink(f(p, s))                         # push placed
                kpush = len(p.sinks)
                z = p.src(ty)                           # sole consumer is f -> pull placed
                grp.append(len(p.src_types))
                r = f(p, z)
                p.sink(p.union(r, p.source_iter([], p.ty(r))))
                p.pairs.append([kpush, len(p.sinks)])
            p.mirror.append(grp)
            p.gaps = True
        add("sides_" + name, "C21", b)

    def side2(name, mk, combos, tys):
        """binary operators: inputs behind tees vs. fed directly by their own sources"""
        def b(p):
            a, c = p.src(tys[0]), p.src(tys[1])
            p.sink(a)
            p.sink(c)
            ga, gc = [1], [2]
            for pers in combos:
                p.sink(mk(p, a, c, pers))
                kpush = len(p.sinks)
                a2, c2 = p.src(tys[0]), p.src(tys[1])
                ga.append(len(p.src_types) - 1)
                gc.append(len(p.src_types))
                r = mk(p, a2, c2, pers)
                p.sink(p.union(r, p.source_iter([], p.ty(r))))
                p.pairs.append([kpush, len(p.sinks)])
            p.mirror.extend([ga, gc])
            p.gaps = True
        add("sides_" + name, "C21", b)
    side2("join", lambda p, a, c, pers: p.join(a, c, pers), [("tick", "tick"), ("static", "tick"), ("static", "static")], ("p", "p"))
    side2("join_multiset", lambda p, a, c, pers: p.join(a, c, pers, op="join_multiset"), [("tick", "static"), ("static", "static")], ("p", "p"))
    side2("anti_join", lambda p, a, c, pers: p.anti_join(a, c, pers), [("tick", "tick"), ("static", "tick"), ("tick", "static"), ("static", "static")], ("p", "i"))
    side2("difference", lambda p, a, c, pers: p.difference(a, c, pers), [("tick", "tick"), ("static", "static")], ("i", "i"))
    side2("cross_join", lambda p, a, c, pers: p.cross_join(a, c, pers), [("tick", "tick"), ("static", "tick")], ("i", "i"))
    side2("zip", lambda p, a, c, pers: p.zip(a, c, pers), [("tick", "tick"), ("static", "static")], ("i", "i"))
    TS = ("tick", "static")
    side("fold", [lambda p, s, pers=pers: p.fold(s, "sum", pers) for pers in TS])
    side("fold_no_replay", [lambda p, s, pers=pers: p.fold(s, "sum", pers, op="fold_no_replay") for pers in TS])
    side("reduce", [lambda p, s, pers=pers: p.reduce(s, "sum", pers) for pers in TS])
    side("reduce_no_replay", [lambda p, s, pers=pers: p.reduce(s, "sum", pers, op="reduce_no_replay") for pers in TS])
    side("fold_keyed", [lambda p, s, pers=pers: p.map(p.fold_keyed(p.map(s, "key_mod2"), "sum", pers), "sum_pair") for pers in TS])
    side("reduce_keyed", [lambda p, s, pers=pers: p.map(p.reduce_keyed(p.map(s, "key_mod2"), "max", pers), "sum_pair") for pers in TS])
    side("unique", [lambda p, s, pers=pers: p.unique(s, pers) for pers in TS])
    side("enumerate", [lambda p, s, pers=pers: p.map(p.enumerate(s, pers), "sum_pair") for pers in TS])
    side("scan", [lambda p, s, pers=pers: p.scan(s, "running_sum", pers) for pers in TS])
    side("lattice_fold", [lambda p, s, pers=pers: p.lattice(s, pers, "lattice_fold") for pers in TS])
    side("lattice_reduce", [lambda p, s, pers=pers: p.lattice(s, pers, "lattice_reduce") for pers in TS])
    side("persist_sort", [lambda p, s: p.persist(s), lambda p, s: p.sort(s), lambda p, s: p.sort_by_key(s, "id")])
    side("multiset_delta", [lambda p, s: p.multiset_delta(s), lambda p, s: p.multiset_delta(p.persist(s))])
    side("flat_filter", [lambda p, s: p.filter_map(p.flat_map(p.filter(s, "gt1"), "dup"), "half_even")])

    # --- second round of operators
    def b(p):
        a, c = p.src(), p.src()
        for pers in ("tick", "static"):
            it, st = p.state(a, pers)
            p.sink(it)
            p.sink(st)
            it, st = p.state_by(c, pers)
            p.sink(it)
            p.sink(st)
    add("state_x", "C21", b)

    def b(p):
        p.sink(p.zip_longest(p.src(), p.src()))
        ev, od = p.demux_enum(p.src())
        p.sink(ev)
        p.sink(p.map(od, "inc"))
    add("zip_longest_demux_enum", "C21", b)

    ALL4 = [("tick", "tick"), ("static", "tick"), ("tick", "static"), ("static", "static")]

    def b(p):
        a, c = p.src("p"), p.src("p")
        for pers in ALL4:
            p.sink(p.join_fused(a, c, pers))
    add("join_fused_x", "C21", b)
    for side in ("lhs", "rhs"):
        def b(p, side=side):
            a, c = p.src("p"), p.src("p")
            for pers in ALL4:
                p.sink(p.join_fused_side(a, c, pers, side=side, fn="sum" if side == "lhs" else "max"))
        add("join_fused_%s_x" % side, "C21", b)

    def b(p):
        a, c = p.src("p"), p.src("p")
        for pers in ALL4:
            p.sink(p.join_multiset_half(a, c, pers))
    add("join_multiset_half_x", "C21", b)

    def b(p):
        p.sink(p.lattice_fold_batch(p.map(p.src(), "to_max"), p.src()))
        a, c = p.src("p"), p.src("p")
        for pers in (("tick", "tick"), ("static", "tick"), ("static", "static")):
            p.sink(p.lattice_join_fused_join(p.map(a, "kv_to_min"), p.map(c, "kv_to_max"), pers))
    add("lattice_batch_and_fused_join", "C21", b)

    def b(p):
        a, c = p.src(), p.src()
        for pers in ("static", "tick"):
            li, ls = p.state_set(a, pers)
            ri, rs = p.state_set(c, pers)
            p.sink(p.lattice_bimorphism(li, ri, p.cell(ls, "singleton"), p.cell(rs, "singleton")))
    add("lattice_bimorphism_x", "C21", b)

    def b(p):
        s = p.src()
        for op in ("resolve_futures", "resolve_futures_ordered", "resolve_futures_blocking", "resolve_futures_blocking_ordered"):
            p.sink(p.resolve_futures(s, op))
    add("resolve_futures_x", "C21", b)

    # --- KNOWN FINDING dfirtick/shortcircuit_*: a lazily pulled operator with cross-tick state in
    #     front of an input that is not pulled to its end.  Each program holds the hazardous shape and
    #     the same pipeline with a handoff() in between (which drains the operator completely): the
    #     first contradicts the model (C21), and the two contradict each other (C22, p.pairs).
    def sc(name, mk):
        def b(p):
            p.allow_short_circuit = True
            a, c = p.src(), p.src()
            a2, c2 = p.src(), p.src()
            p.sink(mk(p, a, p.unique(c, "static")))
            p.sink(mk(p, a2, p.simple(p.unique(c2, "static"), "handoff")))
            p.pairs.append([1, 2])
            p.mirror.extend([[1, 3], [2, 4]])
        add("shortcircuit_" + name, "C21", b)
    sc("cross_singleton_single", lambda p, a, u: p.cross_singleton(a, u, "tick"))
    sc("cross_singleton_input", lambda p, a, u: p.cross_singleton(u, a, "tick"))
    sc("chain_first_n", lambda p, a, u: p.chain_first_n(u, a, 1))
    sc("defer_signal", lambda p, a, u: p.defer_signal(a, u))

    # --- C24: ticks, defer_tick, defer_tick_lazy, run_available
    def b(p):
        s = p.src()
        d = p.defer("i")
        p.defer_bind(d, s)
        p.sink(d)
        p.sink(s)
    add("defer_once", "C24", b)

    def b(p):
        s = p.src()
        d = p.defer("i", lazy=True)
        p.defer_bind(d, s)
        p.sink(d)
    add("defer_lazy_once", "C24", b)

    def b(p):
        s = p.src()
        d1 = p.defer("i")
        p.defer_bind(d1, s)
        d2 = p.defer("i")
        p.defer_bind(d2, p.map(d1, "inc"))
        d3 = p.defer("i", lazy=True)
        p.defer_bind(d3, d2)
        p.sink(d3)
        p.sink(d2)
    add("defer_chain3", "C24", b)

    def b(p):
        # counting cycle: x -> x+1 while x < 6, one step per tick
        s = p.src()
        d = p.defer("i", ordered=False)
        u = p.union(s, d)
        p.sink(u)
        p.defer_bind(d, p.map(p.filter(u, "lt6"), "inc"))
        p.avail_cycle_ok = True
    add("defer_cycle_count", "C24", b)

    def b(p):
        s = p.src()
        d = p.defer("i", lazy=True, ordered=False)
        u = p.union(s, d)
        p.sink(u)
        p.defer_bind(d, p.map(p.filter(u, "lt6"), "inc"))
        p.avail_cycle_ok = True
    add("defer_lazy_cycle", "C24", b)

    def b(p):
        # non-lazy feeding lazy feeding non-lazy
        s = p.src()
        d1 = p.defer("i", lazy=True)
        p.defer_bind(d1, s)
        d2 = p.defer("i")
        p.defer_bind(d2, d1)
        p.sink(p.fold(d2, "sum", "static"))
        p.sink(p.unique(d2, "tick"))
    add("defer_lazy_then_eager", "C24", b)

    def b(p):
        s = p.src()
        d = p.defer("i")
        p.defer_bind(d, p.fold(s, "sum", "tick"))      # fold emits every tick -> never idle
        p.sink(d)
        p.avail_ok = False
    add("defer_fold_every_tick", "C24", b)

    def b(p):
        s = p.src()
        d = p.defer("i")
        p.defer_bind(d, p.reduce(s, "sum", "tick"))
        p.sink(p.persist(d))
        p.sink(p.unique(d, "static"))
    add("defer_reduce_persist", "C24", b)
    return P



# ---------------------------------------------------------------------------------------------
# C25: references
# ---------------------------------------------------------------------------------------------
def refs_corpus():
    P = []

    def add(name, build):
        p = Prog(name, "C25")
        build(p)
        p.check()
        P.append(p)

    def b(p):       # singleton read; the reader shares its source with the producer
        a, c = p.src(), p.src()
        sv = p.cell(p.fold(c, "max", "tick"), "singleton")
        p.sink(p.ref_map(a, sv, "add_ref"))
        p.sink(p.ref_filter(c, sv, "le_ref"))
        p.sink(sv)
    add("ref_singleton_read", b)

    def b(p):       # no pipe consumer, 'static fold
        a, c = p.src(), p.src()
        sv = p.cell(p.fold(p.map(c, "inc"), "sum", "static"), "singleton")
        p.sink(p.ref_map(a, sv, "add_ref"))
    add("ref_singleton_only", b)

    def b(p):       # optional
        a, c = p.src(), p.src()
        ov = p.cell(p.reduce(c, "max", "tick"), "optional")
        p.sink(p.ref_map(a, ov, "add_opt"))
        p.sink(p.ref_filter(a, ov, "le_opt"))
        p.sink(ov)
    add("ref_optional", b)

    def b(p):       # handoff len + iter_ref
        a, c = p.src(), p.src()
        hb = p.cell(p.map(c, "dbl"), "handoff")
        p.sink(p.ref_map(a, hb, "add_len"))
        p.sink(p.iter_ref(hb))
        p.sink(hb)
    add("ref_handoff_len", b)

    def b(p):       # access groups: {0} mut, {1} two readers; pipe consumer sees the final value
        a, c, d = p.src(), p.src(), p.src()
        sv = p.cell(p.fold(c, "sum", "tick"), "singleton")
        p.sink(p.ref_map(a, sv, "acc_mut", group=0))
        p.sink(p.ref_map(d, sv, "add_ref", group=1))
        p.sink(p.ref_filter(a, sv, "le_ref", group=1))
        p.sink(sv)
    add("ref_groups_mut_then_read", b)

    def b(p):       # read before and after two mutations
        a, c, d = p.src(), p.src(), p.src()
        sv = p.cell(p.fold(c, "max", "static"), "singleton")
        p.sink(p.ref_map(d, sv, "add_ref", group=0))
        p.sink(p.ref_map(a, sv, "acc_mut", group=1))
        p.sink(p.ref_map(d, sv, "acc_mut", group=2))
        p.sink(p.ref_map(a, sv, "add_ref", group=3))
        p.sink(sv)
    add("ref_groups_read_mut_mut_read", b)

    def b(p):       # handoff mutated by push, then iterated and consumed
        a, c = p.src(), p.src()
        hb = p.cell(c, "handoff")
        p.sink(p.ref_map(a, hb, "push_mut", group=0))
        p.sink(p.iter_ref_g(hb, 1))
        p.sink(hb)
    add("ref_handoff_push_mut", b)

    def b(p):       # retain on a handoff before its consumer drains it
        a, c = p.src(), p.src()
        hb = p.cell(p.map(c, "inc"), "handoff")
        p.sink(p.ref_map(p.reduce(a, "max", "tick"), hb, "retain_gt"))
        p.sink(p.fold(hb, "sum", "tick"))
    add("ref_handoff_retain", b)

    def b(p):       # producer behind a deep pipeline crossing union / tee / join
        a, c, d = p.src(), p.src(), p.src()
        j = p.join(p.map(c, "key_mod2"), p.map(d, "key_mod2"), ("tick", "static"))
        u = p.union(p.map(p.map(j, "join_sum"), "snd"), p.flat_map(c, "dup"), d)
        sv = p.cell(p.fold(p.unique(u, "tick"), "count", "tick"), "singleton")
        p.sink(p.ref_map(a, sv, "add_ref"))
        p.sink(p.fold(p.ref_filter(u, sv, "le_ref"), "count", "tick"))
    add("ref_deep_producer", b)

    def b(p):       # reader output feeds stateful operators and another cell
        a, c = p.src(), p.src()
        sv = p.cell(p.fold(c, "sum", "tick"), "singleton")
        r = p.ref_map(a, sv, "add_ref")
        sv2 = p.cell(p.fold(r, "max", "tick"), "singleton")
        p.sink(p.ref_map(c, sv2, "add_ref"))
        p.sink(p.unique(r, "static"))
    add("ref_chain_of_cells", b)

    def b(p):       # deferred input into the cell
        a, c = p.src(), p.src()
        d = p.defer("i")
        p.defer_bind(d, c)
        sv = p.cell(p.fold(d, "sum", "static"), "singleton")
        p.sink(p.ref_map(a, sv, "add_ref"))
    add("ref_cell_after_defer", b)
    return P


# ---------------------------------------------------------------------------------------------
# C26: loops
# ---------------------------------------------------------------------------------------------
def loops_corpus():
    P = []

    def add(name, build):
        p = Prog(name, "C26")
        build(p)
        p.avail_cycle_ok = True
        p.check()
        P.append(p)

    def cycle(p, w, lazy=False, step="inc", cond="lt6"):
        d = p.defer("i", lazy=lazy, ordered=False)
        u = p.union(w, d)
        p.defer_bind(d, p.map(p.filter(u, cond), step))
        return u

    def b(p):       # root loop gating, batch + batch_lazy
        t, z = p.src(), p.src()
        p.loop_begin()
        u = p.union(p.window(t), p.window(z, "batch_lazy"))
        p.sink(p.map(u, "inc"))
        p.loop_end()
    add("loop_root_gate_lazy", b)

    def b(p):       # two independent root loops
        t, z = p.src(), p.src()
        p.loop_begin()
        p.sink(p.window(t))
        p.loop_end()
        p.loop_begin()
        p.sink(p.fold(p.window(z), "sum", "tick"))
        p.loop_end()
    add("loop_root_independent", b)

    def b(p):       # only lazy entries: no gate -> always runs
        t = p.src()
        p.loop_begin()
        p.sink(p.fold(p.window(t, "batch_lazy"), "count", "tick"))
        p.loop_end()
    add("loop_root_no_gate", b)

    for lazy in (False, True):
        def b(p, lazy=lazy):   # root loop with a deferred cycle: one step per tick
            t = p.src()
            p.loop_begin()
            p.sink(cycle(p, p.window(t), lazy=lazy))
            p.loop_end()
        add("loop_root_defer" + ("_lazy" if lazy else ""), b)

    for lazy in (False, True):
        def b(p, lazy=lazy):   # nested loop: fixpoint within one tick (lazy: one iteration, leftovers kept)
            t = p.src()
            p.loop_begin()
            rd = p.simple(p.window(t), "identity")
            p.loop_begin()
            u = cycle(p, p.window(rd), lazy=lazy)
            p.sink(u)
            p.loop_end()
            p.loop_end()
        add("loop_nested_defer" + ("_lazy" if lazy else ""), b)

    def b(p):       # all_iterations collects every iteration
        t = p.src()
        p.loop_begin()
        rd = p.simple(p.window(t), "identity")
        p.loop_begin()
        u = cycle(p, p.window(rd), step="inc", cond="lt3")
        p.sink(p.fold(u, "count", "tick"))      # 'tick state spans the iterations of one tick
        p.loop_end()
        ai = p.unwindow(u)
        p.sink(p.sort(ai))
        p.sink(p.fold(ai, "sum", "tick"))
        p.loop_end()
    add("loop_all_iterations", b)

    def b(p):       # reachability: join inside a nested loop, unique::<'tick> makes it a fixpoint
        seeds, edges = p.src(), p.src("p")
        p.loop_begin()
        sb = p.simple(p.window(seeds), "identity")
        eb = p.simple(p.window(edges, "batch_lazy"), "identity")
        p.loop_begin()
        d = p.defer("i", ordered=False)
        reach = p.unique(p.union(p.window(sb), d), "tick")
        j = p.join(p.map(reach, "pair_self"), p.window(eb, "batch_lazy"), ("tick", "tick"))
        # the join re-emits everything every iteration ('tick state spans the iterations): only
        # never-seen destinations may go round again, otherwise the loop never ends
        p.defer_bind(d, p.unique(p.map(j, "join_right"), "tick"))
        p.loop_end()
        p.sink(p.sort(p.unwindow(reach)))
        p.loop_end()
    add("loop_reachability", b)

    def b(p):       # nested batch_lazy: lazy data only visible in the first inner iteration
        t, z = p.src(), p.src()
        p.loop_begin()
        tr = p.simple(p.window(t), "identity")
        zr = p.simple(p.window(z, "batch_lazy"), "identity")
        p.loop_begin()
        u = cycle(p, p.window(tr))
        zl = p.window(zr, "batch_lazy")
        p.sink(p.cross_join(u, zl, ("tick", "tick")))
        p.loop_end()
        p.loop_end()
    add("loop_nested_lazy_entry", b)

    def b(p):       # persist inside a root loop replays only when the loop fires
        t = p.src()
        p.loop_begin()
        p.sink(p.persist(p.window(t)))
        p.loop_end()
    add("loop_root_persist", b)

    def b(p):       # three levels
        t = p.src()
        p.loop_begin()
        a = p.simple(p.window(t), "identity")
        p.loop_begin()
        m = cycle(p, p.window(a), step="inc", cond="lt3")
        mi = p.simple(m, "identity")
        p.loop_begin()
        inner = cycle(p, p.window(mi), step="inc", cond="lt6")
        p.loop_end()
        ai = p.unwindow(inner)
        p.loop_end()
        p.sink(p.sort(p.unwindow(ai)))
        p.loop_end()
    add("loop_three_levels", b)
    return P



# ---------------------------------------------------------------------------------------------
# access-group order (C25), reference reads feeding blocking operators (C23), several back edges (C26)
# returns list of (prog, [permutation codes], extra flag for each permutation)
# ---------------------------------------------------------------------------------------------
def order_corpus():
    out = []
    import itertools as it

    def groups_prog(kind, G, pats):
        p = Prog("groups%d_%s" % (G, kind), "C25")
        a, c = p.src(), p.src()
        for pat in pats:
            if kind == "singleton":
                cell = p.cell(p.fold(c, "sum", "tick"), "singleton")
                fr, fw = "add_ref", "acc_mut"
            elif kind == "optional":
                cell = p.cell(p.reduce(c, "max", "tick"), "optional")
                fr, fw = "add_opt", "opt_mut"
            else:
                cell = p.cell(p.map(c, "inc"), "handoff")
                fr, fw = "add_len", "push_mut"
            for g, ch in enumerate(pat):
                p.sink(p.ref_map(a, cell, fw if ch == "m" else fr, group=g))
            p.sink(cell)
        p.check()
        return p
    pats3 = ["".join(t) for t in it.product("mr", repeat=3) if "m" in t]
    pats4 = ["mrrr", "rmrr", "rrmr", "rrrm", "mrrm", "mmrr", "rmmr", "mrmr"]
    out.append((groups_prog("singleton", 3, pats3), [("desc", False), ("inter", False)]))
    out.append((groups_prog("singleton", 4, pats4), [("desc", False), ("inter", True)]))
    out.append((groups_prog("handoff", 3, pats3), [("desc", False), ("inter", True)]))
    out.append((groups_prog("optional", 3, pats3), [("desc", False), ("inter", True)]))
    out.append((groups_prog("handoff", 4, pats4), [("desc", True), ("inter", True)], True))
    out.append((groups_prog("optional", 4, pats4), [("desc", True), ("inter", True)], True))

    # C23: the input of a blocking operator depends on a reference read of the highest group; the
    # lower-group writers are fed through tee / handoff / union chains (decorations); reader text first
    def refdeep(name, block):
        p = Prog("refdeep_" + name, "C23")
        a, w0, w1, c = p.src(), p.src(), p.src(), p.src()
        acc = p.cell(p.fold(c, "sum", "tick"), "singleton")
        p.sink(p.ref_map(p.map(w0, "inc"), acc, "acc_mut", group=0))
        p.sink(p.ref_map(p.map(w1, "dbl"), acc, "acc_mut", group=1))
        rd = p.ref_map(a, acc, "mul_ref", group=2)
        block(p, rd, a)
        p.check()
        return p
    out.append((refdeep("fold", lambda p, rd, a: p.sink(p.fold(rd, "sum", "tick"))), [("desc", False)]))
    out.append((refdeep("sort_reduce", lambda p, rd, a: (p.sink(p.sort(rd)), p.sink(p.reduce(rd, "max", "static")))), [("desc", False)]))
    out.append((refdeep("anti_join_neg", lambda p, rd, a: p.sink(p.anti_join(p.map(a, "key_mod3"), p.map(rd, "mod3"), ("tick", "tick")))), [("desc", False)]))
    out.append((refdeep("difference_neg", lambda p, rd, a: p.sink(p.difference(p.map(a, "dbl"), rd, ("static", "tick")))), [("desc", True)], True))
    out.append((refdeep("persist_unique", lambda p, rd, a: p.sink(p.unique(p.persist(rd), "tick"))), [("inter", True)], True))

    # C26: nested loops with several non-lazy back edges; after the value 3 only the second back edge
    # holds data, after 13 only the third
    def backedges(name, n, order, lazy2=False):
        p = Prog("loop_backedges_" + name, "C26")
        p.avail_cycle_ok = True
        t = p.src()
        p.loop_begin()
        rd = p.simple(p.window(t), "identity")
        p.loop_begin()
        w = p.window(rd)
        ds = {}
        for k in order:
            ds[k] = p.defer("i", lazy=(lazy2 and k == 2), ordered=False)
        u = p.union(w, *[ds[k] for k in sorted(ds)])
        p.sink(u)
        steps = {1: ("lt3", "inc"), 2: ("eq3", "add10"), 3: ("eq13", "inc")}
        for k in order:
            cond, step = steps[k]
            p.defer_bind(ds[k], p.map(p.filter(u, cond), step))
        p.loop_end()
        p.sink(p.sort(p.unwindow(u)))
        p.loop_end()
        p.check()
        return p
    out.append((backedges("2_fwd", 2, [1, 2]), [("desc", False)]))
    out.append((backedges("2_rev", 2, [2, 1]), []))
    out.append((backedges("3_fwd", 3, [1, 2, 3]), [("inter", True)]))
    out.append((backedges("3_rev", 3, [3, 2, 1]), [("desc", True)], True))
    out.append((backedges("2_lazy_second", 2, [1, 2], lazy2=True), []))
    out.append((backedges("3_lazy_second", 3, [2, 3, 1], lazy2=True), [("desc", True)], True))
    return out

# ---------------------------------------------------------------------------------------------
# thorough-tier bulk (second generated module, cargo feature progs_x)
# ---------------------------------------------------------------------------------------------
def extra_corpus():
    P = []

    def side2(name, mk, combos, tys):
        p = Prog("sides_" + name, "C21")
        a, c = p.src(tys[0]), p.src(tys[1])
        p.sink(a)
        p.sink(c)
        ga, gc = [1], [2]
        for pers in combos:
            p.sink(mk(p, a, c, pers))
            kpush = len(p.sinks)
            a2, c2 = p.src(tys[0]), p.src(tys[1])
            ga.append(len(p.src_types) - 1)
            gc.append(len(p.src_types))
            r = mk(p, a2, c2, pers)
            p.sink(p.union(r, p.source_iter([], p.ty(r))))
            p.pairs.append([kpush, len(p.sinks)])
        p.mirror.extend([ga, gc])
        p.gaps = True
        p.check()
        P.append(p)
    ALL4 = [("tick", "tick"), ("static", "tick"), ("tick", "static"), ("static", "static")]
    side2("zip_longest", lambda p, a, c, pers: p.zip_longest(a, c), [("tick",)], ("i", "i"))
    side2("join_fused", lambda p, a, c, pers: p.join_fused(a, c, pers), ALL4, ("p", "p"))
    side2("join_fused_lhs", lambda p, a, c, pers: p.join_fused_side(a, c, pers, "lhs", "sum"), ALL4, ("p", "p"))
    side2("join_fused_rhs", lambda p, a, c, pers: p.join_fused_side(a, c, pers, "rhs", "max"), ALL4, ("p", "p"))
    side2("join_multiset_half", lambda p, a, c, pers: p.join_multiset_half(a, c, pers), ALL4, ("p", "p"))
    side2("cross_singleton", lambda p, a, c, pers: p.cross_singleton(a, c, pers[0]), [("tick",), ("static",)], ("i", "i"))
    side2("defer_signal", lambda p, a, c, pers: p.defer_signal(a, c), [("tick",)], ("i", "i"))
    side2("chain_first_n", lambda p, a, c, pers: p.chain_first_n(a, c, 3), [("tick",)], ("i", "i"))
    side2("cross_join_multiset", lambda p, a, c, pers: p.cross_join(a, c, pers, op="cross_join_multiset"), ALL4, ("i", "i"))
    def side1(name, fs):
        p = Prog("sides_" + name, "C21")
        s0 = p.src()
        p.sink(s0)
        grp = [1]
        for f in fs:
            p.sink(f(p, s0))
            kpush = len(p.sinks)
            z = p.src()
            grp.append(len(p.src_types))
            r = f(p, z)
            p.sink(p.union(r, p.source_iter([], p.ty(r))))
            p.pairs.append([kpush, len(p.sinks)])
        p.mirror.append(grp)
        p.gaps = True
        p.check()
        P.append(p)
    side1("resolve_futures", [lambda p, s, op=op: p.resolve_futures(s, op) for op in ("resolve_futures", "resolve_futures_ordered")])
    side2("join_multiset_x", lambda p, a, c, pers: p.join(a, c, pers, op="join_multiset"), [("tick", "tick"), ("static", "tick")], ("p", "p"))
    return P

# ---------------------------------------------------------------------------------------------
# calibration corpus: programs of /repo/dfir_rs/tests/surface_*.rs re-expressed, with the outputs
# those tests assert.  expect: list of histories; history = list of steps
#   {"mode","inputs":[[..]..],"ticks":[[[sink1 items],[sink2 items]..] per tick]}
# ---------------------------------------------------------------------------------------------
def calibration():
    P = []

    def add(name, build, hist):
        p = Prog(name, "CAL")
        build(p)
        p.check()
        p.expect = hist
        P.append(p)

    T = lambda inputs, *sinks: {"mode": "tick", "inputs": inputs, "ticks": [list(sinks)]}

    # surface_fold.rs test_fold_tick: fold::<'tick> push; ticks: [1,2],[3,4] -> [1,2],[3,4],[]
    def b(p):
        p.sink(p.fold(p.src(), "push", "tick"))
    add("cal_fold_tick", b, [[T([[1, 2]], [[1, 2]]), T([[3, 4]], [[3, 4]]), T([[]], [[]])]])

    # surface_fold.rs test_fold_static: fold::<'static> push: [1,2] then [1,2,3,4]; and every later tick again
    def b(p):
        p.sink(p.fold(p.src(), "push", "static"))
    add("cal_fold_static", b, [[T([[1, 2]], [[1, 2]]), T([[3, 4]], [[1, 2, 3, 4]]), T([[]], [[1, 2, 3, 4]])]])

    # surface_reduce.rs test_reduce_tick / static (sum): tick: 3, 7, nothing; static: 3, 10, 10
    def b(p):
        p.sink(p.reduce(p.src(), "sum", "tick"))
    add("cal_reduce_tick", b, [[T([[1, 2]], [3]), T([[3, 4]], [7]), T([[]], [])]])

    def b(p):
        p.sink(p.reduce(p.src(), "sum", "static"))
    add("cal_reduce_static", b, [[T([[1, 2]], [3]), T([[3, 4]], [10]), T([[]], [10])]])

    # surface_unique.rs: unique::<'tick> repeats across ticks, 'static never
    def b(p):
        p.sink(p.unique(p.src(), "tick"))
        p.sink(p.unique(p.src(), "static"))
    add("cal_unique", b, [[T([[1, 1, 2], [1, 1, 2]], [1, 2], [1, 2]), T([[2, 3], [2, 3]], [2, 3], [3])]])

    # surface_persist.rs: persist replays everything every tick
    def b(p):
        p.sink(p.persist(p.src()))
    add("cal_persist", b, [[T([[1]], [1]), T([[2]], [1, 2]), T([[]], [1, 2])]])

    # surface_multiset_delta.rs test_multiset_delta: tick1 [3,4,3] -> 3,4,3 ; tick2 [3,4,3,3] -> 3
    def b(p):
        p.sink(p.multiset_delta(p.src()))
    add("cal_multiset_delta", b, [[T([[3, 4, 3]], [3, 4, 3]), T([[3, 4, 3, 3]], [3]), T([[3]], []), T([[4, 4]], [4, 4])]])

    # surface_join.rs: tick_tick forgets; static_static re-emits everything each tick
    def b(p):
        p.sink(p.join(p.src("p"), p.src("p"), ("tick", "tick")))
    add("cal_join_tick_tick", b, [[T([[[7, 1], [7, 2]], [[7, 0]]], [[7, [1, 0]], [7, [2, 0]]]),
                                  T([[], [[7, 5]]]), ]])
    P[-1].expect[0][1]["ticks"] = [[[]]]

    def b(p):
        p.sink(p.join(p.src("p"), p.src("p"), ("static", "static")))
    add("cal_join_static_static", b, [[T([[[7, 1], [7, 2]], [[7, 0]]], [[7, [1, 0]], [7, [2, 0]]]),
                                      T([[], []], [[7, [1, 0]], [7, [2, 0]]]),
                                      T([[], [[7, 5]]], [[7, [1, 0]], [7, [2, 0]], [7, [1, 5]], [7, [2, 5]]])]])

    # surface_anti_join.rs: anti_join neg static keeps filtering; pos multiset
    def b(p):
        p.sink(p.anti_join(p.src("p"), p.src(), ("tick", "static")))
    add("cal_anti_join_tick_static", b, [[T([[[1, 2], [1, 2], [200, 3]], [200]], [[1, 2], [1, 2]]),
                                         T([[[200, 5], [3, 3]], []], [[3, 3]])]])

    # surface_scheduling.rs / surface_context.rs: defer_tick lands in the next tick; run_available keeps ticking
    def b(p):
        s = p.src()
        d = p.defer("i")
        p.defer_bind(d, s)
        p.sink(d)
    add("cal_defer_tick", b, [[T([[1, 2]], []), T([[3]], [1, 2]), T([[]], [3]), T([[]], [])],
                              [{"mode": "avail", "inputs": [[1, 2]], "ticks": [[[]], [[1, 2]]]}]])

    # surface_scheduling.rs test_defer_lazy: lazy data does not cause another tick
    def b(p):
        s = p.src()
        d = p.defer("i", lazy=True)
        p.defer_bind(d, s)
        p.sink(d)
    add("cal_defer_tick_lazy", b, [[{"mode": "avail", "inputs": [[1, 2]], "ticks": [[[]]]},
                                   {"mode": "avail", "inputs": [[]], "ticks": [[[1, 2]]]}]])

    # surface_fold.rs fold_no_replay semantics (ops doc): emits at tick 0 and on updated ticks only
    def b(p):
        p.sink(p.fold(p.src(), "sum", "static", op="fold_no_replay"))
    add("cal_fold_no_replay", b, [[T([[]], [0]), T([[]], []), T([[2, 3]], [5]), T([[]], []), T([[1]], [6])]])

    # surface_zip_unzip.rs test_zip_static/tick
    def b(p):
        p.sink(p.zip(p.src(), p.src(), ("static", "static")))
    add("cal_zip_static", b, [[T([[1, 2, 3], [7]], [[1, 7]]), T([[], [8, 9, 10]], [[2, 8], [3, 9]]), T([[4], []], [[4, 10]])]])

    def b(p):
        p.sink(p.zip(p.src(), p.src(), ("tick", "tick")))
    add("cal_zip_tick", b, [[T([[1, 2, 3], [7]], [[1, 7]]), T([[], [8, 9, 10]]), T([[4], [5]], [[4, 5]])]])
    P[-1].expect[0][1]["ticks"] = [[[]]]

    # ---- surface_loop.rs
    def cyc(p, w, lazy=False):
        d = p.defer("i", lazy=lazy, ordered=False)
        u = p.union(w, d)
        p.defer_bind(d, p.map(p.filter(u, "lt100"), "mul10") if not lazy else p.map(u, "mul10"))
        return u

    def b(p):       # test_loop_gating_basic / test_root_loop_fires_once_per_tick
        p.loop_begin()
        p.sink(p.window(p_src[0]))
        p.loop_end()
    def with_src(f, n=1, tys=None):
        def g(p):
            p_src[:] = [p.src((tys or ["i"] * n)[i]) for i in range(n)]
            f(p)
        return g
    p_src = []
    add("cal_loop_gating_basic", with_src(b), [[T([[]], []), T([[1, 2]], [1, 2]), T([[]], [])]])

    def b(p):       # test_defer_tick_basic / test_nested_loop_defer_tick: 1 -> 10 -> 100 in ONE tick
        p.loop_begin()
        rd = p.simple(p.window(p_src[0]), "identity")
        p.loop_begin()
        p.sink(cyc(p, p.window(rd)), ordered=True)
        p.loop_end()
        p.loop_end()
    add("cal_loop_nested_defer_tick", with_src(b), [[T([[1]], [1, 10, 100]), T([[]], [])]])

    def b(p):       # test_defer_tick_lazy
        p.loop_begin()
        rd = p.simple(p.window(p_src[0]), "identity")
        p.loop_begin()
        p.sink(cyc(p, p.window(rd), lazy=True))
        p.loop_end()
        p.loop_end()
    add("cal_loop_nested_defer_lazy", with_src(b), [[T([[1]], [1]), T([[2]], [2, 10])]])

    def b(p):       # test_batch_lazy
        p.loop_begin()
        p.sink(p.union(p.window(p_src[0]), p.window(p_src[1], "batch_lazy")))
        p.loop_end()
    add("cal_loop_batch_lazy", with_src(b, 2), [[T([[], [100]], []), T([[1], [200]], [1, 200]), T([[2], []], [2]),
                                                T([[], [300]], [])]])

    def b(p):       # test_all_iterations
        p.loop_begin()
        rd = p.simple(p.window(p_src[0]), "identity")
        p.loop_begin()
        u = cyc(p, p.window(rd))
        p.loop_end()
        p.sink(p.unwindow(u))
        p.loop_end()
    add("cal_loop_all_iterations", with_src(b), [[T([[1]], [1, 10, 100])]])

    def b(p):       # test_root_loop_defer_tick: one step per tick
        p.loop_begin()
        p.sink(cyc(p, p.window(p_src[0])))
        p.loop_end()
    add("cal_loop_root_defer_tick", with_src(b), [[T([[1]], [1]), T([[]], [10]), T([[]], [100]), T([[]], [])]])

    def b(p):       # test_root_loop_defer_tick_lazy
        p.loop_begin()
        p.sink(cyc(p, p.window(p_src[0]), lazy=True))
        p.loop_end()
    add("cal_loop_root_defer_lazy", with_src(b), [[T([[1]], [1]), T([[]], []), T([[2]], [2, 10])]])

    # ---- surface_handoff.rs
    def b(p):       # test_singleton_reference: 42 + 1..=3 (first tick only: source_iter)
        sv = p.cell(p.source_iter([42]), "singleton")
        p.sink(p.ref_map(p.source_iter([1, 2, 3]), sv, "add_ref"))
        p.sink(sv)
    add("cal_ref_singleton", b, [[T([], [43, 44, 45], [42])]])

    def b(p):       # test_singleton_reference_only_multi_tick: persist -> singleton read by a stream
        sv = p.cell(p.persist(p.source_iter([42])), "singleton")
        p.sink(p.ref_map(p.src(), sv, "add_ref"))
    add("cal_ref_singleton_multi_tick", b, [[T([[1, 3]], [43, 45]), T([[100]], [142])]])

    def b(p):       # test_singleton_access_group_ordering: group 0 adds 10, group 1 reads -> 11
        sv = p.cell(p.source_iter([0]), "singleton")
        p.sink(p.ref_map(p.source_iter([10]), sv, "acc_mut", group=0))
        p.sink(p.ref_map(p.source_iter([1]), sv, "add_ref", group=1))
        p.sink(sv)
    add("cal_ref_access_groups", b, [[T([], [10], [11], [10])]])

    def b(p):       # test_handoff_reference: len of the buffer = 5
        hb = p.cell(p.source_iter([1, 2, 3, 4, 5]), "handoff")
        p.sink(p.ref_map(p.source_iter([0]), hb, "add_len"))
        p.sink(hb)
    add("cal_ref_handoff_len", b, [[T([], [5], [1, 2, 3, 4, 5])]])

    def b(p):       # test_handoff_mut_reference: retain > 3 before the consumer drains
        hb = p.cell(p.source_iter([1, 2, 3, 4, 5]), "handoff")
        p.sink(p.ref_map(p.source_iter([3]), hb, "retain_gt"))
        p.sink(hb)
    add("cal_ref_handoff_retain", b, [[T([], [3], [4, 5])]])

    def b(p):       # test_iter_ref_multi_tick
        hb = p.cell(p.src(), "handoff")
        p.sink(p.iter_ref(hb))
        p.sink(hb)
    add("cal_ref_iter_ref", b, [[T([[10, 20]], [10, 20], [10, 20]), T([[30]], [30], [30]), T([[]], [], [])]])

    # ---- second round
    # surface_singleton.rs test_state_tick: 'tick state over Max: tick0 3,4,5 all raise; tick1 2 raises again
    def b(p):
        it, st = p.state(p.src(), "tick")
        p.sink(it)
        p.sink(st)
    add("cal_state_tick", b, [[T([[3, 4, 5]], [3, 4, 5], [5]), T([[2]], [2], [2]), T([[]], [], [0])]])

    # surface_zip_unzip.rs test_zip_longest: 0..5 with two items -> Both, Both, Left, Left, Left
    def b(p):
        p.sink(p.zip_longest(p.src(), p.src()))
    add("cal_zip_longest", b, [[T([[0, 1, 2, 3, 4], [7, 8]], [[0, [0, 7]], [0, [1, 8]], [1, [2, -1]], [1, [3, -1]], [1, [4, -1]]])]])

    # ops/join_fused_lhs.rs doc example: Reduce sum on the left: ("key",(3,2)), ("key",(3,3))
    def b(p):
        p.sink(p.join_fused_side(p.src("p"), p.src("p"), ("tick", "tick"), "lhs", "sum"))
    add("cal_join_fused_lhs", b, [[T([[[7, 0], [7, 1], [7, 2]], [[7, 2], [7, 3]]], [[7, [3, 2]], [7, [3, 3]]])]])

    # surface_join_fused.rs static_tick_lhs_streaming_rhs_blocking: join_fused_rhs::<'static,'tick>:
    # the fused side (port 1) is the persisted one
    def b(p):
        p.sink(p.join_fused_side(p.src("p"), p.src("p"), ("tick", "static"), "rhs", "max"))
    add("cal_join_fused_rhs_static_tick", b, [[T([[[7, 0]], [[7, 1], [7, 2]]], [[7, [0, 2]]]),
                                              T([[[7, 1]], []], [[7, [1, 2]]]), T([[[7, 2]], []], [[7, [2, 2]]])]])

    # ops/join_multiset_half.rs doc example (probe order preserved)
    def b(p):
        p.sink(p.join_multiset_half(p.src("p"), p.src("p"), ("tick", "tick")), ordered=True)
    add("cal_join_multiset_half", b, [[T([[[1, 10], [2, 20]], [[1, 1], [2, 2], [1, 3]]],
                                         [[1, [1, 10]], [2, [2, 20]], [1, [3, 10]]])]])

    # surface_lattice_join.rs test_lattice_join_fused_join_reducing_behavior: Min 5,6 x Max 5,6 -> (7,(5,6))
    def b(p):
        p.sink(p.lattice_join_fused_join(p.map(p.src("p"), "kv_to_min"), p.map(p.src("p"), "kv_to_max"), ("tick", "tick")))
    add("cal_lattice_join_fused_join", b, [[T([[[7, 5], [7, 6]], [[7, 5], [7, 6]]], [[7, [5, 6]]])]])

    # surface_lattice_bimorphism.rs test_cartesian_product: {0,1,2} x {3,4}
    def b(p):
        li, ls = p.state_set(p.src(), "static")
        ri, rs = p.state_set(p.src(), "static")
        p.sink(p.lattice_bimorphism(li, ri, p.cell(ls, "singleton"), p.cell(rs, "singleton")))
    add("cal_lattice_bimorphism", b, [[T([[0, 1, 2], [3, 4]], [[0, 3], [0, 4], [1, 3], [1, 4], [2, 3], [2, 4]]), T([[], []], [])]])

    # surface_lattice_batch.rs: holds the data across a tick, releases on signal, nothing without signal
    def b(p):
        p.sink(p.lattice_fold_batch(p.map(p.src(), "to_max"), p.src()))
    add("cal_lattice_fold_batch", b, [[T([[0, 1], []], []), T([[], [9]], [1]), T([[2], []], []), T([[], []], [])]])
    return P



# ---------------------------------------------------------------------------------------------
# random programs
# ---------------------------------------------------------------------------------------------
def random_prog(rng, name, prop, nops, want=None, deep=False):
    """Random typed DAG. `want`: list of operator names at least one of which must appear."""
    for _attempt in range(200):
        p = Prog(name, prop)
        pool = []       # available streams
        used = set()
        nsrc = rng.choice([1, 2, 2, 3])
        for _ in range(nsrc):
            pool.append(p.src(rng.choice(["i", "i", "i", "p"])))
        ops_done = 0
        tries = 0
        wanted_ok = want is None
        while ops_done < nops and tries < 200:
            tries += 1
            op = rng.choice(want) if (want and not wanted_ok and rng.random() < 0.5) else rng.choice(RANDOM_OPS)
            try:
                outs = apply_random_op(p, rng, op, pool)
            except GenError:
                continue
            if outs is None:
                continue
            ins, new = outs
            for s in ins:
                used.add(s)
            pool.extend(new)
            ops_done += 1
            if want and op in want:
                wanted_ok = True
        if not wanted_ok:
            continue
        # every unconsumed stream gets a sink (sort first sometimes, to get an ordered sink)
        dangling = [s for s in pool if s not in used]
        if not dangling:
            dangling = [pool[-1]]
        if len(dangling) > 4:
            continue
        try:
            for s in dangling:
                if not p.od(s) and p.ty(s) in ("i", "p", "kp") and rng.random() < 0.4:
                    s = p.sort(s)
                p.sink(s)
            p.check()
        except GenError:
            continue
        return p
    raise GenError("could not generate " + name)


RANDOM_OPS = ["map", "map", "filter", "flat_map", "filter_map", "fold", "fold_no_replay", "reduce",
              "reduce_no_replay", "fold_keyed", "reduce_keyed", "join", "join_multiset", "cross_join",
              "cross_join_multiset", "anti_join", "difference", "unique", "persist", "multiset_delta",
              "sort", "sort_by_key", "enumerate", "zip", "scan", "union", "chain", "partition", "unzip",
              "defer_tick", "defer_tick_lazy", "cross_singleton", "defer_signal", "identity", "handoff",
              "state", "zip_longest", "demux_enum", "join_fused", "join_multiset_half", "chain_first_n"]
BLOCKING_OPS = ["fold", "reduce", "sort", "anti_join", "difference", "join", "persist", "fold_keyed",
                "cross_singleton", "zip", "fold_no_replay", "reduce_no_replay", "sort_by_key", "defer_signal"]


def pick(rng, pool, p, *types, ordered=False):
    c = [s for s in pool if p.ty(s) in types and (not ordered or p.od(s))]
    if not c:
        raise GenError("no stream")
    # prefer recent streams (deeper pipelines)
    return c[-1] if rng.random() < 0.5 else rng.choice(c)


def rp(rng):
    return rng.choice(["tick", "static"])


def apply_random_op(p, rng, op, pool):
    P2 = lambda: (rp(rng), rp(rng))
    if op == "map":
        s = pick(rng, pool, p, "i", "p", "kp")
        fns = [f for f in RANDOM_MAPS if MAPS[f][0] == p.ty(s)]
        return [s], [p.map(s, rng.choice(fns))]
    if op == "filter":
        s = pick(rng, pool, p, "i", "p")
        fns = [f for f in RANDOM_PREDS if PREDS[f] == p.ty(s)]
        return [s], [p.filter(s, rng.choice(fns))]
    if op == "flat_map":
        s = pick(rng, pool, p, "i", "p")
        fns = [f for f, (it, _) in FLATS.items() if it == p.ty(s)]
        return [s], [p.flat_map(s, rng.choice(fns))]
    if op == "filter_map":
        s = pick(rng, pool, p, "i")
        return [s], [p.filter_map(s, rng.choice(list(OPTS)))]
    if op in ("fold", "fold_no_replay"):
        s = pick(rng, pool, p, "i", "p")
        fns = [f for f, (it, _) in FOLDS.items() if it in ("*", p.ty(s)) and (f != "push" or p.od(s))]
        fn = rng.choice(fns)
        r = p.fold(s, fn, rp(rng), op=op)
        if fn == "push":
            r = p.flatten(r)
        return [s], [r]
    if op in ("reduce", "reduce_no_replay"):
        s = pick(rng, pool, p, "i")
        return [s], [p.reduce(s, rng.choice(REDS), rp(rng), op=op)]
    if op == "fold_keyed":
        s = pick(rng, pool, p, "p")
        return [s], [p.fold_keyed(s, rng.choice(KFOLDS), rp(rng))]
    if op == "reduce_keyed":
        s = pick(rng, pool, p, "p")
        return [s], [p.reduce_keyed(s, rng.choice(REDS), rp(rng))]
    if op in ("join", "join_multiset"):
        a, b = pick(rng, pool, p, "p"), pick(rng, pool, p, "p")
        return [a, b], [p.join(a, b, P2(), op=op)]
    if op in ("cross_join", "cross_join_multiset"):
        a, b = pick(rng, pool, p, "i"), pick(rng, pool, p, "i")
        return [a, b], [p.cross_join(a, b, P2(), op=op)]
    if op == "anti_join":
        a, b = pick(rng, pool, p, "p"), pick(rng, pool, p, "i")
        return [a, b], [p.anti_join(a, b, P2())]
    if op == "difference":
        a = pick(rng, pool, p, "i", "p")
        b = pick(rng, pool, p, p.ty(a))
        return [a, b], [p.difference(a, b, P2())]
    if op == "unique":
        s = pick(rng, pool, p, "i", "p")
        return [s], [p.unique(s, rp(rng))]
    if op == "persist":
        s = pick(rng, pool, p, "i", "p")
        return [s], [p.persist(s)]
    if op == "multiset_delta":
        s = pick(rng, pool, p, "i", "p", "kp")
        return [s], [p.multiset_delta(s)]
    if op == "sort":
        s = pick(rng, pool, p, "i", "p", "kp")
        return [s], [p.sort(s)]
    if op == "sort_by_key":
        s = pick(rng, pool, p, "i", "p")
        return [s], [p.sort_by_key(s, "id" if p.ty(s) == "i" else rng.choice(["fst", "snd"]))]
    if op == "enumerate":
        s = pick(rng, pool, p, "i", ordered=True)
        return [s], [p.enumerate(s, rp(rng))]
    if op == "zip":
        a, b = pick(rng, pool, p, "i", ordered=True), pick(rng, pool, p, "i", ordered=True)
        return [a, b], [p.zip(a, b, P2())]
    if op == "scan":
        s = pick(rng, pool, p, "i", ordered=True)
        return [s], [p.scan(s, rng.choice(SCANS), rp(rng))]
    if op == "union":
        a = pick(rng, pool, p, "i", "p")
        b = pick(rng, pool, p, p.ty(a))
        return [a, b], [p.union(a, b)]
    if op == "chain":
        a = pick(rng, pool, p, "i", "p")
        b = pick(rng, pool, p, p.ty(a))
        return [a, b], [p.chain(a, b)]
    if op == "chain_first_n":
        a = pick(rng, pool, p, "i", "p", ordered=True)
        b = pick(rng, pool, p, p.ty(a), ordered=True)
        return [a, b], [p.chain_first_n(a, b, rng.randrange(1, 5))]
    if op == "partition":
        s = pick(rng, pool, p, "i", "p")
        fns = [f for f in RANDOM_PREDS if PREDS[f] == p.ty(s)]
        a, b = p.partition(s, rng.choice(fns))
        return [s], [a, b]
    if op == "unzip":
        s = pick(rng, pool, p, "p")
        a, b = p.unzip(s)
        return [s], [a, b]
    if op in ("defer_tick", "defer_tick_lazy"):
        s = pick(rng, pool, p, "i", "p")
        d = p.defer(p.ty(s), lazy=op == "defer_tick_lazy", ordered=p.od(s))
        p.defer_bind(d, s)
        return [s], [d]
    if op == "cross_singleton":
        a = pick(rng, pool, p, "i")
        b = pick(rng, pool, p, "i", ordered=True)
        return [a, b], [p.cross_singleton(a, b, rp(rng))]
    if op == "defer_signal":
        a = pick(rng, pool, p, "i", "p")
        b = pick(rng, pool, p, "i", "p")
        return [a, b], [p.defer_signal(a, b)]
    if op == "state":
        s = pick(rng, pool, p, "i")
        a, b = p.state(s, rp(rng)) if rng.random() < 0.5 else p.state_by(s, rp(rng))
        return [s], [a, b]
    if op == "zip_longest":
        a, b = pick(rng, pool, p, "i", ordered=True), pick(rng, pool, p, "i", ordered=True)
        return [a, b], [p.zip_longest(a, b)]
    if op == "demux_enum":
        s = pick(rng, pool, p, "i")
        a, b = p.demux_enum(s)
        return [s], [a, b]
    if op == "join_fused":
        a, b = pick(rng, pool, p, "p"), pick(rng, pool, p, "p")
        k = rng.randrange(3)
        r = p.join_fused(a, b, P2()) if k == 0 else p.join_fused_side(a, b, P2(), "lhs" if k == 1 else "rhs", rng.choice(REDS))
        return [a, b], [r]
    if op == "join_multiset_half":
        a, b = pick(rng, pool, p, "p"), pick(rng, pool, p, "p")
        return [a, b], [p.join_multiset_half(a, b, P2())]
    if op in ("identity", "handoff"):
        s = pick(rng, pool, p, "i", "p")
        if op == "handoff" and p.nodes[s[0] - 1].op in ("handoff", "singleton", "optional"):
            raise GenError("adjacent handoff")
        return [s], [p.simple(s, op)]
    raise GenError("unknown op " + op)


# ---------------------------------------------------------------------------------------------
# C22 variants: decorations on edges
# ---------------------------------------------------------------------------------------------
STATEFUL = {"fold", "fold_no_replay", "reduce", "reduce_no_replay", "fold_keyed", "reduce_keyed", "unique",
            "persist", "multiset_delta", "sort", "sort_by_key", "enumerate", "scan", "join", "join_multiset",
            "cross_join", "cross_join_multiset", "anti_join", "difference", "zip", "partition", "unzip",
            "map", "filter", "flat_map", "filter_map", "flatten", "cross_singleton", "defer_signal", "union",
            "chain", "chain_first_n", "state", "state_by", "zip_longest", "demux_enum", "join_fused",
            "join_fused_lhs", "join_fused_rhs", "join_multiset_half", "lattice_fold_batch", "resolve_futures",
            "resolve_futures_ordered", "lattice_bimorphism"}


def edges(p):
    E = []
    for n in p.nodes:
        for i, s in enumerate(n.ins):
            E.append((s[0], s[1], n.idx, i))
        if n.din:
            E.append((n.din[0], n.din[1], n.idx, "d"))
    return E


def deco_ok(p, e, d):
    """decorations that keep the program legal"""
    prod, cons = p.nodes[e[0] - 1], p.nodes[e[2] - 1]
    if prod.lp != cons.lp:
        return False            # windowing edges stay as they are
    if prod.lp != 0 and d in ("union_empty",):
        return False            # a source_iter inside a loop block is not a legal source
    if d == "handoff" and (prod.op in ("handoff", "singleton", "optional") or cons.op in ("handoff", "singleton", "optional")):
        return False
    if cons.op in ("singleton", "optional", "handoff") or prod.op in ("singleton", "optional", "handoff"):
        return d in ("identity", "map_id") and prod.op not in ("singleton", "optional", "handoff")
    return True


def variants(p, rng):
    """list of (variant name, deco dict)"""
    E = edges(p)
    out = []
    # pushify: tee_null in front of every stateful operator input
    d = {e: ["tee_null"] for e in E if p.nodes[e[2] - 1].op in STATEFUL and deco_ok(p, e, "tee_null")}
    if d:
        out.append(("push", d))
    # pullify: union_empty behind every stateful operator output
    d = {e: ["union_empty"] for e in E if p.nodes[e[0] - 1].op in STATEFUL and deco_ok(p, e, "union_empty")}
    if d:
        out.append(("pull", d))
    # split: handoff / identity / map(id) on random edges
    d = {}
    for e in E:
        if rng.random() < 0.6:
            k = rng.choice(["handoff", "identity", "map_id", "handoff"])
            if deco_ok(p, e, k):
                d[e] = [k]
    if d:
        out.append(("split", d))
    # mixed
    d = {}
    for e in E:
        if rng.random() < 0.5:
            ks = [k for k in rng.sample(["tee_null", "union_empty", "identity", "handoff"], 2) if deco_ok(p, e, k)]
            if "handoff" in ks and len(ks) > 1:
                ks.remove("handoff")
            if ks:
                d[e] = ks
    if d:
        out.append(("mixed", d))
    return out


# ---------------------------------------------------------------------------------------------
# histories
# ---------------------------------------------------------------------------------------------
def rand_item(rng, ty):
    if ty == "i":
        return rng.randrange(0, 6)
    return [rng.randrange(0, 3), rng.randrange(0, 4)]


def history(rng, p, nsteps, avail_rate):
    H = []
    # quadratic operators over persisted inputs: keep the histories short (TLC compares bags in O(n^2))
    heavy = sum(1 for n in p.nodes if n.op in ("cross_join", "cross_join_multiset", "join", "join_multiset",
                                               "join_multiset_half", "persist") and ("static" in n.pers))
    if heavy >= 2:
        nsteps = min(nsteps, 5)
    if p.gaps:
        nsteps = max(nsteps, 5)
    for i in range(nsteps):
        inputs = []
        for ty in p.src_types:
            r = rng.random()
            n = 0 if r < 0.25 else rng.randrange(1, 5)
            if p.gaps:      # data in the first tick, a guaranteed gap, data again, then random
                n = rng.randrange(2, 5) if i in (0, 3) else 0 if i == 2 else (0 if r < 0.4 else rng.randrange(1, 4))
            inputs.append([rand_item(rng, ty) for _ in range(n)])
        for grp in p.mirror:
            for k in grp[1:]:
                inputs[k - 1] = list(inputs[grp[0] - 1])
        mode = "avail" if (p.avail_term and rng.random() < avail_rate) else "tick"
        H.append({"mode": mode, "inputs": inputs})
    return H


# ---------------------------------------------------------------------------------------------
def build_all(seed, tier):
    # the PROGRAM set depends on the seed only (one generated crate per seed: no rebuild when the
    # tier changes); the tier decides how many / how long the input histories are
    rng = random.Random(seed * 7919)
    hr = random.Random(seed * 104729 + (1 if tier == "thorough" else 0))
    NH = 6 if tier == "thorough" else 2
    HL = (4, 8) if tier == "thorough" else (3, 7)
    progs = []      # entries: dict(id, name, prop, base, variant, prog, deco)
    hists = {}

    extra_mode = [False]

    def register(p, variant="", deco=None, base=None, shuffle=None):
        pid = len(progs) + 1
        progs.append({"id": pid, "name": p.name + ("__" + variant if variant else ""), "prop": p.prop,
                      "base": base or pid, "variant": variant, "prog": p, "deco": deco, "shuffle": shuffle,
                      "extra": extra_mode[0]})
        return pid

    nrand = dict(c21=4, c22=7, c23=8, c24=4)

    base = corpus() + refs_corpus() + loops_corpus()
    for p in base:
        pid = register(p)
        hists[pid] = [history(hr, p, hr.randrange(*HL), 0.3 if p.prop in ("C24", "C26") else 0.15) for _ in range(NH)]
        if p.allow_short_circuit:
            # the minimal witness first: two new items on the stateful side, one of them again later
            T = lambda a, c: {"mode": "tick", "inputs": [a, c, list(a), list(c)]}
            hists[pid] = [[T([1], [4, 5]), T([2], [5]), T([3], [5, 0]), T([4], [0])],
                          [T([], [4, 5]), T([1], [5]), T([2], [4])]] + hists[pid][:1]
    for p in calibration():
        pid = register(p)
        hists[pid] = p.expect
    order_extra, order_extra_bases = [], []
    for item in order_corpus():
        p, perms = item[0], item[1]
        if len(item) > 2 and item[2]:
            order_extra_bases.append((p, perms))
            continue
        pid = register(p)
        hists[pid] = [history(hr, p, hr.randrange(*HL), 0.2 if p.prop == "C26" else 0.0) for _ in range(NH)]
        d = {}
        if p.name.startswith("refdeep_"):
            # writers' inputs go through tee / handoff / union chains
            for e in edges(p):
                cons_, prod_ = p.nodes[e[2] - 1], p.nodes[e[0] - 1]
                if cons_.op == "ref_map" and cons_.fn == "acc_mut":
                    d[e] = ["tee_null", "handoff", "union_empty"]
        if d:
            progs[-1]["deco"] = d
        for (code, is_extra) in perms:
            if is_extra:
                order_extra.append((p, code, pid, d))
            else:
                vid = register(p, variant=code, base=pid, shuffle=code, deco=d or None)
                hists[vid] = hists[pid]
    # random C21
    for i in range(nrand["c21"]):
        p = random_prog(rng, "rand%02d" % i, "C21", rng.randrange(3, 8))
        pid = register(p)
        hists[pid] = [history(hr, p, hr.randrange(*HL), 0.15) for _ in range(NH)]
    # C23: blocking operators behind deep same-tick pipelines
    for i in range(nrand["c23"]):
        p = random_prog(rng, "deep%02d" % i, "C23", rng.randrange(6, 11), want=BLOCKING_OPS)
        E = edges(p)
        d = {}
        for e in E:
            if p.nodes[e[2] - 1].op in BLOCKING_OPS:
                ks = []
                for _ in range(rng.randrange(1, 5)):
                    k = rng.choice(["identity", "map_id", "handoff", "union_empty", "tee_null"])
                    if deco_ok(p, e, k) and not (k == "handoff" and ks and ks[-1] == "handoff"):
                        ks.append(k)
                if ks:
                    d[e] = ks
        pid = register(p, deco=d)
        hists[pid] = [history(hr, p, hr.randrange(*HL), 0.1) for _ in range(NH)]
    # C24: defer chains + stateful operators
    for i in range(nrand["c24"]):
        p = random_prog(rng, "tick%02d" % i, "C24", rng.randrange(4, 8), want=["defer_tick", "defer_tick_lazy"])
        pid = register(p)
        hists[pid] = [history(hr, p, hr.randrange(*HL), 0.5) for _ in range(NH)]
    # C22: variants of hand-written and random bases, validated against the base's description
    cands = [e for e in progs if e["prop"] == "C21" and not e["variant"] and not e["prog"].allow_short_circuit]
    rng.shuffle(cands)
    nvar = 0
    for e in cands:
        if nvar >= nrand["c22"]:
            break
        vs = variants(e["prog"], rng)
        rng.shuffle(vs)
        for (vn, d) in vs[:2]:
            q = e["prog"]
            pid = register(q, variant=vn, deco=d, base=e["id"])
            progs[-1]["prop"] = "C22"
            hists[pid] = hists[e["id"]]
        nvar += 1
    # C25 / C26: statement order is irrelevant (ordering comes from the partitioner), and loops /
    # reference programs also get split variants (identity / map(id) / handoff inside one context)
    for e in [e for e in progs if e["prop"] in ("C25", "C26") and not e["variant"]]:
        r = rng.random()
        if r < 0.45:
            continue
        if r < 0.8:
            pid = register(e["prog"], variant="shuffle", base=e["id"], shuffle=rng.randrange(1 << 30))
            hists[pid] = hists[e["id"]]
        else:
            d = {}
            for ed in edges(e["prog"]):
                if rng.random() < 0.5:
                    k = rng.choice(["identity", "map_id"])
                    if deco_ok(e["prog"], ed, k):
                        d[ed] = [k]
            if d:
                pid = register(e["prog"], variant="split", deco=d, base=e["id"])
                hists[pid] = hists[e["id"]]

    # ---- thorough-tier bulk: registered AFTER every quick program (ids of the quick set are stable);
    # own RNG streams so that the quick set does not depend on it
    extra_mode[0] = True
    xr = random.Random(seed * 31337 + 7)
    xh = random.Random(seed * 15485863 + (1 if tier == "thorough" else 0))
    for (p, code, pid, d) in order_extra:
        vid = register(p, variant=code, base=pid, shuffle=code, deco=d or None)
        hists[vid] = hists[pid]
    for (p, perms) in order_extra_bases:
        pid = register(p)
        hists[pid] = [history(xh, p, xh.randrange(*HL), 0.2 if p.prop == "C26" else 0.0) for _ in range(NH)]
        d = {}
        if p.name.startswith("refdeep_"):
            for e in edges(p):
                if p.nodes[e[2] - 1].op == "ref_map" and p.nodes[e[2] - 1].fn == "acc_mut":
                    d[e] = ["tee_null", "handoff", "union_empty"]
            progs[-1]["deco"] = d
        for (code, _x) in perms:
            vid = register(p, variant=code, base=pid, shuffle=code, deco=d or None)
            hists[vid] = hists[pid]
    xprogs = list(extra_corpus())
    for i in range(14):
        xprogs.append(random_prog(xr, "xrand%02d" % i, "C21", xr.randrange(4, 9)))
    for i in range(6):
        xprogs.append(random_prog(xr, "xtick%02d" % i, "C24", xr.randrange(4, 8), want=["defer_tick", "defer_tick_lazy"]))
    for p in xprogs:
        pid = register(p)
        hists[pid] = [history(xh, p, xh.randrange(*HL), 0.4 if p.prop == "C24" else 0.15) for _ in range(NH)]
    for i in range(8):
        p = random_prog(xr, "xdeep%02d" % i, "C23", xr.randrange(6, 11), want=BLOCKING_OPS)
        d = {}
        for e in edges(p):
            if p.nodes[e[2] - 1].op in BLOCKING_OPS:
                ks = []
                for _ in range(xr.randrange(1, 5)):
                    k = xr.choice(["identity", "map_id", "handoff", "union_empty", "tee_null"])
                    if deco_ok(p, e, k) and not (k == "handoff" and ks and ks[-1] == "handoff"):
                        ks.append(k)
                if ks:
                    d[e] = ks
        pid = register(p, deco=d)
        hists[pid] = [history(xh, p, xh.randrange(*HL), 0.1) for _ in range(NH)]
    xc = [e for e in progs if e["extra"] and e["prop"] == "C21" and not e["variant"] and not e["prog"].pairs]
    xr.shuffle(xc)
    for e in xc[:8]:
        vs = variants(e["prog"], xr)
        xr.shuffle(vs)
        for (vn, d) in vs[:2]:
            pid = register(e["prog"], variant=vn, deco=d, base=e["id"])
            progs[-1]["prop"] = "C22"
            hists[pid] = hists[e["id"]]
    return progs, hists


HEADER = """// GENERATED by tools/gen_dfir_progs.py -- do not edit. seed=%d
use dfir_rs::dfir_syntax;
use hv_common::{Trace, Value};

use crate::rt;
use crate::vocab as v;

"""


def main():
    seed = int(os.environ.get("VERIF_SEED", "1"))
    tier = "quick"
    outdir = os.path.join(ROOT, "runs", "dfirtick")
    args = sys.argv[1:]
    exclude = set()
    i = 0
    while i < len(args):
        if args[i] == "--tier":
            tier = args[i + 1]
            i += 2
        elif args[i] == "--out":
            outdir = args[i + 1]
            i += 2
        elif args[i] == "--exclude":
            exclude = {int(x) for x in args[i + 1].split(",") if x}
            i += 2
        elif args[i] == "--seed":
            seed = int(args[i + 1])
            i += 2
        else:
            i += 1
    os.makedirs(outdir, exist_ok=True)
    progs, hists = build_all(seed, tier)
    meta = []
    broke = []
    changed = False
    for (fname_rs, want_extra) in (("gen_progs.rs", False), ("gen_progs_x.rs", True)):
        src = [HEADER % seed]
        table = []
        for e in progs:
            if e["extra"] != want_extra:
                continue
            if e["id"] in exclude:  # rejected by dfir_lang / rustc (reported by the driver): keep the crate buildable
                continue
            fname = "p%03d" % e["id"]
            src.append("// %s [%s]%s" % (e["name"], e["prop"], " variant of p%03d" % e["base"] if e["variant"] else ""))
            sh = (lambda: permuter(e["shuffle"])) if e["shuffle"] is not None else (lambda: None)
            src.append(e["prog"].rust_fn(fname, e["deco"], sh()))
            src.append("")
            table.append("        %d => %s(steps, out)," % (e["id"], fname))
            if want_extra and tier != "thorough":
                continue            # thorough-only programs are not part of the quick run
            body = e["prog"].rust_body(e["deco"], sh())
            if os.environ.get("DFIRTICK_SELFTEST_BREAK_VARIANT") and e["variant"] and not broke:
                # self-test of the driver's compile-verdict path: one variant becomes illegal for dfir_lang
                body += "\n        no_such_name -> null();"
                broke.append(e["id"])
            tags = set(e["prog"].tags)
            for opn in ("tee", "null", "handoff", "identity"):
                if "%s()" % opn in body:
                    tags.add(opn + "|-")
            meta.append({"id": e["id"], "name": e["name"], "prop": e["prop"], "base": e["base"],
                         "variant": e["variant"], "desc": e["prog"].desc(), "tags": sorted(tags),
                         "avail_ok": e["prog"].avail_term, "calibration": e["prog"].expect is not None,
                         "extra": e["extra"], "text": body})
        src.append("pub fn run(id: u32, steps: &Value, out: &mut Trace) -> bool {")
        src.append("    match id {")
        src.extend(table)
        src.append("        _ => return false,")
        src.append("    }")
        src.append("    true")
        src.append("}")
        text = "\n".join(src) + "\n"
        target = os.path.join(ROOT, "harness", "hv_dfir", "src", fname_rs)
        old = open(target).read() if os.path.exists(target) else None
        if old != text:
            changed = True
            with open(target, "w") as f:
                f.write(text)
    hists = {k: v for k, v in hists.items() if any(m["id"] == k for m in meta)}
    with open(os.path.join(outdir, "progs.json"), "w") as f:
        json.dump(meta, f)
    with open(os.path.join(outdir, "hist.json"), "w") as f:
        json.dump({str(k): v for k, v in hists.items()}, f)
    print(json.dumps({"programs": len(meta), "generated": len(progs), "changed": changed, "seed": seed, "tier": tier}))


if __name__ == "__main__":
    main()
