#!/bin/sh
n="$1"; [ -n "$n" ] || { echo "usage: rm_sandbox.sh <name>"; exit 2; }
d="/tmp/sb_$n"
git -C /repo worktree remove --force "$d/repo" 2>/dev/null || true
rm -rf "$d"
git -C /repo worktree prune
echo removed $d
