#!/bin/sh
# tools/mk_sandbox.sh <name>: private copy of /verif + git worktree of /repo HEAD under /tmp/sb_<name>
set -e
n="$1"; [ -n "$n" ] || { echo "usage: mk_sandbox.sh <name>"; exit 2; }
d="/tmp/sb_$n"
[ -e "$d" ] && { echo "$d exists"; exit 2; }
mkdir -p "$d"
git -C /repo worktree add --detach "$d/repo" HEAD >/dev/null 2>&1
rsync -a --exclude target --exclude runs --exclude .git --exclude __pycache__ --exclude states --exclude "*_TTrace_*" /verif/ "$d/verif/" || [ $? -eq 24 ]
mkdir -p "$d/verif/runs"
echo "sandbox: $d  (run: cd $d/verif && VERIF_REPO=$d/repo ./check <ID>)"
